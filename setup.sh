#!/bin/bash
# setup.sh - MANIFEST.setup_cmd: build everything from files on disk (offline).
cd "$(dirname "$0")"
./build.sh || exit 1
echo "setup ok"
