"""exact_selftest.py - checks of the exact-mode machinery itself (harness/exact.py):

    PYTHONPATH=/repo /venv/bin/python exact_selftest.py [py|cy]

1. Ex arithmetic / comparisons agree with fractions.Fraction on random operands
   of every supported type; poison behaves like NaN.
2. A harmless rewrite of the library that the Ex / object-array machinery cannot
   execute (np.isfinite has no object loop -> TypeError) must NOT produce a
   mismatch: the case is re-run on the float path and counted in exact_fallbacks.
3. A rounded float entering the arithmetic (x * (1.0/3)) sends the case to the
   float path; a rounded float that is only compared does not.
4. A genuine value change (x + 2**-30, invisible to the 1e-9 tolerance) IS
   reported by the exact comparison and is NOT reported by the float comparison.
5./6. see the code.
Nothing in /repo is edited: the rewrites are monkeypatches of the loaded modules.
"""
import math
import operator
import os
import random
import sys
from fractions import Fraction as F

sys.path.insert(0, os.path.dirname(os.path.abspath(__file__)))
import numpy as np          # noqa: E402
import backend              # noqa: E402
import core                 # noqa: E402
import adapters             # noqa: E402
import exact                # noqa: E402
from exact import Ex        # noqa: E402


def test_ex():
    rng = random.Random(5)

    def rnd():
        k = rng.random()
        if k < .3:
            return F(rng.randint(-20, 20), rng.randint(1, 16))
        if k < .5:
            return rng.randint(-5, 5)
        if k < .7:
            return rng.choice([0.5, -0.25, 3.0, 0.1, 1 / 3, 0.0])
        if k < .8:
            return np.float64(rng.choice([0.5, 2.0, 0.0]))
        if k < .9:
            return np.int64(rng.randint(-3, 3))
        return Ex(F(rng.randint(-20, 20), rng.randint(1, 16)))

    def val(x):
        if isinstance(x, Ex):
            return x.v
        if isinstance(x, (float, np.floating)):
            return F(float(x))
        return F(int(x)) if isinstance(x, (int, np.integer)) else x

    ops = [operator.add, operator.sub, operator.mul, operator.truediv, operator.floordiv, operator.mod,
           operator.lt, operator.le, operator.gt, operator.ge, operator.eq, operator.ne]
    for _ in range(50000):
        a, b = rnd(), rnd()
        if not isinstance(a, Ex) and not isinstance(b, Ex):
            a = Ex(a)
        op = rng.choice(ops)
        try:
            want = op(val(a), val(b))
        except ZeroDivisionError:
            want = None
        got = op(a, b)
        if want is None:
            assert isinstance(got, Ex) and got.is_poison(), (a, b, op, got)
        elif isinstance(want, bool):
            assert bool(got) is want, (a, b, op, got, want)
        else:
            assert isinstance(got, Ex) and got.v == want and math.gcd(got.n, got.d) == 1 and got.d > 0, \
                (a, b, op, got, want)
    p = Ex(1) / 0
    assert not (p < 1) and not (p == p) and (p != p) and (p + 1).is_poison() and (1 - p).is_poison()
    assert math.isnan(float(p)) and math.isnan(core.canon(p)) and math.isnan(core.canon(p, exact=True))
    assert core.canon(Ex(F(1, 3)), exact=True) == F(1, 3) and core.canon(Ex(F(1, 2))) == 0.5
    assert core.agree(F(1, 3), F(1, 3)) is None and core.agree(F(1, 3), F(1, 3) + F(1, 10 ** 30)) is not None
    assert core.agree(F(1, 3), 1 / 3) is None and core.agree(F(1, 3), float("nan")) is not None
    print("1. Ex arithmetic, poison, canon, agree: ok")


def main():
    be = sys.argv[1] if len(sys.argv) > 1 else "py"
    test_ex()
    ps, mods = backend.load(be)
    impl = adapters.Impl(ps, mods, be)
    exact.install(ps, mods)
    cy = be == "cy"
    mod = mods["cython_profiles"] if cy else sys.modules["pyspike.cython.python_backend"]
    fname = "isi_profile_cython" if cy else "isi_distance_python"
    orig = getattr(mod, fname)
    args = [[F(1, 8), F(1, 2)], [F(1, 4), F(3, 4)], F(0), F(1), F(0)]
    mv = core.run_model([(1, [cy] + args)])[0]

    def run(rewrite):
        setattr(mod, fname, rewrite)
        try:
            st = exact.Stats()
            d, iv, ex = exact.compare(impl, 1, args, mv, core.TOL, st)
            dfloat = core.agree(mv, core.call_impl(impl.call, 1, args))
            return d, ex, st, dfloat
        finally:
            setattr(mod, fname, orig)

    d, ex, st, _ = run(orig)
    assert d is None and ex and st.exact_compared == 1 and st.leaves_eq > 0 and st.leaves_tol == 0, (d, st.as_dict())
    print("   unchanged library: compared with == on %d leaves" % st.leaves_eq)

    # 2. harmless rewrite the machinery cannot execute
    def harmless(s1, s2, *a):
        assert mod.np.isfinite(s1).all()            # TypeError on an object array of Ex
        return orig(s1, s2, *a)
    d, ex, st, _ = run(harmless)
    assert d is None and not ex and st.fallbacks == 1 and st.exact_compared == 0, (d, st.as_dict())
    assert "TypeError" in st.fallback_samples[0], st.fallback_samples
    print("2. machinery exception -> float path, no mismatch: ok\n   sample: %s" % st.fallback_samples[0][:160])

    # 3. rounded float in arithmetic / in a comparison only
    def rounded(s1, s2, *a):
        x, y = orig(s1, s2, *a)
        return x, y * (1.0 / 3) * 3.0
    d, ex, st, _ = run(rounded)
    assert d is None and not ex and st.rounded == 1 and st.fallbacks == 0, (d, st.as_dict())

    def compared_only(s1, s2, *a):
        assert all(t > -1e-6 for t in s1)
        return orig(s1, s2, *a)
    d, ex, st, _ = run(compared_only)
    assert d is None and ex and st.rounded == 0 and st.exact_compared == 1, (d, st.as_dict())
    print("3. rounded float: arithmetic -> float path, comparison -> stays exact: ok")

    # 4. a genuine, tiny value change
    def tiny(s1, s2, *a):
        x, y = orig(s1, s2, *a)
        y[0] = y[0] + 2.0 ** -30
        return x, y
    d, ex, st, dfloat = run(tiny)
    assert d is not None and ex and "exact comparison" in d, (d, st.as_dict())
    assert dfloat is None
    print("4. change of 2**-30: found by ==, invisible to the tolerance: ok\n   %s" % d)

    # 5. a genuine exception (raised on the float path as well) is compared as Err, not hidden
    def raises(s1, s2, *a):
        raise ValueError("boom")
    d, ex, st, dfloat = run(raises)
    assert d is not None and dfloat is not None and st.fallbacks == 0, (d, dfloat, st.as_dict())
    print("5. exception raised by both runs is still a mismatch: ok")

    # 6. a rewrite that behaves differently on Ex objects than on floats (type-dependent
    #    branch): large exact difference, float run agrees -> artefact, no mismatch
    def type_dependent(s1, s2, *a):
        x, y = orig(s1, s2, *a)
        if not isinstance(y[0], float):
            y[0] = y[0] + 1
        return x, y
    d, ex, st, dfloat = run(type_dependent)
    assert d is None and not ex and dfloat is None and st.fallbacks == 1, (d, dfloat, st.as_dict())
    print("6. type-dependent behaviour of a rewrite -> float path, no mismatch: ok")
    print("exact_selftest: all ok (%s)" % be)


if __name__ == "__main__":
    main()
