"""gen.py - deterministic input generators (everything derives from one
random.Random seeded with VERIF_SEED)."""
import itertools
from fractions import Fraction as Fr


def grid_trains(k, g):
    """all strictly increasing spike lists with <= k spikes on {0,1/g,...,1}"""
    pts = [Fr(i, g) for i in range(g + 1)]
    out = []
    for n in range(k + 1):
        for c in itertools.combinations(pts, n):
            out.append(list(c))
    return out


def rand_train(rng, maxn, g, p_edge=0.2):
    n = rng.randint(0, maxn)
    pts = set()
    if rng.random() < p_edge:
        pts.add(0)
    if rng.random() < p_edge:
        pts.add(g)
    while len(pts) < n:
        pts.add(rng.randint(0, g))
    return [Fr(i, g) for i in sorted(pts)][:max(n, 0)] if n else []


def rand_trains(rng, ntr, maxn, g, share=0.3):
    """list of trains on [0,1] with forced shared spike times / repeats"""
    out = []
    for i in range(ntr):
        r = rng.random()
        if out and r < 0.1:
            out.append(list(rng.choice(out)))      # repeated train
            continue
        t = set(int(x * g) for x in rand_train(rng, maxn, g))
        if out and rng.random() < share and out[-1]:
            for x in rng.sample(out[-1], min(len(out[-1]), rng.randint(1, 2))):
                t.add(int(x * g))
        out.append([Fr(i, g) for i in sorted(t)])
    return out


MRTS_GRID = [Fr(0), Fr(1, 4), Fr(1, 2), Fr(2)]
MAXTAU_GRID = [Fr(0), Fr(1, 8), Fr(1, 4)]


def breakpoints(rng, maxn, g):
    """strictly increasing x from 0 to 1 with <= maxn interior points"""
    n = rng.randint(0, maxn)
    inner = sorted(rng.sample(range(1, g), min(n, g - 1)))
    return [Fr(0)] + [Fr(i, g) for i in inner] + [Fr(1)]


VALS = [Fr(-2), Fr(-1), Fr(0), Fr(1, 2), Fr(1), Fr(3)]


def rand_pwc(rng, maxn=4, g=8):
    xs = breakpoints(rng, maxn, g)
    return xs, [rng.choice(VALS) for _ in range(len(xs) - 1)]


def rand_pwl(rng, maxn=4, g=8):
    xs = breakpoints(rng, maxn, g)
    n = len(xs) - 1
    return xs, [rng.choice(VALS) for _ in range(n)], [rng.choice(VALS) for _ in range(n)]


def rand_df(rng, maxn=4, g=8, edge_events=True):
    """discrete profile on [0,1]: edge entries copy their neighbours"""
    n = rng.randint(0, maxn)
    pool = list(range(0, g + 1)) if edge_events else list(range(1, g))
    inner = sorted(rng.sample(pool, min(n, len(pool))))
    xs = [Fr(i, g) for i in inner]
    mps = [Fr(rng.choice([1, 1, 2, 3])) for _ in xs]
    ys = [Fr(rng.randint(0, int(m))) for m in mps]
    if not xs:
        return [Fr(0), Fr(1)], [Fr(1), Fr(1)], [Fr(1), Fr(1)]
    return [Fr(0)] + xs + [Fr(1)], [ys[0]] + ys + [ys[-1]], [mps[0]] + mps + [mps[-1]]


def all_interleavings_pwc(maxn, g):
    """every pair of breakpoint sets with <= maxn interior points each"""
    inner = []
    for n in range(maxn + 1):
        for c in itertools.combinations(range(1, g), n):
            inner.append([Fr(0)] + [Fr(i, g) for i in c] + [Fr(1)])
    return inner


def intervals(g):
    pts = [Fr(i, g) for i in range(g + 1)]
    return [(a, b) for a in pts for b in pts if a < b]
