"""large.py - inputs beyond every small-scope bound.

The theorems hold for inputs of every size; the correspondence samples the implementation, and until round 10 of the
seeded changes it sampled it on small inputs only (<= 7 spikes per train, <= 5 trains, <= 8 pieces).  A branch of the
implementation that is only taken above a size threshold (a vectorised / chunked / bisecting "fast path", a block
size, a narrow integer accumulator, a buffer-size hint) was therefore never executed.  This module provides a small
number of LARGE cases for every modelled routine: long trains (up to ~300 spikes on the 1/4096 grid, bursts of 100
spikes inside one inter-spike interval of the other train, long silent tails, long tails after the other train's last
spike, equal counts that are powers of two), many trains (17, 31, 34, 65, 72, 130, 140: pair counts with every
remainder modulo 16, more than 128 partners), long piece-wise functions (300+ pieces, runs of >= 8 breakpoints inside
one piece of the other operand that end in a shared breakpoint, 1000+ points with events on both edges).

All inputs are dyadic, so model and implementation must still agree to 1e-11 (the exact-mode worker skips them:
they would only repeat the float comparison more slowly).  Used on shard 0 of both backends."""
import random
from fractions import Fraction as Fr

Z, ONE = Fr(0), Fr(1)
G = 4096


def _pick(r, n, lo=0, hi=G):
    return sorted(r.sample(range(lo, hi + 1), n))


def _fr(xs, g=G):
    return [Fr(x, g) for x in xs]


def long_pairs(seed):
    """pairs (a, b) of spike lists on the 1/4096 grid of [0, 1]"""
    r = random.Random(seed * 7919 + 11)
    out = []
    a, b = _pick(r, 150), _pick(r, 3)                      # long against short, both orders
    out += [(a, b), (b, a)]
    a = sorted(set(_pick(r, 300) + [0, G]))                # long against long, shared times, spikes on both edges
    b = sorted(set(_pick(r, 280) + r.sample(a, 20)))
    out += [(a, b)]
    a = _pick(r, 200, 1, G - 1)                            # long against one spike (inside / on an edge) and against none
    for b in ([1200], [0], [G], []):
        out += [(a, b), (b, a)]
    base = [400, 800, 2400, 2800, 3800]                    # a burst of 100 spikes inside one interval of the other train,
    burst = [200] + list(range(900, 2300, 14)) + [2404, 2810, 3600]   # partners right after it
    out += [(base, burst), (burst, base)]
    a, b = _pick(r, 150, 0, 2000), [5, 3900, 4000]         # the long train falls silent, the other one spikes near t_end
    out += [(a, b), (b, a)]
    a = [100, 1000]                                        # > 64 spikes after the other train's last spike, a coincidence
    b = sorted(set([90, 1004, 4000] + _pick(r, 120, 1002, 3000)))   # at the hand-over, a long last interval
    out += [(a, b), (b, a)]
    a, b = _pick(r, 64), _pick(r, 64)                      # 64 + 64 = 128 spikes
    out += [(a, b)]
    a = _pick(r, 101, 0, 3000)                             # N1 > 100, train 2 starts late, close to a preceding spike
    b = [a[40] + 1, a[70] + 2, 3500]
    out += [(a, b), (b, a)]
    return [(_fr(a), _fr(b)) for a, b in out]


LONG_MRTS = [Z, Fr(1, 64), Fr(3, 2)]
LONG_MAXTAU = [Z, Fr(1, 512), Fr(1, 16)]


def many_trains(seed, n, maxk=4, g=64, edge=True):
    """n short trains on a coarse grid (ties, empty trains, spikes on the edges)"""
    r = random.Random(seed * 104729 + n)
    L = []
    for i in range(n):
        k = r.choice([0, 1, 1, 2, 3, maxk])
        lo, hi = (0, g) if edge else (1, g - 1)
        L.append(_fr(sorted(r.sample(range(lo, hi + 1), k)), g))
    return L


def synfire(n, lag_den=1024):
    """n trains, train i fires i/lag_den after train 0 at three times: every spike leads / follows all others"""
    return [[Fr(1, 4) + Fr(i, lag_den * 4), Fr(1, 2) + Fr(i, lag_den * 4), Fr(3, 4) + Fr(i, lag_den * 4)] for i in range(n)]


def medium_trains(seed, n, k=25, g=1024):
    """n trains of about k spikes each (summed profiles with 1000+ points), spikes on both edges in some trains"""
    r = random.Random(seed * 1299709 + n)
    L = []
    for i in range(n):
        s = set(r.sample(range(1, g), r.randint(k - 5, k + 5)))
        if i % 5 == 0:
            s.add(0)
        if i % 7 == 0:
            s.add(g)
        L.append(_fr(sorted(s), g))
    return L


def long_pwc(seed, n, g=G):
    r = random.Random(seed * 31 + n)
    x = sorted(set([0, g] + r.sample(range(1, g), n - 1)))
    return _fr(x, g), [Fr(r.randint(0, 8), 4) for _ in range(len(x) - 1)]


def long_pwl(seed, n, g=G):
    x, y1 = long_pwc(seed + 1, n, g)
    r = random.Random(seed * 37 + n)
    return x, y1, [Fr(r.randint(0, 8), 4) for _ in range(len(x) - 1)]


def long_df(seed, n, g=G, edges=(False, False), uniform=False):
    """a discrete function with n events (framed by the two edge entries); edges: events exactly on t_start / t_end"""
    r = random.Random(seed * 41 + n)
    t = set(r.sample(range(1, g), n))
    if edges[0]:
        t.add(0)
    if edges[1]:
        t.add(g)
    t = sorted(t)
    mp = [Fr(1) if uniform else Fr(r.choice([1, 1, 2, 3])) for _ in t]
    if not uniform:
        mp[0] = Fr(3)                                     # the first event carries the maximal multiplicity
    y = [Fr(r.randint(0, int(m_))) for m_ in mp]
    return [Z] + _fr(t, g) + [ONE], [y[0]] + y + [y[-1]], [mp[0]] + mp + [mp[-1]]


def run_then_tie(seed, nrun=10, nblocks=6):
    """two breakpoint lists: inside each piece of the coarse one the fine one has a run of >= 8 breakpoints, and the
    run ends exactly on the coarse list's next breakpoint (a tie) in every second block"""
    r = random.Random(seed * 43 + nrun)
    fine, coarse = {0, G}, {0, G}
    step = G // nblocks
    for b in range(nblocks):
        lo, hi = b * step, (b + 1) * step
        pts = r.sample(range(lo + 1, hi), nrun)
        fine.update(pts)
        if b < nblocks - 1:
            coarse.add(hi)
            if b % 2 == 0:
                fine.add(hi)
    return _fr(sorted(fine)), _fr(sorted(coarse))


def vals(seed, n, lo=0, hi=8, den=4):
    r = random.Random(seed)
    return [Fr(r.randint(lo, hi), den) for _ in range(n)]
