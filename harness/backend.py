"""backend.py - load pyspike from /repo's working tree in one of two backend
configurations:

  'py' : the pure-Python fall-back (what the repository's tests run; no
         compiled extension exists in this sandbox).
  'cy' : the .pyx sources, *de-cythonised* by a small fail-closed text
         transformer and registered as pyspike.cython.cython_* modules, so that
         (a) every .pyx routine can be called and (b) the public API takes its
         "compiled kernels importable" branches.

What 'cy' checks is the algorithm the .pyx text denotes under Python
semantics; C-level behaviour (32-bit int, unchecked indexing, cdivision NaN)
is outside (DESIGN.md section 8).
"""
import os
import re
import sys
import types
import importlib

REPO = os.environ.get("PYSPIKE_REPO", "/repo")

CT = r"(?:unsigned\s+)?(?:double|int|long|float|bint|Py_ssize_t)(?:\s*\[[:,\s]*\])?"
HEADER = re.compile(
    r"^([ \t]*)(?:cdef\s+(?:inline\s+)?" + CT + r"\s+|def\s+)(\w+)\s*\(([^)]*)\)\s*(?:nogil\s*)?:",
    re.M | re.S)
ARGTYPE = re.compile(r"^\s*" + CT + r"\s+(\w+.*)$", re.S)


class DecythonError(Exception):
    pass


def _strip_sig_comments(src):
    # remove comments that sit inside multi-line signatures
    out = []
    depth = 0
    for line in src.split("\n"):
        code = line
        if depth > 0 and "#" in line:
            code = line[:line.index("#")]
        depth += code.count("(") - code.count(")")
        out.append(code if depth > 0 or code is not line else line)
    return "\n".join(out)


def decythonise(src, name="<pyx>"):
    src = _strip_sig_comments(src)

    def fix_header(m):
        indent, fname, args = m.group(1), m.group(2), m.group(3)
        # remember the C types of scalar arguments: Cython converts them on entry (a copy), see _convert_args
        sig = []
        for a in re.split(r",(?![^\[]*\])", args):
            mm = re.match(r"^\s*(?:unsigned\s+)?(double|float|int|long|bint|Py_ssize_t)\s+(\w+)\s*(?:=.*)?$", a.strip(), re.S)
            sig.append(mm.group(1) if mm else None)
        SIGS.setdefault(name, {})[fname] = sig
        new_args = []
        for a in re.split(r",(?![^\[]*\])", args):      # commas inside double[:, :] do not separate
            a = a.strip()
            if not a:
                continue
            mm = ARGTYPE.match(a)
            new_args.append(mm.group(1).strip() if mm else a)
        return "%sdef %s(%s):" % (indent, fname, ", ".join(new_args))

    src = HEADER.sub(fix_header, src)
    out = []
    for line in src.split("\n"):
        s = line.strip()
        ind = line[:len(line) - len(line.lstrip())]
        if s.startswith("cimport ") or re.match(r"from\s+[\w.]+\s+cimport\s", s):
            out.append(ind + "pass")
            continue
        if s.startswith("ctypedef"):
            raise DecythonError("%s: unsupported ctypedef: %s" % (name, s))
        if s.startswith("cdef "):
            m = re.match(r"cdef\s+" + CT + r"\s+(.*)$", s)
            if not m:
                raise DecythonError("%s: unsupported cdef form: %s" % (name, s))
            rest = m.group(1)
            if "=" in rest:
                out.append(ind + rest)
            else:
                out.append(ind + "pass")
            continue
        if re.match(r"with\s+nogil\s*:", s):
            out.append(ind + "if True:" + s[s.index(":") + 1:])
            continue
        out.append(line)
    res = "\n".join(out)
    res = re.sub(r"\bxrange\b", "range", res)
    if re.search(r"^\s*c(p)?def\b", res, re.M):
        raise DecythonError("%s: residual cdef" % name)
    return res


SIGS = {}      # module name -> function name -> C type of each positional argument (None = object / memoryview)


def _conv(ctype):
    def keep_exact(v, f):
        # exact mode hands exact numbers (harness/exact.py) through: they stand for C doubles
        return v if type(v).__name__ == "Ex" else f(v)
    if ctype in ("double", "float"):
        return lambda v: keep_exact(v, float)
    if ctype == "bint":
        return lambda v: bool(v)
    return lambda v: keep_exact(v, int)


def _convert_args(f, sig):
    """Cython converts an argument declared `double x` / `int n` / `bint flag` to a C value on entry: the callee
    works on a copy of type double / long / int whatever Python object was passed"""
    convs = [(i, _conv(c)) for i, c in enumerate(sig) if c]
    if not convs:
        return f

    def g(*args, **kw):
        args = list(args)
        for i, c in convs:
            if i < len(args):
                args[i] = c(args[i])
        return f(*args, **kw)
    g.__name__ = f.__name__
    g.__doc__ = f.__doc__
    return g


PYX = ["cython_get_tau", "cython_profiles", "cython_distances", "cython_add",
       "cython_directionality", "cython_simulated_annealing"]

MEMVIEW = re.compile(r"\b(?:double|int|long|float)\s*\[\s*:\s*(?:,\s*:\s*)*\]\s+(\w+)")


def memview_names(src):
    """names declared as typed memoryviews (double[:] x, long[:] p, double[:, :] D) in a .pyx text"""
    return set(MEMVIEW.findall(src))


class CythonUB(Exception):
    """an index outside 0..n-1 on a typed memoryview: every .pyx file is compiled with
    boundscheck=False and wraparound=False, so the compiled module would read or write outside
    the buffer (undefined behaviour) where Python semantics wrap around or raise IndexError"""
    pass


def _ix(i, a, axis=0):
    try:
        n = a.shape[axis]
    except Exception:
        return i
    if isinstance(i, int) or (hasattr(i, "dtype") and getattr(i.dtype, "kind", "") in "iu" and getattr(i, "ndim", 1) == 0):
        if not isinstance(i, bool) and not (0 <= i < n):
            raise CythonUB("index %d outside 0..%d (boundscheck=False, wraparound=False)" % (int(i), n - 1))
    return i


class _Bounds(__import__("ast").NodeTransformer):
    """wrap every integer subscript of a typed memoryview in the bounds test [_ix]"""

    def __init__(self, names):
        self.names = names

    def visit_Subscript(self, node):
        import ast
        self.generic_visit(node)
        if not (isinstance(node.value, ast.Name) and node.value.id in self.names):
            return node
        base = node.value.id

        def wrap(e, k):
            if isinstance(e, ast.Slice):
                return e
            return ast.Call(func=ast.Name(id="_ix", ctx=ast.Load()),
                            args=[e, ast.Name(id=base, ctx=ast.Load()), ast.Constant(value=k)], keywords=[])
        if isinstance(node.slice, ast.Tuple):
            node.slice = ast.Tuple(elts=[wrap(e, k) for k, e in enumerate(node.slice.elts)], ctx=ast.Load())
        else:
            node.slice = wrap(node.slice, 0)
        return node


class _CDiv(__import__("ast").NodeTransformer):
    """the .pyx files are compiled with cdivision=True: a / b never raises, a
    zero divisor gives nan / inf as in C.  Rewrite every true division."""

    def visit_BinOp(self, node):
        import ast
        self.generic_visit(node)
        if isinstance(node.op, ast.Div):
            return ast.copy_location(
                ast.Call(func=ast.Name(id="_cdiv", ctx=ast.Load()), args=[node.left, node.right], keywords=[]),
                node)
        return node

    def visit_AugAssign(self, node):
        import ast
        self.generic_visit(node)
        if isinstance(node.op, ast.Div):
            import copy
            load = copy.deepcopy(node.target)
            load.ctx = ast.Load()
            return ast.copy_location(
                ast.Assign(targets=[node.target],
                           value=ast.Call(func=ast.Name(id="_cdiv", ctx=ast.Load()), args=[load, node.value],
                                          keywords=[])), node)
        return node


def _cdiv(a, b):
    try:
        return a / b
    except ZeroDivisionError:
        a = float(a)
        if a != a or a == 0.0:
            return float("nan")
        return float("inf") if a > 0 else float("-inf")


def _prelude():
    import numpy as np

    def fabs(x):
        return abs(x)

    def fmax(a, b):
        # C fmax on non-NaN doubles; python max keeps a unless b > a
        return b if b > a else a

    def fmin(a, b):
        return b if b < a else a

    def rand():
        raise RuntimeError("rand() is scripted by the harness (adapters.py, routine 95)")
    import math
    return {"fabs": fabs, "fmax": fmax, "fmin": fmin, "np": np, "_cdiv": _cdiv, "_ix": _ix,
            "exp": math.exp, "rand": rand, "RAND_MAX": 1}


def install_cython(repo=REPO):
    """register de-cythonised modules; must run before pyspike API calls."""
    import pyspike  # noqa
    import pyspike.cython  # noqa
    mods = {}
    for name in PYX:
        path = os.path.join(repo, "pyspike", "cython", name + ".pyx")
        with open(path) as f:
            text = f.read()
        code = decythonise(text, name)
        views = memview_names(text)
        mod = types.ModuleType("pyspike.cython." + name)
        mod.__dict__.update(_prelude())
        mod.__file__ = path
        if name != "cython_get_tau":
            mod.__dict__["get_tau"] = mods["cython_get_tau"].get_tau
        import ast
        tree = _Bounds(views).visit(_CDiv().visit(ast.parse(code, path)))
        ast.fix_missing_locations(tree)
        exec(compile(tree, path, "exec"), mod.__dict__)
        for fname, sig in SIGS.get(name, {}).items():
            if callable(mod.__dict__.get(fname)):
                mod.__dict__[fname] = _convert_args(mod.__dict__[fname], sig)
        sys.modules["pyspike.cython." + name] = mod
        setattr(sys.modules["pyspike.cython"], name, mod)
        mods[name] = mod
    return mods


def load(backend, repo=REPO):
    """returns (pyspike module, dict of de-cythonised modules or {})."""
    if repo not in sys.path:
        sys.path.insert(0, repo)
    for k in list(sys.modules):
        if k == "pyspike" or k.startswith("pyspike."):
            del sys.modules[k]
    import pyspike
    assert os.path.realpath(os.path.dirname(pyspike.__file__)).startswith(os.path.realpath(repo)), \
        "pyspike not imported from " + repo
    pyspike.disable_backend_warning = True
    mods = {}
    if backend == "cy":
        mods = install_cython(repo)
    elif backend != "py":
        raise ValueError(backend)
    return pyspike, mods
