"""backend.py - load pyspike from /repo's working tree in one of two backend
configurations:

  'py' : the pure-Python fall-back (what the repository's tests run; no
         compiled extension exists in this sandbox).
  'cy' : the .pyx sources, *de-cythonised* by a small fail-closed text
         transformer and registered as pyspike.cython.cython_* modules, so that
         (a) every .pyx routine can be called and (b) the public API takes its
         "compiled kernels importable" branches.

What 'cy' checks is the algorithm the .pyx text denotes under Python
semantics; C-level behaviour (32-bit int, unchecked indexing, cdivision NaN)
is outside (DESIGN.md section 8).
"""
import os
import re
import sys
import types
import importlib

REPO = os.environ.get("PYSPIKE_REPO", "/repo")

CT = r"(?:unsigned\s+)?(?:double|int|long|float|bint|Py_ssize_t)(?:\s*\[[:,\s]*\])?"
HEADER = re.compile(
    r"^([ \t]*)(?:cdef\s+(?:inline\s+)?" + CT + r"\s+|def\s+)(\w+)\s*\(([^)]*)\)\s*(?:nogil\s*)?:",
    re.M | re.S)
ARGTYPE = re.compile(r"^\s*" + CT + r"\s+(\w+.*)$", re.S)


class DecythonError(Exception):
    pass


def _strip_sig_comments(src):
    # remove comments that sit inside multi-line signatures
    out = []
    depth = 0
    for line in src.split("\n"):
        code = line
        if depth > 0 and "#" in line:
            code = line[:line.index("#")]
        depth += code.count("(") - code.count(")")
        out.append(code if depth > 0 or code is not line else line)
    return "\n".join(out)


def decythonise(src, name="<pyx>"):
    src = _strip_sig_comments(src)

    def fix_header(m):
        indent, fname, args = m.group(1), m.group(2), m.group(3)
        new_args = []
        for a in args.split(","):
            a = a.strip()
            if not a:
                continue
            mm = ARGTYPE.match(a)
            new_args.append(mm.group(1).strip() if mm else a)
        return "%sdef %s(%s):" % (indent, fname, ", ".join(new_args))

    src = HEADER.sub(fix_header, src)
    out = []
    for line in src.split("\n"):
        s = line.strip()
        ind = line[:len(line) - len(line.lstrip())]
        if s.startswith("cimport ") or re.match(r"from\s+[\w.]+\s+cimport\s", s):
            out.append(ind + "pass")
            continue
        if s.startswith("ctypedef"):
            raise DecythonError("%s: unsupported ctypedef: %s" % (name, s))
        if s.startswith("cdef "):
            m = re.match(r"cdef\s+" + CT + r"\s+(.*)$", s)
            if not m:
                raise DecythonError("%s: unsupported cdef form: %s" % (name, s))
            rest = m.group(1)
            if "=" in rest:
                out.append(ind + rest)
            else:
                out.append(ind + "pass")
            continue
        if re.match(r"with\s+nogil\s*:", s):
            out.append(ind + "if True:" + s[s.index(":") + 1:])
            continue
        out.append(line)
    res = "\n".join(out)
    res = re.sub(r"\bxrange\b", "range", res)
    if re.search(r"^\s*c(p)?def\b", res, re.M):
        raise DecythonError("%s: residual cdef" % name)
    return res


PYX = ["cython_get_tau", "cython_profiles", "cython_distances", "cython_add",
       "cython_directionality"]


class _CDiv(__import__("ast").NodeTransformer):
    """the .pyx files are compiled with cdivision=True: a / b never raises, a
    zero divisor gives nan / inf as in C.  Rewrite every true division."""

    def visit_BinOp(self, node):
        import ast
        self.generic_visit(node)
        if isinstance(node.op, ast.Div):
            return ast.copy_location(
                ast.Call(func=ast.Name(id="_cdiv", ctx=ast.Load()), args=[node.left, node.right], keywords=[]),
                node)
        return node

    def visit_AugAssign(self, node):
        import ast
        self.generic_visit(node)
        if isinstance(node.op, ast.Div):
            import copy
            load = copy.deepcopy(node.target)
            load.ctx = ast.Load()
            return ast.copy_location(
                ast.Assign(targets=[node.target],
                           value=ast.Call(func=ast.Name(id="_cdiv", ctx=ast.Load()), args=[load, node.value],
                                          keywords=[])), node)
        return node


def _cdiv(a, b):
    try:
        return a / b
    except ZeroDivisionError:
        a = float(a)
        if a != a or a == 0.0:
            return float("nan")
        return float("inf") if a > 0 else float("-inf")


def _prelude():
    import numpy as np

    def fabs(x):
        return abs(x)

    def fmax(a, b):
        # C fmax on non-NaN doubles; python max keeps a unless b > a
        return b if b > a else a

    def fmin(a, b):
        return b if b < a else a
    return {"fabs": fabs, "fmax": fmax, "fmin": fmin, "np": np, "_cdiv": _cdiv}


def install_cython(repo=REPO):
    """register de-cythonised modules; must run before pyspike API calls."""
    import pyspike  # noqa
    import pyspike.cython  # noqa
    mods = {}
    for name in PYX:
        path = os.path.join(repo, "pyspike", "cython", name + ".pyx")
        with open(path) as f:
            text = f.read()
        code = decythonise(text, name)
        mod = types.ModuleType("pyspike.cython." + name)
        mod.__dict__.update(_prelude())
        mod.__file__ = path
        if name != "cython_get_tau":
            mod.__dict__["get_tau"] = mods["cython_get_tau"].get_tau
        import ast
        tree = _CDiv().visit(ast.parse(code, path))
        ast.fix_missing_locations(tree)
        exec(compile(tree, path, "exec"), mod.__dict__)
        sys.modules["pyspike.cython." + name] = mod
        setattr(sys.modules["pyspike.cython"], name, mod)
        mods[name] = mod
    return mods


def load(backend, repo=REPO):
    """returns (pyspike module, dict of de-cythonised modules or {})."""
    if repo not in sys.path:
        sys.path.insert(0, repo)
    for k in list(sys.modules):
        if k == "pyspike" or k.startswith("pyspike."):
            del sys.modules[k]
    import pyspike
    assert os.path.realpath(os.path.dirname(pyspike.__file__)).startswith(os.path.realpath(repo)), \
        "pyspike not imported from " + repo
    pyspike.disable_backend_warning = True
    mods = {}
    if backend == "cy":
        mods = install_cython(repo)
    elif backend != "py":
        raise ValueError(backend)
    return pyspike, mods
