"""affine.py - shifted and scaled copies of correspondence cases.

The model is exact over Q, so a case moved along the time axis (t -> k*t + c, durations such as
MRTS and max_tau -> k*d) is simply another input on which model and implementation must agree.
Every correspondence stream gets such copies for a deterministic sample of its cases, so that
recordings that do not start at 0, negative times, edges below -1 and large time stamps reach
every modelled routine, not only the checks that ask for them explicitly.

k is a power of two and c is dyadic: the transformed binary64 inputs are exact images of the
exact inputs, ties stay ties.

SIG: routine id -> one letter per harness argument (the backend flag is not an argument here)
  s  list of times            t  one time (or nested lists of times: intervals, query lists)
  d  duration (scaled only)   T  train [spikes, t_start, t_end]     L  list of trains
  -  unchanged (flags, values, multiplicities, index selections, thresholds)
Routines that are not listed are never transformed."""
from fractions import Fraction as Fr

SIG = {
    1: "ssttd", 2: "ssttd-", 6: "ssttdd", 7: "ssttdd", 8: "ssttdd", 9: "ssttdd",
    10: "ssttd", 11: "ssttd-", 12: "ssttdd", 13: "ssttdd", 14: "ssttdd",
    20: "s-s-", 21: "s--s--", 22: "s--s--", 23: "s-t", 24: "s-t", 25: "s-t", 26: "s-t", 27: "s-",
    28: "s--t", 29: "s--t", 30: "s--t", 31: "s--t", 32: "s--", 33: "s--t", 34: "s--t-",
    41: "L", 42: "stt", 43: "L",
    50: "-dTT", 51: "-d-TT", 52: "-ddTT", 53: "-ddTT", 54: "-dtTT", 55: "-d-tTT", 56: "-ddtTT",
    60: "-dL-", 61: "-d-L-", 62: "-ddL-", 63: "-ddL-", 64: "-dtL-", 65: "-d-tL-", 66: "-ddtL-",
    67: "-dtL-", 68: "-d-tL-", 69: "-ddtL-", 70: "-dd-L", 71: "--ddTT", 72: "--ddL-", 73: "-ddL-",
    74: "--ddTT", 75: "--ddL-", 80: "L",
}

# (k, c): powers of two and dyadic offsets; includes an edge below -1, a recording far from 0,
# a finer and a coarser time unit
# round 5 of the seeded changes added: a recording a million time units from 0 (np.isclose / np.allclose with their
# relative tolerance 1e-5 call everything within 10 units "equal" there; cancellation shows), a time unit of 2^-24
# (absolute tolerances such as 1e-6 swallow whole inter-spike intervals), and a recording that straddles 0
# (`bound or default` idioms treat a bound of exactly 0 as missing)
MAPS = [(Fr(1), Fr(-16)), (Fr(1), Fr(1000)), (Fr(1, 4), Fr(0)), (Fr(8), Fr(-3)), (Fr(1), Fr(-5, 2)), (Fr(2), Fr(7, 4)),
        (Fr(1), Fr(2 ** 20)), (Fr(1, 2 ** 24), Fr(0)), (Fr(1), Fr(-1, 2)),
        # spike times one unit in the last place apart (1 + k*2^-52 for the k/8 grid; finer grids are not representable
        # and are skipped by _exact): sums such as s_prev + tau round there, differences do not
        (Fr(1, 2 ** 49), Fr(1)),
        # round 9: offsets taken from the case itself - the recording ENDS exactly at 0 (all times negative; `t_end or
        # default`, np.trim_zeros, `x[-1]` used as a length), and a spike / breakpoint of the first time list sits
        # exactly on 0.0 (truthiness of a time: `if prev and ...`, `spikes.any()`)
        (Fr(1), "end"), (Fr(1), "first"), (Fr(1), "last"),
        # round 11: time stamps of the order 7e7 (milliseconds over a day): one unit in the last place is 1.5e-8 there, so
        # an absolute tolerance that was tightened below it (`t > tStart - 1e-9`) silently stops admitting the edge itself
        (Fr(1), Fr(2 ** 26))]


def _anchor(rid, args, what):
    """the time of the case that the data-dependent maps move to 0: the end of the recording / support, or the first
    / last entry of the first non-empty time list; None when the case has none"""
    sig = SIG[rid]
    if what == "end":
        for kind, a in zip(sig, args):
            if kind == "T":
                return a[2]
            if kind == "L":
                return a[0][2] if a else None
        if sig.startswith("sstt"):
            return args[3]
        if rid == 42:
            return args[2]
        if sig[0] == "s" and args[0]:
            return args[0][-1]
        return None
    for kind, a in zip(sig, args):
        lists = [a] if kind == "s" else [a[0]] if kind == "T" else [t[0] for t in a] if kind == "L" else []
        for l in lists:
            if l:
                return l[0] if what == "first" else l[-1]
    return None


def _time(v, k, c):
    if v is None or isinstance(v, bool):
        return v
    if isinstance(v, (list, tuple)):
        return [_time(x, k, c) for x in v]
    return k * v + c


def _train(t, k, c):
    return [[k * x + c for x in t[0]], k * t[1] + c, k * t[2] + c]


def transform(rid, args, k, c):
    sig = SIG[rid]
    if len(sig) != len(args):
        return None
    out = []
    for kind, a in zip(sig, args):
        if kind == "-":
            out.append(a)
        elif kind == "s" or kind == "t":
            out.append(_time(a, k, c))
        elif kind == "d":
            out.append(a if a is None or isinstance(a, bool) else k * a)
        elif kind == "T":
            out.append(_train(a, k, c))
        elif kind == "L":
            out.append([_train(t, k, c) for t in a])
        else:
            return None
    return out


def extend(cases, every=4):
    """cases plus a transformed copy of roughly one case in `every` (deterministic: a hash of position and routine
    decides, so that regular layouts of the case list - e.g. four routines in turn - cannot starve a routine)"""
    out = list(cases)
    for i, (rid, args) in enumerate(cases):
        if rid not in SIG:
            continue
        h = ((i + 1) * 2654435761 + rid * 40503) & 0xffffffff
        if (h >> 9) % every:
            continue
        k, c = MAPS[(h >> 17) % len(MAPS)]
        try:
            if isinstance(c, str):
                c = _anchor(rid, args, c)
                c = None if c is None or isinstance(c, bool) else -k * c
            a2 = None if c is None else transform(rid, args, k, c)
        except Exception:
            a2 = None
        if a2 is not None and _exact(a2) and _headroom(rid, a2):
            out.append((rid, a2))
    return out


def _times(rid, args):
    out = []

    def walk(v):
        if isinstance(v, (list, tuple)):
            for x in v:
                walk(x)
        elif isinstance(v, Fr):
            out.append(v)
    for kind, a in zip(SIG[rid], args):
        if kind in "stTL":
            walk(a)
    return out


def _headroom(rid, args):
    """the implementation may form times up to one recording length beyond the outermost time of the case (auxiliary
    spikes one inter-spike interval outside the edges): those sums must still be exact in binary64 on the grid of the
    case, otherwise a copy whose times sit in the last bits of the mantissa (the ulp-scale map applied to a case that
    straddles a power of two, e.g. [1 - 2^-48, 1]) measures rounding, not the library.  Found by the thorough tier:
    such a copy of a shifted C08 case made the SPIKE kernel differ from the exact model by 1/81."""
    ts = _times(rid, args)
    if len(ts) < 2:
        return True
    lo, hi = min(ts), max(ts)
    span = hi - lo
    if span == 0:
        return True
    delta = Fr(1, max(t.denominator for t in ts))            # dyadic: the grid spacing of the case
    big = max(abs(hi + span), abs(lo - span))
    if big == 0:
        return True
    e = 0
    while Fr(2) ** e > big:
        e -= 1
    while Fr(2) ** (e + 1) <= big:
        e += 1
    return Fr(2) ** (e - 52) <= delta


def _exact(v):
    """every number of the transformed case is a binary64 number (a value that is one ulp beside a grid point does
    not survive a shift by 2^20: such a copy would no longer be the exact image of the exact input)"""
    if isinstance(v, (list, tuple)):
        return all(_exact(x) for x in v)
    if isinstance(v, Fr):
        try:
            return Fr(float(v)) == v
        except OverflowError:
            return False
    return True
