"""inputs.py - the input spaces shared by the property checks."""
import itertools
import random
from fractions import Fraction as Fr
import gen
from core import Nat


def mrts_grid(g):
    # MRTS/4 hits half-gaps k/(2g) exactly (2/g, 4/g: ties); 2 and 6/g are thresholds that actually
    # widen windows / floor the normalisation on the grid (a distance j/g lies strictly between
    # the plain and the thresholded window only if MRTS > 4/g)
    # order matters: callers slice [:2] / [:3] and must get an effective threshold first
    return [Fr(0), Fr(6, g), Fr(4, g), Fr(2), Fr(2, g)]


def maxtau_grid(g):
    # hits spike distances k/g exactly (ties); 3/(2g) lies strictly between two distances, so that a distance of
    # 1/g is inside the bound but outside half of it
    return [Fr(0), Fr(1, g), Fr(2, g), Fr(3, 2 * g)]


class Space(object):
    """train pairs / lists for one (tier, seed)"""

    def __init__(self, tier, seed):
        self.tier = tier
        self.seed = seed
        self.rng = random.Random(seed)
        if tier == "quick":
            # dyadic grids only: sums, differences and halvings of the inputs
            # are exact in binary64, so ties are ties in the float run as well
            self.g_ex, self.k_ex = 8, 3
            self.n_rand_pairs = 1500
            self.n_lists = 250
        else:
            self.g_ex, self.k_ex = 8, 4
            self.n_rand_pairs = 20000
            self.n_lists = 3000

    def exhaustive_pairs(self, limit=None, k=None, g=None):
        """all ordered pairs of trains with <= k spikes on the (g+1)-point grid
        of [0,1]; returns (pairs, g, exhaustive?)"""
        g = g or self.g_ex
        k = k or self.k_ex
        tr = gen.grid_trains(k, g)
        pairs = [(a, b) for a in tr for b in tr]
        if limit is not None and len(pairs) > limit:
            r = random.Random(self.seed + 17)
            pairs = r.sample(pairs, limit)
            return pairs, g, False
        return pairs, g, True

    def random_pairs(self, n=None, maxn=7, g=32):
        r = random.Random(self.seed + 23)
        n = n or self.n_rand_pairs
        out = []
        for _ in range(n):
            a, b = gen.rand_trains(r, 2, maxn, g, share=0.4)
            out.append((a, b))
        return out, g

    def random_lists(self, n=None, maxtr=5, maxn=5, g=16):
        r = random.Random(self.seed + 31)
        n = n or self.n_lists
        out = []
        for _ in range(n):
            out.append(gen.rand_trains(r, r.randint(2, maxtr), maxn, g, share=0.4))
        return out, g

    def small_lists(self, ntr=3, k=2, g=4, limit=None):
        """all lists of ntr trains with <= k spikes on a coarse grid"""
        tr = gen.grid_trains(k, g)
        ls = [list(c) for c in itertools.product(tr, repeat=ntr)]
        if limit is not None and len(ls) > limit:
            r = random.Random(self.seed + 41)
            ls = r.sample(ls, limit)
        return ls, g


def T(s, ts=Fr(0), te=Fr(1)):
    return [list(s), ts, te]


def eff(s, ts=Fr(0), te=Fr(1)):
    return list(s) if s else [ts, te]


def size_hist(pairs):
    h = {}
    for a, b in pairs:
        k = "%d+%d" % (len(a), len(b))
        h[k] = h.get(k, 0) + 1
    return h


def nontrivial_pair(a, b):
    return len(a) + len(b) >= 2
