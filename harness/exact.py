"""exact.py - EXACT execution of the unmodified library source.

The float run of the harness compares the model (exact rationals) with the
implementation (binary64) up to a tolerance.  This module lets the SAME library
source run on exact rational numbers so that model and implementation can be
compared with `==`:

  Ex      an exact rational number (a normalised pair of Python ints; .v is the
          fractions.Fraction).  Mixed arithmetic / comparison with int / float /
          numpy scalars / Fraction converts the other operand EXACTLY (a float is
          the binary rational it denotes).  Division by zero gives a POISON value
          (behaves like NaN); every poisoning is counted so that the driver can
          send such a case back to the float path.
  Shim    a stand-in for the name `np` inside the library modules.  It forwards
          every attribute to the real numpy; while `shim.active` is set the array
          constructors (empty / zeros / ones / *_like / array / asarray) build
          dtype=object arrays of Ex instead of float64 arrays, and a few functions
          that do not work on such arrays are wrapped.  While it is NOT active
          (the default) it is a transparent proxy: the library behaves exactly as
          in the float run, which is what the property oracles use.
  install put the shim into the library modules / de-cythonised modules.
  call    run one adapter call in exact mode with all fall-backs (see there).
  compare call + comparison with the model value; this is what runner.Ctx.corr
          and the smoke scripts use when VERIF_EXACT=1.

Policy: exact mode must never raise a false alarm.  Whatever the Ex / object
array machinery cannot execute faithfully (an exception the float run does not
raise, a division by zero, a rounded float such as 1.0/3 entering the
arithmetic, a float-only routine, an input binary64 cannot hold, a result that
is far off although the float run agrees) sends that one case back to the
float path and the usual tolerance; each reason has its counter in Stats.  A
mismatch is reported only for Fraction != Fraction below the tolerance or when
the float run of the same case disagrees with the model as well.

Nothing in /repo is modified; only the global name `np` of the loaded library
modules is re-bound (sys.modules['pyspike.<m>'].np = shim).
"""
import math
import operator
import sys
from fractions import Fraction

import numpy as _np

# ----------------------------------------------------------------------------
# Ex
# ----------------------------------------------------------------------------

#: number of poison values created so far (division by zero, non-finite float
#: operand).  The driver compares the counter before / after a call.
POISONINGS = 0

#: number of float operands of ARITHMETIC met so far that look ROUNDED: binary64
#: numbers whose denominator exceeds 2**30.  The test inputs are dyadic with small
#: denominators and so is everything the library derives from them in binary64
#: without rounding; a float such as 1.0/3 (isi_profile_multi: mul_scalar(1.0/M))
#: is a rounded value, and arithmetic on its exact binary value would differ from
#: the model by ~1e-17 although nothing is wrong.  A case that met such a float
#: is compared on the float path (with the tolerance), see call().  A rounded
#: float that is only COMPARED (t > tStart - 1e-6 in reconcile_spike_trains) is
#: harmless: the float run compares with the very same binary64 number.
ROUNDED_FLOATS = 0
_SMALL_DEN = 2 ** 30

_INT = (int, _np.integer, _np.bool_)
_FLT = (float, _np.floating)
_gcd = math.gcd


def _pair(o, arith=True):
    """exact value of an operand as (numerator, denominator > 0); (0, 0) for a
    nan / inf float ('poison'); None for a type Ex does not know"""
    t = type(o)
    if t is Ex:
        return o.n, o.d
    if t is int:
        return o, 1
    if isinstance(o, _FLT):
        f = float(o)
        if f != f or f in (math.inf, -math.inf):
            return 0, 0
        n, d = f.as_integer_ratio()     # exact: the binary rational the float denotes
        if arith and d > _SMALL_DEN:
            global ROUNDED_FLOATS
            ROUNDED_FLOATS += 1
        return n, d
    if isinstance(o, _INT):
        return int(o), 1
    if isinstance(o, Fraction):
        return o.numerator, o.denominator
    return None


def _poison():
    global POISONINGS
    POISONINGS += 1
    return _mk(0, 0)


def _mk(n, d):
    """Ex from a normalised pair (gcd 1, d > 0; or the poison 0/0)"""
    r = object.__new__(Ex)
    r.n = n
    r.d = d
    return r


def _norm(n, d):
    """Ex for n/d, d != 0"""
    if d < 0:
        n, d = -n, -d
    g = _gcd(n, d)
    if g != 1:
        n //= g
        d //= g
    r = object.__new__(Ex)
    r.n = n
    r.d = d
    return r


def _add(an, ad, bn, bd):
    return _mk(an + bn, ad) if ad == bd == 1 else _norm(an * bd + bn * ad, ad * bd)


def _sub(an, ad, bn, bd):
    return _mk(an - bn, ad) if ad == bd == 1 else _norm(an * bd - bn * ad, ad * bd)


def _mul(an, ad, bn, bd):
    return _norm(an * bn, ad * bd)


def _div(an, ad, bn, bd):
    if bn == 0:
        return _poison()
    return _norm(an * bd, ad * bn)


def _floordiv(an, ad, bn, bd):
    if bn == 0:
        return _poison()
    return _mk((an * bd) // (ad * bn), 1)


def _mod(an, ad, bn, bd):
    if bn == 0:
        return _poison()
    q = (an * bd) // (ad * bn)
    return _norm(an * bd - q * bn * ad, ad * bd)


def _arith(name, op, reflected=False):
    """binary arithmetic method.  A list / tuple operand is treated like numpy
    scalars treat it (converted to an array); an ndarray operand is left to the
    ndarray's own reflected method (NotImplemented)."""
    pyop = getattr(operator, name.strip("_").replace("r", "", 1) if reflected else name.strip("_"))

    def f(self, other):
        if type(other) is Ex:
            bn, bd = other.n, other.d
        else:
            b = _pair(other)
            if b is None:
                if isinstance(other, (list, tuple)):
                    arr = lift(other)
                    return pyop(arr, self) if reflected else pyop(self, arr)
                return NotImplemented
            bn, bd = b
            if bd == 0:
                return _poison()        # nan / inf float operand
        an, ad = self.n, self.d
        if ad == 0 or bd == 0:
            return _mk(0, 0)            # poison propagates
        return op(bn, bd, an, ad) if reflected else op(an, ad, bn, bd)
    f.__name__ = name
    return f


_SWAP = {operator.lt: operator.gt, operator.le: operator.ge, operator.gt: operator.lt,
         operator.ge: operator.le, operator.eq: operator.eq, operator.ne: operator.ne}


def _cmp(name, op):
    def f(self, other):
        if type(other) is Ex:
            bn, bd = other.n, other.d
        else:
            b = _pair(other, False)
            if b is None:
                if isinstance(other, (list, tuple)):
                    return _SWAP[op](lift(other), self)
                return NotImplemented
            bn, bd = b
        an, ad = self.n, self.d
        if ad == 0 or bd == 0:
            return op is operator.ne    # NaN semantics: only != is true
        return op(an * bd, bn * ad)
    f.__name__ = name
    return f


class Ex(object):
    """exact rational number n/d (gcd 1, d > 0) or poison (d == 0, like NaN)"""
    __slots__ = ("n", "d")

    def __init__(self, x=0):
        if x is None:                   # Ex(None): a poison value
            self.n = self.d = 0
            return
        p = _pair(x)
        if p is None:
            raise TypeError("Ex: cannot convert %r" % (type(x),))
        self.n, self.d = p

    @property
    def v(self):
        """the value as a Fraction (None for poison)"""
        return None if self.d == 0 else Fraction(self.n, self.d)

    # -- arithmetic
    __add__ = _arith("__add__", _add)
    __radd__ = _arith("__radd__", _add, True)
    __sub__ = _arith("__sub__", _sub)
    __rsub__ = _arith("__rsub__", _sub, True)
    __mul__ = _arith("__mul__", _mul)
    __rmul__ = _arith("__rmul__", _mul, True)
    __truediv__ = _arith("__truediv__", _div)
    __rtruediv__ = _arith("__rtruediv__", _div, True)
    __floordiv__ = _arith("__floordiv__", _floordiv)
    __rfloordiv__ = _arith("__rfloordiv__", _floordiv, True)
    __mod__ = _arith("__mod__", _mod)
    __rmod__ = _arith("__rmod__", _mod, True)

    def __pow__(self, e):
        if self.d == 0:
            return _mk(0, 0)
        p = _pair(e)
        if p is None:
            return NotImplemented
        if p[1] == 1:                   # integer exponent: exact
            k = p[0]
            if k >= 0:
                return _mk(self.n ** k, self.d ** k)
            if self.n == 0:
                return _poison()
            return _norm(self.d ** -k, self.n ** -k)
        return float(self) ** float(e)  # irrational in general: float

    def __neg__(self):
        return _mk(-self.n, self.d)

    def __pos__(self):
        return self

    def __abs__(self):
        return _mk(abs(self.n), self.d)

    # -- comparisons
    __lt__ = _cmp("__lt__", operator.lt)
    __le__ = _cmp("__le__", operator.le)
    __gt__ = _cmp("__gt__", operator.gt)
    __ge__ = _cmp("__ge__", operator.ge)
    __eq__ = _cmp("__eq__", operator.eq)
    __ne__ = _cmp("__ne__", operator.ne)

    def __hash__(self):                 # consistent with ==: Ex(1/2) == 0.5 == Fraction(1, 2)
        return id(self) if self.d == 0 else hash(Fraction(self.n, self.d))

    def __bool__(self):
        return True if self.d == 0 else self.n != 0

    # -- conversions
    def __float__(self):
        return float("nan") if self.d == 0 else self.n / self.d   # int / int: correctly rounded

    def __int__(self):
        if self.d == 0:
            raise ValueError("cannot convert poison (NaN) to integer")
        return int(Fraction(self.n, self.d))

    __trunc__ = __int__

    def __floor__(self):
        return math.floor(self.v)

    def __ceil__(self):
        return math.ceil(self.v)

    def __round__(self, n=None):
        return round(self.v, n) if n is not None else round(self.v)

    def __repr__(self):
        return "Ex(nan)" if self.d == 0 else "Ex(%s)" % self.v

    __str__ = __repr__

    def __format__(self, spec):
        return format(float(self), spec) if spec else repr(self)

    def is_poison(self):
        return self.d == 0

    # -- methods numpy's object loops look up by name (np.sqrt(obj) -> obj.sqrt()).
    #    Irrational results are floats: the automatic threshold is not part of
    #    the exact comparison.
    def sqrt(self):
        return math.sqrt(float(self))

    def conjugate(self):
        return self


ZERO = Ex(0)
ONE = Ex(1)


def lift(a):
    """array-like of numbers -> dtype=object ndarray of Ex (same shape).  Ex
    elements are kept, ints / floats / Fractions are converted exactly."""
    src = a if isinstance(a, _np.ndarray) else _np.array(a, dtype=object)
    out = _np.empty(src.shape, dtype=object)
    flat = out.reshape(-1)
    for k, x in enumerate(src.reshape(-1).tolist()):
        flat[k] = x if type(x) is Ex else Ex(x)
    return out


def unlift(a):
    """array-like possibly holding Ex -> float64 ndarray"""
    if isinstance(a, Ex):
        return float(a)
    return _np.array(a, dtype=float)


def _holds_numbers(arr):
    """True for float arrays and for object arrays whose elements are numbers
    (Ex / float / int / Fraction) - the arrays that exact mode keeps as Ex"""
    if arr.dtype.kind == "f":
        return True
    if arr.dtype == object:
        return all(_pair(x, False) is not None and not isinstance(x, (bool, _np.bool_))
                   for x in arr.reshape(-1).tolist())
    return False


def _is_float_dtype(dtype):
    if dtype is None or dtype is float:
        return True
    try:
        return _np.dtype(dtype).kind == "f"
    except TypeError:
        return False


# ----------------------------------------------------------------------------
# the np shim
# ----------------------------------------------------------------------------

class Shim(object):
    """module-like proxy for numpy (see the module docstring)"""

    def __init__(self):
        self.active = False

    def __getattr__(self, name):          # everything that is not overridden below
        return getattr(_np, name)

    def __repr__(self):
        return "<exact.Shim of numpy, %s>" % ("ACTIVE" if self.active else "transparent")

    # -- constructors: float64 (the default dtype) becomes object / Ex
    def _filled(self, real, shape, dtype, fill, kw):
        if not self.active or not _is_float_dtype(dtype):
            return real(shape, **kw) if dtype is None else real(shape, dtype=dtype, **kw)
        out = _np.empty(shape, dtype=object)
        if fill is not None:
            out.fill(fill)                # Ex is immutable: sharing one object is fine
        return out

    def empty(self, shape, dtype=None, **kw):
        return self._filled(_np.empty, shape, dtype, None, kw)

    def zeros(self, shape, dtype=None, **kw):
        return self._filled(_np.zeros, shape, dtype, ZERO, kw)

    def ones(self, shape, dtype=None, **kw):
        return self._filled(_np.ones, shape, dtype, ONE, kw)

    def _filled_like(self, real, a, dtype, fill, kw):
        if self.active and dtype is None:
            proto = a if isinstance(a, _np.ndarray) else self.asarray(a)
            if proto.dtype == object or proto.dtype.kind == "f":
                out = _np.empty(proto.shape, dtype=object)
                if fill is not None:
                    out.fill(fill)
                return out
        return real(a, **kw) if dtype is None else real(a, dtype=dtype, **kw)

    def empty_like(self, a, dtype=None, **kw):
        return self._filled_like(_np.empty_like, a, dtype, None, kw)

    def zeros_like(self, a, dtype=None, **kw):
        return self._filled_like(_np.zeros_like, a, dtype, ZERO, kw)

    def ones_like(self, a, dtype=None, **kw):
        return self._filled_like(_np.ones_like, a, dtype, ONE, kw)

    def _convert(self, real, obj, dtype, kw):
        if not self.active or not _is_float_dtype(dtype):
            return real(obj, **kw) if dtype is None else real(obj, dtype=dtype, **kw)
        if isinstance(obj, _np.ndarray) and obj.dtype == object and real is _np.asarray:
            return obj                    # asarray of an Ex array: no copy, like numpy
        probe = _np.array(obj, **{k: v for k, v in kw.items() if k != "copy"})
        if _holds_numbers(probe) or (dtype is not None and probe.dtype.kind in "iub"):
            return lift(probe)            # numbers stay / become Ex (always a new array)
        return real(obj, **kw) if dtype is None else real(obj, dtype=dtype, **kw)

    def array(self, obj, dtype=None, **kw):
        return self._convert(_np.array, obj, dtype, kw)

    def asarray(self, obj, dtype=None, **kw):
        return self._convert(_np.asarray, obj, dtype, kw)

    # -- functions that join arrays: numpy would cast Ex to the dtype of the
    #    first operand (np.insert([t_start, t_end], 1, spikes) -> float64)
    def _lift_if_numbers(self, a):
        arr = a if isinstance(a, _np.ndarray) else _np.array(a)
        return lift(arr) if _holds_numbers(arr) else arr

    def insert(self, arr, obj, values, axis=None):
        if self.active:
            arr, values = self._lift_if_numbers(arr), self._lift_if_numbers(values)
        return _np.insert(arr, obj, values, axis=axis)

    def append(self, arr, values, axis=None):
        if self.active:
            arr, values = self._lift_if_numbers(arr), self._lift_if_numbers(values)
        return _np.append(arr, values, axis=axis)

    def concatenate(self, arrays, *a, **kw):
        if self.active:
            arrays = [self._lift_if_numbers(x) for x in arrays]
        return _np.concatenate(arrays, *a, **kw)

    def unique(self, ar, *a, **kw):
        if self.active and not a and not kw:
            arr = self._lift_if_numbers(ar)
            if arr.dtype == object:
                # numpy's own algorithm (sort, keep the first of every run of equal
                # values) written out: np.unique on object arrays depends on the
                # numpy version
                flat = _np.sort(arr.reshape(-1))
                keep = [k for k in range(len(flat)) if k == 0 or flat[k] != flat[k - 1]]
                return flat[keep]
        return _np.unique(ar, *a, **kw)

    def sum(self, a, *args, **kw):
        r = _np.sum(a, *args, **kw)
        if self.active and type(r) is int and not args and not kw:
            arr = _np.asarray(a)
            if arr.dtype == object and arr.size == 0:
                return ZERO               # empty float sum is 0.0, not the int 0
        return r

    # -- float-only numpy routines: give them floats
    def allclose(self, a, b, *args, **kw):
        if self.active:
            a, b = unlift(a), unlift(b)
        return _np.allclose(a, b, *args, **kw)

    def histogram(self, a, bins=10, *args, **kw):
        if self.active:
            a = unlift(a)
            bins = bins if isinstance(bins, (int, str)) else unlift(bins)
        return _np.histogram(a, bins, *args, **kw)

    def linspace(self, start, stop, *args, **kw):
        if self.active:
            start, stop = unlift(start), unlift(stop)
        return _np.linspace(start, stop, *args, **kw)


SHIM = Shim()

#: library modules that do numeric work (grep -l "import numpy as np")
LIB_MODULES = ["pyspike.cython.python_backend", "pyspike.cython.directionality_python_backend",
               "pyspike.PieceWiseConstFunc", "pyspike.PieceWiseLinFunc", "pyspike.DiscreteFunc",
               "pyspike.SpikeTrain", "pyspike.spikes", "pyspike.generic", "pyspike.isi_distance",
               "pyspike.spike_distance", "pyspike.spike_sync", "pyspike.spike_directionality",
               "pyspike.isi_lengths", "pyspike.psth"]


def install(ps, mods):
    """re-bind `np` in the loaded library modules and in the de-cythonised
    modules to the shim.  pyspike.spike_sync etc. are shadowed by same-named
    functions in the package namespace, hence sys.modules."""
    done = []
    for name in LIB_MODULES:
        m = sys.modules.get(name)
        if m is not None and getattr(m, "np", None) is _np:
            m.np = SHIM
            done.append(name)
    for name, m in mods.items():
        if m.__dict__.get("np") is _np:
            m.__dict__["np"] = SHIM
            done.append("pyx:" + name)
    return done


class active(object):
    """context manager: the shim builds Ex arrays inside the block"""

    def __enter__(self):
        self.prev = SHIM.active
        SHIM.active = True

    def __exit__(self, *a):
        SHIM.active = self.prev
        return False


# ----------------------------------------------------------------------------
# the exact call of one adapter routine, with fall-backs
# ----------------------------------------------------------------------------

#: routines that stay float-only (text IO, histogram / linspace, random numbers,
#: the square root of the automatic threshold)
FLOAT_ONLY = {43, 81, 82, 90, 91, 92, 93}


class NotExact(Exception):
    """raised by the adapters when an input is not exactly representable where
    the library forces binary64 (SpikeTrain edges are passed through float())"""


def representable(q):
    """is the Fraction q exactly a binary64 number?"""
    try:
        return Fraction(float(q)) == q
    except OverflowError:
        return False


class Stats(object):
    """counters of one exact worker"""

    def __init__(self):
        self.exact_compared = 0     # cases whose every numeric leaf was compared with == (see compare)
        self.exact_partly = 0       # cases with == leaves and some float leaves (tolerance)
        self.leaves_eq = 0          # numeric leaves compared with ==
        self.leaves_tol = 0         # numeric leaves of exact runs that were floats (tolerance)
        self.exact_runs = 0         # cases whose exact execution delivered the compared value
        self.float_only = 0         # FLOAT_ONLY routine ids
        self.inexact_input = 0      # adapter raised NotExact
        self.div0 = 0               # poison created (inf / nan / ZeroDivisionError semantics differ): float path
        self.rounded = 0            # a rounded float (1.0/3) entered the exact arithmetic: float path
        self.fallbacks = 0          # exact execution raised something the float path does not raise
        self.fallback_samples = []

    def as_dict(self):
        return {"exact_compared": self.exact_compared, "exact_partly": self.exact_partly,
                "exact_leaves_eq": self.leaves_eq, "exact_leaves_tol": self.leaves_tol,
                "exact_runs": self.exact_runs,
                "exact_float_only_routines": self.float_only, "exact_inexact_inputs": self.inexact_input,
                "exact_div0_to_float": self.div0, "exact_rounded_float_to_float": self.rounded,
                "exact_fallbacks": self.fallbacks,
                "exact_fallback_samples": self.fallback_samples[:5]}


def _has_poison(v):
    if isinstance(v, list):
        return any(_has_poison(x) for x in v)
    return isinstance(v, float) and v != v


def call(impl, rid, args, stats):
    """run adapter routine `rid` on `args` in exact mode.
    Returns (canonical value, exact?) where exact? tells whether the value comes
    from the exact execution (Fractions; compare with ==) or from the float
    path (floats; compare with the tolerance).  The float path is used
      * for FLOAT_ONLY routines and for inputs that binary64 cannot hold,
      * when the exact run divided by zero (C / numpy / Python disagree on
        inf, nan and ZeroDivisionError; the float run is the reference there),
      * when a rounded float (e.g. 1.0/3 computed by the library in binary64)
        entered the exact arithmetic,
      * when the exact run raised an exception that the float run does not raise
        in the same way (e.g. a numpy function without an object loop): that is
        a limitation of this machinery, never a finding.  Counted in
        stats.fallbacks with a sample message."""
    import adapters
    import core

    def float_path():
        return core.call_impl(impl.call, rid, args)

    if rid in FLOAT_ONLY:
        stats.float_only += 1
        return float_path(), False
    p0, r0 = POISONINGS, ROUNDED_FLOATS
    msg = [None]

    def run():
        adapters.EXACT = True
        try:
            with active():
                return impl.call(rid, args)
        except NotExact:
            raise
        except Exception as e:
            msg[0] = "%s: %s" % (type(e).__name__, str(e)[:200])
            raise
        finally:
            adapters.EXACT = False
    try:
        xv = core.call_impl_exact(run, passthrough=(NotExact,))
    except NotExact:
        stats.inexact_input += 1
        return float_path(), False
    if POISONINGS != p0 or _has_poison(xv):
        stats.div0 += 1
        return float_path(), False
    if ROUNDED_FLOATS != r0:
        stats.rounded += 1
        return float_path(), False
    if isinstance(xv, core.Err):
        fv = float_path()
        if isinstance(fv, core.Err) and fv.name == xv.name:
            stats.exact_runs += 1       # the library itself raises this on these inputs
            return xv, True
        stats.fallbacks += 1
        if len(stats.fallback_samples) < 5:
            stats.fallback_samples.append("rid %d %s: exact run raised %s; float run gave %s"
                                          % (rid, core.enc(args)[:300], msg[0] or xv, repr(fv)[:120]))
        return fv, False
    stats.exact_runs += 1
    return xv, True


def compare(impl, rid, args, mv, tol, stats):
    """model value mv vs. the implementation run in exact mode.  Returns
    (difference or None, canonical implementation value, exact?)"""
    import core
    iv, ex = call(impl, rid, args, stats)
    leaves = {}
    d = core.agree(mv, iv, tol, stats=leaves)
    if d and ex and core.agree(mv, core.fl(iv), tol) is not None:
        # The exact result is off by MORE than the tolerance (or differs in shape).
        # A genuine defect of that size shows on the float path as well; if the
        # float run of the same case agrees with the model, the difference is an
        # artefact of executing the library on Ex objects (a type-dependent branch,
        # isinstance(x, float), ...): never a finding.  What exact mode adds to the
        # float run are the differences BELOW the tolerance.
        fv = core.call_impl(impl.call, rid, args)
        fd = core.agree(mv, fv, tol)
        stats.exact_runs -= 1           # the compared value is the float run's
        if fd is None:
            stats.fallbacks += 1
            if len(stats.fallback_samples) < 5:
                stats.fallback_samples.append("rid %d %s: exact run differs from the model (%s) but the float run "
                                              "agrees" % (rid, core.enc(args)[:300], d[:200]))
            return None, fv, False
        return fd, fv, False
    if ex:
        stats.leaves_eq += leaves.get("eq", 0)
        stats.leaves_tol += leaves.get("tol", 0)
        if leaves.get("tol", 0) == 0:
            stats.exact_compared += 1
        elif leaves.get("eq", 0) > 0:
            stats.exact_partly += 1
    return d, iv, ex
