import sys, os, random, time
sys.path.insert(0, os.path.dirname(os.path.abspath(__file__)))
import backend, core, gen, adapters
from core import Nat
from fractions import Fraction as Fr
be = sys.argv[1] if len(sys.argv) > 1 else "py"
ps, mods = backend.load(be)
impl = adapters.Impl(ps, mods, be)
# VERIF_EXACT=1: run the library on exact rationals and compare with == (harness/exact.py)
EXACT = os.environ.get("VERIF_EXACT") == "1"
if EXACT:
    import exact
    exact.install(ps, mods)
    xstats = exact.Stats()
cy = be == "cy"
rng = random.Random(2)
cases = []
ivs = gen.intervals(16)
for _ in range(1500):
    f = gen.rand_pwc(rng); g = gen.rand_pwc(rng)
    cases.append((20, [f[0], f[1], g[0], g[1]]))
    fl_ = gen.rand_pwl(rng); gl = gen.rand_pwl(rng)
    cases.append((21, list(fl_) + list(gl)))
    d1 = gen.rand_df(rng); d2 = gen.rand_df(rng)
    cases.append((22, list(d1) + list(d2)))
    if be == "py":
        iv = rng.choice(ivs); t = Fr(rng.randint(0,16),16)
        iv2 = [rng.choice(ivs) for _ in range(2)]
        for spec in (None, list(iv), [list(x) for x in iv2]):
            cases.append((23, [f[0], f[1], spec]))
            cases.append((28, list(fl_) + [spec]))
            cases.append((33, list(d1) + [spec]))
            cases.append((34, list(d1) + [spec, True]))
        cases.append((24, [f[0], f[1], list(iv)])); cases.append((24, [f[0], f[1], None]))
        cases.append((29, list(fl_) + [list(iv)])); cases.append((29, list(fl_) + [None]))
        for rid in (25, 26): cases.append((rid, [f[0], f[1], t]))
        for rid in (30, 31): cases.append((rid, list(fl_) + [t]))
        cases.append((27, [f[0], f[1]])); cases.append((32, list(fl_)))
        for k in (0,1,2,3): cases.append((35, list(d1) + [Nat(k)]))
if be == "py":
    for _ in range(500):
        l = [Fr(rng.randint(0,8),8) for _ in range(rng.randint(0,6))]
        cases.append((40, [l]))
        trs = [[[Fr(rng.randint(-2,10),8) for _ in range(rng.randint(0,5))], Fr(rng.choice([0,0,1]),8), Fr(rng.choice([8,8,7]),8)] for _ in range(rng.randint(1,3))]
        cases.append((41, [trs]))
        t = gen.rand_train(rng, 4, 8)
        cases.append((42, [t, Fr(0), Fr(1)]))
        cases.append((43, [[[x, Fr(0), Fr(1)] for x in gen.rand_trains(rng, 3, 4, 8)]]))
        cases.append((80, [[[x, Fr(0), Fr(1)] for x in gen.rand_trains(rng, 3, 4, 8)]]))
        cases.append((81, [Fr(rng.randint(0,3)), Fr(1, rng.choice([1,2,4])), [rng.random()<0.4 for _ in range(rng.randint(1,8))]]))
        nb = rng.choice([1,2,4,8])
        cases.append((82, [[Fr(i,nb) for i in range(nb+1)], [Fr(rng.randint(0,16),16) for _ in range(rng.randint(0,8))]]))
# API
def T(s): return [s, Fr(0), Fr(1)]
for _ in range(600):
    trs = gen.rand_trains(rng, rng.randint(2,4), 4, 8)
    a, b = T(trs[0]), T(trs[1])
    L = [T(x) for x in trs]
    m = rng.choice(gen.MRTS_GRID); mt = rng.choice(gen.MAXTAU_GRID); ri = rng.random()<0.5
    iv = rng.choice([None, None] + [list(x) for x in rng.sample(ivs, 2)])
    rc = rng.random() < 0.5
    n = len(L)
    ix = rng.choice([None, None, [Nat(i) for i in rng.sample(range(n), rng.randint(2, n))]])
    cases += [(50,[rc,m,a,b]),(51,[rc,m,ri,a,b]),(52,[rc,mt,m,a,b]),(53,[rc,mt,m,a,b]),
              (54,[rc,m,iv,a,b]),(55,[rc,m,ri,iv,a,b]),(56,[rc,mt,m,iv,a,b]),
              (60,[rc,m,L,ix]),(61,[rc,m,ri,L,ix]),(62,[rc,mt,m,L,ix]),(63,[rc,mt,m,L,ix]),
              (64,[rc,m,iv,L,ix]),(65,[rc,m,ri,iv,L,ix]),(66,[rc,mt,m,iv,L,ix]),
              (67,[rc,m,iv,L,ix]),(68,[rc,m,ri,iv,L,ix]),(69,[rc,mt,m,iv,L,ix]),
              (70,[rc,mt,m,Fr(rng.randint(0,n-1),n-1),L]),
              (71,[rc,True,mt,m,a,b]),(71,[rc,False,mt,m,a,b]),(72,[rc,True,mt,m,L,ix]),
              (73,[rc,mt,m,L,ix]),(74,[rc,True,mt,m,a,b]),(74,[rc,False,mt,m,a,b]),(75,[rc,True,mt,m,L,ix]),(75,[rc,False,mt,m,L,ix])]
t0=time.time()
mcases = [(rid, ([cy] if adapters.ROUTINES[rid][1] else []) + args) for rid, args in cases]
mout = core.run_model(mcases)
t1=time.time()
bad = {}
for (rid, args), mv in zip(cases, mout):
    if EXACT:
        d, iv, _ = exact.compare(impl, rid, args, mv, core.TOL, xstats)
    else:
        iv = core.call_impl(impl.call, rid, args)
        d = core.agree(mv, iv)
    if d:
        bad.setdefault(rid, []).append((args, d))
t2=time.time()
print(be, len(cases), "cases; model %.1fs impl %.1fs" % (t1-t0, t2-t1))
for rid, l in sorted(bad.items()):
    print("RID", rid, adapters.ROUTINES[rid][0], len(l), "mismatches; first:")
    for args, d in l[:2]:
        print("   ", core.enc(args), "->", d)
if EXACT:
    print("exact mode:", " ".join("%s=%s" % kv for kv in xstats.as_dict().items() if kv[0] != "exact_fallback_samples"))
    for m in xstats.fallback_samples:
        print("   fallback:", m)
