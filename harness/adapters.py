"""adapters.py - for every numbered model routine (coq/Dispatch.v) the call of the
real implementation in /repo that it models.  Arguments arrive as Fractions /
lists / bools / None / Nat, exactly as they are sent to the model (without the
leading backend flag, which the harness adds for the model side)."""
import numpy as np
from core import fl, Nat

# rid -> (name, takes_cy_flag, backends)
ROUTINES = {
    1: ("isi_profile_kernel", True, ("py", "cy")),
    2: ("spike_profile_kernel", True, ("py", "cy")),
    3: ("get_min_dist", False, ("py",)),
    4: ("dist_at_t", False, ("py",)),
    5: ("get_tau", True, ("py", "cy")),
    6: ("coincidence_profile_kernel", True, ("py", "cy")),
    7: ("coincidence_single_kernel", True, ("py", "cy")),
    8: ("order_profile_kernel", True, ("py", "cy")),
    9: ("directionality_profile_kernel", True, ("py", "cy")),
    10: ("isi_distance_cython", False, ("cy",)),
    11: ("spike_distance_cython", False, ("cy",)),
    12: ("coincidence_value_cython", True, ("cy",)),
    13: ("spike_train_order_cython", False, ("cy",)),
    14: ("spike_directionality_cython", False, ("cy",)),
    20: ("add_piece_wise_const", False, ("py", "cy")),
    21: ("add_piece_wise_lin", False, ("py", "cy")),
    22: ("add_discrete_function", False, ("py", "cy")),
    23: ("pwc_avrg", False, ("py",)),
    24: ("pwc_integral", False, ("py",)),
    25: ("pwc_call_scalar", False, ("py",)),
    26: ("pwc_call_seq", False, ("py",)),
    27: ("pwc_plottable", False, ("py",)),
    28: ("pwl_avrg", False, ("py",)),
    29: ("pwl_integral", False, ("py",)),
    30: ("pwl_call_scalar", False, ("py",)),
    31: ("pwl_call_seq", False, ("py",)),
    32: ("pwl_plottable", False, ("py",)),
    33: ("df_integral", False, ("py",)),
    34: ("df_avrg", False, ("py",)),
    35: ("df_plottable", False, ("py",)),
    40: ("np_unique", False, ("py",)),
    41: ("reconcile_spike_trains", False, ("py",)),
    42: ("isi_lengths", False, ("py",)),
    43: ("default_thresh_sq", False, ("py",)),
    50: ("isi_profile_bi", True, ("py", "cy")),
    51: ("spike_profile_bi", True, ("py", "cy")),
    52: ("spike_sync_profile_bi", True, ("py", "cy")),
    53: ("spike_train_order_profile_bi", True, ("py", "cy")),
    54: ("isi_distance_bi", True, ("py", "cy")),
    55: ("spike_distance_bi", True, ("py", "cy")),
    56: ("spike_sync_bi", True, ("py", "cy")),
    60: ("isi_profile_multi", True, ("py", "cy")),
    61: ("spike_profile_multi", True, ("py", "cy")),
    62: ("spike_sync_profile_multi", True, ("py", "cy")),
    63: ("spike_train_order_profile_multi", True, ("py", "cy")),
    64: ("isi_distance_multi", True, ("py", "cy")),
    65: ("spike_distance_multi", True, ("py", "cy")),
    66: ("spike_sync_multi", True, ("py", "cy")),
    67: ("isi_distance_matrix", True, ("py", "cy")),
    68: ("spike_distance_matrix", True, ("py", "cy")),
    69: ("spike_sync_matrix", True, ("py", "cy")),
    70: ("filter_by_spike_sync", True, ("py", "cy")),
    71: ("spike_train_order_bi", True, ("py", "cy")),
    72: ("spike_train_order_multi", True, ("py", "cy")),
    73: ("spike_directionality_values", True, ("py", "cy")),
    74: ("spike_directionality", True, ("py", "cy")),
    75: ("spike_directionality_matrix", True, ("py", "cy")),
    80: ("merge_spike_trains", False, ("py",)),
    81: ("time_series_row", False, ("py",)),
    82: ("hist_counts", False, ("py",)),
    90: ("save_lines", False, ("py",)),
    91: ("load_lines", False, ("py",)),
    92: ("psth", False, ("py",)),
    93: ("poisson_spikes", False, ("py",)),
    94: ("history", False, ("py", "cy")),
    95: ("optimal_sorting_from_matrix", False, ("cy",)),
    96: ("permutate_matrix", False, ("py", "cy")),
}


# ---- exact mode switch (harness/exact.py) ---------------------------------
# EXACT is False except while exact.call() runs one routine in exact mode.  With
# EXACT False the three helpers below are what the adapters always were:
#   arr(l) = np.array(fl(l), dtype=float),  num(x) = float(x),  lst(l) = fl(l)
# With EXACT True they hand the library exact numbers (exact.Ex) instead.
EXACT = False


def arr(l):
    if EXACT:
        import exact
        return exact.lift(list(l))          # object array of Ex built from the Fractions
    return np.array(fl(l), dtype=float)


# ---- argument types -----------------------------------------------------------
# The library is called with numbers and flags of varying Python / numpy types: the same value as a
# float, a numpy.float64, a Python int (when it is integral) or a 0-d array; a flag as bool,
# numpy.bool_ or 0/1.  The choice is a deterministic function of a call counter, so a replay
# reproduces it.  (Seeded changes C02-7 / C12-8: `if RI is True`, C16-7: in-place `max_tau *= 2`,
# C18-8: integer dtype kept by SpikeTrain.)
_TICK = [0]
TYPES = True


def _tick():
    _TICK[0] += 1
    return _TICK[0]


def num(x):
    """a scalar argument (t_start, t_end, MRTS, max_tau, interval end, threshold)"""
    if EXACT:
        import exact
        return exact.Ex(x)
    v = float(x)
    if not TYPES:
        return v
    k = _tick() % 13
    if k == 3:
        return np.float64(v)
    if k == 7 and v == int(v) and abs(v) < 2 ** 31:
        return int(v)
    if k == 9:
        return np.array(v)
    if k == 11 and v == int(v) and abs(v) < 2 ** 31:
        return (np.int64, np.int32)[_tick() % 2](v)   # numpy integer scalars (an element of np.arange, a count)
    # (np.float32 scalars are deliberately NOT used for scalar arguments: under numpy's promotion rules a float32 scalar
    # combined with a Python float stays float32, so `t_end - t_start` would be computed in single precision - that is
    # the caller's choice of precision, not a property of the library)
    return v


def flag(b):
    """a boolean keyword (RI, normalize)"""
    b = bool(b)
    if EXACT or not TYPES:
        return b
    k = _tick() % 5
    if k == 1:
        return np.bool_(b)
    if k == 3:
        return int(b)
    return b


def lst(l):
    """a plain Python list of numbers"""
    if EXACT:
        import exact
        return [exact.Ex(x) for x in l]
    return fl(l)


def edge(x):
    """an edge of a SpikeTrain: the library converts it with float(), so exact
    mode is only possible if the value is a binary64 number"""
    if EXACT:
        import exact
        if not exact.representable(x):
            raise exact.NotExact("edge %s is not a binary64 number" % (x,))
    return float(x)
# ---- end of exact mode switch ----------------------------------------------


class Impl(object):
    def __init__(self, ps, mods, backend):
        self.ps = ps
        self.mods = mods
        self.backend = backend
        self.cy = backend == "cy"
        import pyspike.cython.python_backend as pb
        import pyspike.cython.directionality_python_backend as dpb
        self.pb = pb
        self.dpb = dpb

    # -- helpers
    def train(self, t):
        s, ts, te = t
        if not EXACT and TYPES:
            k = _tick() % 6
            sf = fl(s)
            if k == 2 and sf and all(v == int(v) for v in sf):
                # integral times given as Python ints / an integer array, and not declared sorted
                return self.ps.SpikeTrain(np.array([int(v) for v in sf]) if len(sf) % 2 else [int(v) for v in sf],
                                          [edge(ts), edge(te)], is_sorted=(sf != sorted(sf) or _tick() % 2 == 0))
            if k == 4 and sf == sorted(sf):
                return self.ps.SpikeTrain(arr(s), [edge(ts), edge(te)], is_sorted=False)
            if k == 1:
                ro = arr(s)
                ro.setflags(write=False)              # a read-only array: the constructor must copy, never write
                return self.ps.SpikeTrain(ro, (edge(ts), edge(te)))
            if k == 3:
                return self.ps.SpikeTrain(tuple(sf), [edge(ts), edge(te)])
            if k == 5 and all(float(np.float32(v)) == v for v in sf):
                # a float32 array whose values are exact in float32: the library works in float64 all the same
                return self.ps.SpikeTrain(np.array(sf, dtype=np.float32), [edge(ts), edge(te)])
        return self.ps.SpikeTrain(arr(s), [edge(ts), edge(te)])

    def trains(self, l):
        return [self.train(t) for t in l]

    # -- call forms: every public measure accepts two trains, a list, or several positional trains, and a pair can be
    # picked out of a longer list with `indices`; all forms must give the same result (property C14), so the adapter
    # is free to use any of them - deterministically varied, like the argument types
    def two(self, f, a, b, **kw):
        A, B = self.train(a), self.train(b)
        k = _tick() % 7 if (TYPES and not EXACT) else 0
        if k == 2:
            return f([A, B], **kw)
        if k == 4:
            return f([B, A, B], indices=[1, 0], **kw)
        if k == 6:
            return f([A, B, B], indices=np.array([0, 2]), **kw)
        if k == 5:
            return f([B, A], indices=[1, 0], **kw)   # a list of exactly two trains, selected in reverse order
        if k == 3 and _tick() % 2:
            return f([B, A], indices=np.array([1, 0]), **kw)
        return f(A, B, **kw)

    def many(self, f, l, ix, **kw):
        L = self.trains(l)
        if ix is None and TYPES and not EXACT and _tick() % 4 == 1:
            return f(*L, **kw)                      # separate positional arguments (two of them: the two-train form)
        if ix is not None and TYPES and not EXACT:
            k = _tick() % 6
            ii = self.idx(ix)
            if k == 2:
                dt = (np.int64, np.int8, np.uint8, np.int16)[_tick() % 4]    # narrow integer index arrays too
                return f(L, indices=np.array(ii, dtype=dt if max(ii) < 120 else np.int64), **kw)
            if k == 4:
                return f(L, indices=tuple(ii), **kw)
            if k == 5 and ii == list(range(ii[0], ii[0] + len(ii))):
                return f(L, indices=range(ii[0], ii[0] + len(ii)), **kw)
        return f(L, indices=self.idx(ix), **kw)

    @staticmethod
    def iv(iv):
        if iv is None:
            return None
        if not EXACT and TYPES and _tick() % 3 == 0:
            return [num(iv[0]), num(iv[1])]          # a list instead of a tuple
        return (num(iv[0]), num(iv[1]))

    @staticmethod
    def ivspec(iv):
        if iv is None:
            return None
        if len(iv) == 2 and not isinstance(iv[0], (list, tuple)):
            return (num(iv[0]), num(iv[1]))
        return [(num(a), num(b)) for a, b in iv]

    @staticmethod
    def idx(ix):
        return None if ix is None else [int(i) for i in ix]

    @staticmethod
    def kw(rc, m=None, ri=None):
        kw = {}
        if not rc:
            kw["Reconcile"] = False
        if m is not None and m != 0:
            kw["MRTS"] = num(m)       # MRTS = 0 is the default: leave the keyword out (explicit 0 is C15's business)
        if ri is not None:
            kw["RI"] = flag(ri)
        return kw

    def call(self, rid, args):
        return getattr(self, "r%d" % rid)(*args)

    # -- L1 kernels
    def r1(self, s1, s2, ts, te, m):
        f = self.mods["cython_profiles"].isi_profile_cython if self.cy else self.pb.isi_distance_python
        return f(arr(s1), arr(s2), num(ts), num(te), num(m))

    def r2(self, s1, s2, ts, te, m, ri):
        f = self.mods["cython_profiles"].spike_profile_cython if self.cy else self.pb.spike_distance_python
        return f(arr(s1), arr(s2), num(ts), num(te), num(m), flag(ri))

    def r3(self, x, l, a0, a1):
        return self.pb.get_min_dist(num(x), arr(l), 0, num(a0), num(a1))

    def r4(self, i1, i2, s1, s2, m, ri):
        return self.pb.dist_at_t(num(i1), num(i2), num(s1), num(s2), num(m), flag(ri))

    def r5(self, c1, c2, lim, m):
        # rebuild arrays and indices from the two contexts
        def mk(c):
            if c is None:
                return arr([5, 6]), -1              # any train; index -1
            p, x, n = c
            a = []
            if p is not None:
                a.append(num(p))
            i = len(a)
            a.append(num(x))
            if n is not None:
                a.append(num(n))
            return (arr(a) if EXACT else np.array(a)), i
        a1, i = mk(c1)
        a2, j = mk(c2)
        f = self.mods["cython_get_tau"].get_tau if self.cy else self.pb.get_tau
        return f(a1, a2, i, j, num(lim), num(m))

    def r6(self, s1, s2, ts, te, mt, m):
        f = self.mods["cython_profiles"].coincidence_profile_cython if self.cy else self.pb.coincidence_python
        return f(arr(s1), arr(s2), num(ts), num(te), num(mt), num(m))

    def r7(self, s1, s2, ts, te, mt, m):
        f = self.mods["cython_profiles"].coincidence_single_profile_cython if self.cy \
            else self.pb.coincidence_single_python
        return f(arr(s1), arr(s2), num(ts), num(te), num(mt), num(m))

    def r8(self, s1, s2, ts, te, mt, m):
        f = self.mods["cython_directionality"].spike_train_order_profile_cython if self.cy \
            else self.dpb.spike_train_order_profile_python
        return f(arr(s1), arr(s2), num(ts), num(te), num(mt), num(m))

    def r9(self, s1, s2, ts, te, mt, m):
        f = self.mods["cython_directionality"].spike_directionality_profiles_cython if self.cy \
            else self.dpb.spike_directionality_profile_python
        return f(arr(s1), arr(s2), num(ts), num(te), num(mt), num(m))

    def r10(self, s1, s2, ts, te, m):
        return self.mods["cython_distances"].isi_distance_cython(arr(s1), arr(s2), num(ts), num(te), num(m))

    def r11(self, s1, s2, ts, te, m, ri):
        return self.mods["cython_distances"].spike_distance_cython(arr(s1), arr(s2), num(ts), num(te),
                                                                   num(m), flag(ri))

    def r12(self, s1, s2, ts, te, mt, m):
        return self.mods["cython_distances"].coincidence_value_cython(arr(s1), arr(s2), num(ts), num(te),
                                                                      num(mt), num(m))

    def r13(self, s1, s2, ts, te, mt, m):
        return self.mods["cython_directionality"].spike_train_order_cython(arr(s1), arr(s2), num(ts),
                                                                           num(te), num(mt), num(m))

    def r14(self, s1, s2, ts, te, mt, m):
        return self.mods["cython_directionality"].spike_directionality_cython(arr(s1), arr(s2), num(ts),
                                                                              num(te), num(mt), num(m))

    # -- L2: the class methods (add goes through the class so that the
    #    backend import inside .add() is exercised)
    def r20(self, x1, y1, x2, y2):
        f = self.ps.PieceWiseConstFunc(arr(x1), arr(y1))
        g = self.ps.PieceWiseConstFunc(arr(x2), arr(y2))
        f.add(g)
        return f

    def r21(self, x1, y11, y12, x2, y21, y22):
        f = self.ps.PieceWiseLinFunc(arr(x1), arr(y11), arr(y12))
        g = self.ps.PieceWiseLinFunc(arr(x2), arr(y21), arr(y22))
        f.add(g)
        return f

    def r22(self, x1, y1, m1, x2, y2, m2):
        def xs(x):
            xf = fl(x)
            if TYPES and not EXACT and _tick() % 3 == 0 and all(v == int(v) for v in xf):
                return np.array([int(v) for v in xf])      # integer-typed event times (values stay fractional)
            return arr(x)
        f = self.ps.DiscreteFunc(xs(x1), arr(y1), arr(m1))
        g = self.ps.DiscreteFunc(xs(x2), arr(y2), arr(m2))
        f.add(g)
        return f

    def r23(self, x, y, iv):
        return self.ps.PieceWiseConstFunc(arr(x), arr(y)).avrg(self.ivspec(iv))

    def r24(self, x, y, iv):
        return self.ps.PieceWiseConstFunc(arr(x), arr(y)).integral(self.iv(iv))

    def r25(self, x, y, t):
        return self.ps.PieceWiseConstFunc(arr(x), arr(y))(num(t))

    def r26(self, x, y, t):
        return self.ps.PieceWiseConstFunc(arr(x), arr(y))([num(t)])[0]

    def r27(self, x, y):
        return self.ps.PieceWiseConstFunc(arr(x), arr(y)).get_plottable_data()

    def r28(self, x, y1, y2, iv):
        return self._quiet(lambda: self.ps.PieceWiseLinFunc(arr(x), arr(y1), arr(y2)).avrg(self.ivspec(iv)))

    def r29(self, x, y1, y2, iv):
        return self._quiet(lambda: self.ps.PieceWiseLinFunc(arr(x), arr(y1), arr(y2)).integral(self.iv(iv)))

    def r30(self, x, y1, y2, t):
        return self.ps.PieceWiseLinFunc(arr(x), arr(y1), arr(y2))(num(t))

    def r31(self, x, y1, y2, t):
        return self.ps.PieceWiseLinFunc(arr(x), arr(y1), arr(y2))([num(t)])[0]

    def r32(self, x, y1, y2):
        return self.ps.PieceWiseLinFunc(arr(x), arr(y1), arr(y2)).get_plottable_data()

    def r33(self, x, y, mp, iv):
        return self.ps.DiscreteFunc(arr(x), arr(y), arr(mp)).integral(self.ivspec(iv))

    def r34(self, x, y, mp, iv, nrm):
        return self.ps.DiscreteFunc(arr(x), arr(y), arr(mp)).avrg(self.ivspec(iv), normalize=flag(nrm))

    def r35(self, x, y, mp, k):
        return self.ps.DiscreteFunc(arr(x), arr(y), arr(mp)).get_plottable_data(int(k))

    @staticmethod
    def _quiet(fn):
        # PieceWiseLinFunc.integral prints debug output in one branch
        import io
        import contextlib
        with contextlib.redirect_stdout(io.StringIO()):
            return fn()

    # -- L3 helpers
    def r40(self, l):
        if EXACT:
            import exact
            return exact.SHIM.unique(arr(l))
        return np.unique(arr(l))

    def r41(self, l):
        from pyspike.spikes import reconcile_spike_trains
        return reconcile_spike_trains(self.trains(l))

    def r42(self, s, ts, te):
        from pyspike.isi_lengths import isi_lengths
        return list(isi_lengths(lst(s), num(ts), num(te)))

    def r43(self, l):
        from pyspike.isi_lengths import default_thresh
        t = default_thresh(self.trains(l))
        return float(t) ** 2

    # -- L3 entry points
    def r50(self, rc, m, a, b):
        return self.two(self.ps.isi_profile, a, b, **self.kw(rc, m))

    def r51(self, rc, m, ri, a, b):
        return self.two(self.ps.spike_profile, a, b, **self.kw(rc, m, ri))

    def r52(self, rc, mt, m, a, b):
        return self.two(self.ps.spike_sync_profile, a, b, max_tau=num(mt), **self.kw(rc, m))

    def r53(self, rc, mt, m, a, b):
        return self.two(self.ps.spike_train_order_profile, a, b, max_tau=num(mt), **self.kw(rc, m))

    def r54(self, rc, m, iv, a, b):
        return self.two(self.ps.isi_distance, a, b, interval=self.iv(iv), **self.kw(rc, m))

    def r55(self, rc, m, ri, iv, a, b):
        return self._quiet(lambda: self.two(self.ps.spike_distance, a, b, interval=self.iv(iv), **self.kw(rc, m, ri)))

    def r56(self, rc, mt, m, iv, a, b):
        return self.two(self.ps.spike_sync, a, b, interval=self.iv(iv), max_tau=num(mt), **self.kw(rc, m))

    def r60(self, rc, m, l, ix):
        return self.many(self.ps.isi_profile, l, ix, **self.kw(rc, m))

    def r61(self, rc, m, ri, l, ix):
        return self.many(self.ps.spike_profile, l, ix, **self.kw(rc, m, ri))

    def r62(self, rc, mt, m, l, ix):
        return self.many(self.ps.spike_sync_profile, l, ix, max_tau=num(mt), **self.kw(rc, m))

    def r63(self, rc, mt, m, l, ix):
        return self.many(self.ps.spike_train_order_profile, l, ix, max_tau=num(mt), **self.kw(rc, m))

    def r64(self, rc, m, iv, l, ix):
        return self.many(self.ps.isi_distance, l, ix, interval=self.iv(iv), **self.kw(rc, m))

    def r65(self, rc, m, ri, iv, l, ix):
        return self._quiet(lambda: self.many(self.ps.spike_distance, l, ix, interval=self.iv(iv), **self.kw(rc, m, ri)))

    def r66(self, rc, mt, m, iv, l, ix):
        return self.many(self.ps.spike_sync, l, ix, interval=self.iv(iv), max_tau=num(mt), **self.kw(rc, m))

    def r67(self, rc, m, iv, l, ix):
        return self.ps.isi_distance_matrix(self.trains(l), indices=self.idx(ix), interval=self.iv(iv),
                                           **self.kw(rc, m))

    def r68(self, rc, m, ri, iv, l, ix):
        return self._quiet(lambda: self.ps.spike_distance_matrix(self.trains(l), indices=self.idx(ix),
                                                                 interval=self.iv(iv), **self.kw(rc, m, ri)))

    def r69(self, rc, mt, m, iv, l, ix):
        return self.ps.spike_sync_matrix(self.trains(l), indices=self.idx(ix), interval=self.iv(iv),
                                         max_tau=num(mt), **self.kw(rc, m))

    def r70(self, rc, mt, m, thr, l):
        kept, removed = self.ps.filter_by_spike_sync(self.trains(l), num(thr), max_tau=num(mt),
                                                     return_removed_spikes=True, **self.kw(rc, m))
        return [[k, r] for k, r in zip(kept, removed)]

    def r71(self, rc, nrm, mt, m, a, b):
        return self.two(self.ps.spike_train_order, a, b, normalize=flag(nrm), max_tau=num(mt), **self.kw(rc, m))

    def r72(self, rc, nrm, mt, m, l, ix):
        return self.many(self.ps.spike_train_order, l, ix, normalize=flag(nrm), max_tau=num(mt), **self.kw(rc, m))

    def r73(self, rc, mt, m, l, ix):
        return self.ps.spike_directionality_values(self.trains(l), indices=self.idx(ix),
                                                   max_tau=num(mt), **self.kw(rc, m))

    def r74(self, rc, nrm, mt, m, a, b):
        return self.ps.spike_directionality(self.train(a), self.train(b), normalize=flag(nrm),
                                            max_tau=num(mt), **self.kw(rc, m))

    def r75(self, rc, nrm, mt, m, l, ix):
        return self.ps.spike_directionality_matrix(self.trains(l), normalize=flag(nrm),
                                                   indices=self.idx(ix), max_tau=num(mt),
                                                   **self.kw(rc, m))

    # -- L4
    # -- beyond the listed properties: simulated annealing with a scripted rand() (coq/ModelSort.v)
    def r95(self, D, pat):
        import sys
        sa = self.mods["cython_simulated_annealing"]
        pat = [int(x) for x in pat]
        k = [0]

        class Draw(object):
            """what the scripted rand() returns: usable as `rand() % (N-1)` and as `1.0*rand()`;
            a draw of 0 is presented to the Metropolis comparison as -1 (accept whatever exp gives,
            even its underflow to 0.0), a draw v >= 1 as v (RAND_MAX stand-in 1: reject)"""
            def __init__(self, v):
                self.v = v

            def __mod__(self, m):
                return self.v % m

            def __rmul__(self, other):
                return -1.0 if self.v == 0 else float(self.v)

        def rand():
            v = pat[k[0] % len(pat)] if pat else 0
            k[0] += 1
            return Draw(v)
        sa.rand = rand
        m = sys.modules["pyspike.spike_directionality"]
        p, A, it = m._optimal_spike_train_sorting_from_matrix(np.array(fl(D), dtype=float), full_output=True)
        return [[int(x) for x in p], float(A), int(it)]

    def r96(self, D, p):
        Dn = np.array(fl(D), dtype=float)
        return [self.ps.permutate_matrix(Dn, [int(x) for x in p]), float(np.sum(np.triu(Dn, 0)))]

    def r80(self, l):
        return self.ps.merge_spike_trains(self.trains(l))

    def r81(self, start, binw, row):
        import tempfile
        import os
        with tempfile.NamedTemporaryFile("w", suffix=".txt", delete=False) as f:
            # np.loadtxt needs a 2-d table: write the row twice
            line = " ".join("1" if b else "0" for b in row)
            f.write(line + "\n" + line + "\n")
            name = f.name
        try:
            sts = self.ps.import_spike_trains_from_time_series(name, float(start), float(binw))
        finally:
            os.unlink(name)
        return sts[0]

    def r82(self, edges, xs):
        vals, e = np.histogram(arr(xs), arr(edges), density=False)
        return vals
