"""runner.py - executes one property's correspondence run and oracle for one
backend in a fresh process:
    python runner.py <prop> <tier> <backend> <seed> <out.json> [<shard> <nshards> [<replay.json>]]
Environment VERIF_EXACT=1: exact mode - the correspondence (Ctx.corr) executes the
library on exact rationals and compares with == (harness/exact.py); the result
gets "exact": true and the exact_* counters.
"""
import json
import os
import sys
import time
import random

sys.path.insert(0, os.path.dirname(os.path.abspath(__file__)))
import backend as backend_mod   # noqa
import core                     # noqa
import adapters                 # noqa
import inputs                   # noqa
import affine                   # noqa


def leaves(v):
    if isinstance(v, (list, tuple)):
        return sum(leaves(x) for x in v)
    return 1


class Ctx(object):
    def __init__(self, prop, tier, backend, seed, shard=0, nshards=1):
        self.shard = shard
        self.nshards = nshards
        self.prop = prop
        self.tier = tier
        self.backend = backend
        self.seed = seed
        self.cy = backend == "cy"
        self.ps, self.mods = backend_mod.load(backend)
        self.impl = adapters.Impl(self.ps, self.mods, backend)
        # exact mode (VERIF_EXACT=1): the correspondence runs the library on exact
        # rationals (harness/exact.py) and compares with ==; everything else (the
        # property oracles, ctx.call) keeps using the float path unchanged
        self.exact = os.environ.get("VERIF_EXACT") == "1"
        self.xstats = None
        if self.exact:
            import exact
            exact.install(self.ps, self.mods)
            self.xstats = exact.Stats()
        self.space = inputs.Space(tier, seed)
        self.rng = random.Random(seed * 1000003 + (1 if self.cy else 0) + 7919 * shard)
        self.corr_evals = 0
        self.oracle_evals = 0
        self.mismatches = []
        self.violations = []
        self.distinct = set()
        self.samples = []
        self.hist = {}
        self.per_routine = {}
        self.notes = []
        self.max_report = 40

    # -- sharding helpers: every worker builds the same deterministic input
    #    lists and takes its own slice
    def part(self, l):
        return l[self.shard::self.nshards]

    def n(self, n):
        return max(1, (n + self.nshards - 1) // self.nshards)

    # -- implementation calls
    def call(self, rid, args):
        return core.call_impl(self.impl.call, rid, args)

    def supports(self, rid):
        return self.backend in adapters.ROUTINES[rid][2]

    # -- correspondence: model routine vs implementation
    def corr(self, cases, nontrivial=None, tol=core.TOL, functional=True, affine_copies=True):
        """functional=True (default: every modelled routine now has its refinement /
        characterisation theorems in coq/Props): an input on which model and
        implementation differ is a failing input - the implementation no longer
        computes the function the theorems are about.  Pass functional=False for
        streams where the model is only a convenience (nothing at present)."""
        self._functional = functional
        cases = [c for c in cases if self.supports(c[0])]
        if not cases:
            return
        if affine_copies:
            # shifted / scaled copies of a deterministic sample (affine.py): recordings that do not
            # start at 0, negative edges, large time stamps - for every modelled routine
            n0 = len(cases)
            cases = affine.extend(cases)
            self.bump("affine_copies", len(cases) - n0)
        mcases = [(rid, ([self.cy] if adapters.ROUTINES[rid][1] else []) + list(args)) for rid, args in cases]
        mout = core.run_model(mcases)
        for (rid, args), mv in zip(cases, mout):
            if self.exact:
                import exact
                d, iv, self._last_exact = exact.compare(self.impl, rid, args, mv, tol, self.xstats)
            else:
                iv = self.call(rid, args)
                d = core.agree(mv, iv, tol)
            self.corr_evals += 1
            name = adapters.ROUTINES[rid][0]
            self.per_routine[name] = self.per_routine.get(name, 0) + 1
            nt = nontrivial(rid, args) if nontrivial else leaves(args) >= 6
            if nt:
                self.distinct.add(hash((rid, core.enc(args))) & 0xffffffffffff)
            if len(self.samples) < 3 and nt and self.rng.random() < 0.01:
                self.samples.append({"routine": name, "backend": self.backend, "args": core.enc(args),
                                     "model": core.enc(_enc_model(mv))})
            if d:
                self.add_mismatch(rid, args, mv, iv, d)

    def corr_values(self, name, rid, items, tol=core.TOL, functional=True):
        """correspondence for routines that need a custom implementation driver:
        items = [(model_args, impl_value_canonical, decode)] where decode maps the
        parsed model value to something comparable with the implementation value"""
        if not items:
            return
        self._functional = functional
        mout = core.run_model([(rid, a) for a, _, _ in items])
        for (a, iv, dec), mv in zip(items, mout):
            self.corr_evals += 1
            self.per_routine[name] = self.per_routine.get(name, 0) + 1
            self.distinct.add(hash((rid, core.enc(a))) & 0xffffffffffff)
            try:
                mvd = core.fl(dec(mv) if dec else mv)
                d = core.agree_ff(mvd, iv, tol)
            except Exception as e:  # undecodable model value
                d = "decode failed: %r" % (e,)
                mvd = mv
            if len(self.samples) < 3 and self.rng.random() < 0.02:
                self.samples.append({"routine": name, "backend": self.backend, "args": core.enc(a)[:400]})
            if d:
                if len(self.mismatches) < self.max_report:
                    self.mismatches.append({"kind": "correspondence", "routine": name, "rid": rid, "backend": self.backend,
                                            "args": core.enc(a), "model": repr(mvd)[:400], "impl": repr(iv)[:400], "diff": d,
                                            "functional": functional, "custom": True,
                                            "shard": self.shard, "nshards": self.nshards})
                    if self.exact:
                        self.mismatches[-1]["exact"] = True

    def add_mismatch(self, rid, args, mv, iv, d):
        if len(self.mismatches) < self.max_report:
            self.mismatches.append({
                "kind": "correspondence", "routine": adapters.ROUTINES[rid][0], "rid": rid,
                "backend": self.backend, "args": core.enc(args),
                "model": core.enc(_enc_model(mv)), "impl": repr(iv)[:400], "diff": d,
                "functional": bool(getattr(self, "_functional", False)),
                "shard": self.shard, "nshards": self.nshards})
            if self.exact:      # found by an exact worker: replay it in exact mode
                self.mismatches[-1]["exact"] = True
                self.mismatches[-1]["exact_value"] = bool(getattr(self, "_last_exact", False))
        else:
            self.notes.append("more correspondence mismatches suppressed")

    # -- oracle bookkeeping
    def check(self, n=1):
        self.oracle_evals += n

    def nontrivial(self, key):
        self.distinct.add(hash(key) & 0xffffffffffff)

    def violate(self, what, call, args, expected=None, got=None, **extra):
        if len(self.violations) < self.max_report:
            v = {"kind": "input", "what": what, "call": call, "backend": self.backend,
                 "args": args if isinstance(args, str) else _safe_enc(args),
                 "expected": _short(expected), "got": _short(got),
                 "shard": self.shard, "nshards": self.nshards}
            v.update(extra)
            if self.exact:
                v["exact"] = True
            self.violations.append(v)

    def sample(self, s):
        if len(self.samples) < 6:
            self.samples.append(s)

    def bump(self, k, n=1):
        self.hist[k] = self.hist.get(k, 0) + n


def _safe_enc(args):
    try:
        return core.enc(args)
    except TypeError:
        def conv(x):
            if isinstance(x, (list, tuple)):
                return [conv(y) for y in x]
            return x if isinstance(x, (int, bool, type(None))) or hasattr(x, "numerator") else str(x)
        try:
            return "repr:" + repr(conv(args))
        except Exception:
            return "repr:" + repr(args)


def _short(v):
    if v is None:
        return None
    s = v if isinstance(v, str) else repr(v)
    return s if len(s) < 400 else s[:400] + "..."


def _enc_model(v):
    # model values may contain Err objects; encode them as strings
    if isinstance(v, core.Err):
        return [0]
    if isinstance(v, list):
        return [_enc_model(x) for x in v]
    return v


def main():
    prop, tier, backend, seed, out = sys.argv[1], sys.argv[2], sys.argv[3], int(sys.argv[4]), sys.argv[5]
    shard = int(sys.argv[6]) if len(sys.argv) > 6 else 0
    nshards = int(sys.argv[7]) if len(sys.argv) > 7 else 1
    import props
    t0 = time.time()
    ctx = Ctx(prop, tier, backend, seed, shard, nshards)
    replay = None
    if len(sys.argv) > 8:
        with open(sys.argv[8]) as f:
            replay = json.load(f)
    if replay is not None:
        props.replay(ctx, replay)
    else:
        props.PROPS[prop](ctx)
    res = {
        "prop": prop, "tier": tier, "backend": backend, "seed": seed,
        "corr_evals": ctx.corr_evals, "oracle_evals": ctx.oracle_evals,
        "mismatches": ctx.mismatches, "violations": ctx.violations,
        "distinct_nontrivial": len(ctx.distinct), "distinct_keys": sorted(ctx.distinct), "shard": shard,
        "samples": ctx.samples,
        "hist": ctx.hist, "per_routine": ctx.per_routine, "notes": sorted(set(ctx.notes)),
        "wall_s": time.time() - t0,
        "exact": ctx.exact,
    }
    if ctx.exact:
        res.update(ctx.xstats.as_dict())
    with open(out, "w") as f:
        json.dump(res, f)


if __name__ == "__main__":
    main()
