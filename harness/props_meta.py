"""props_meta.py - per-property text for the evidence files: how cases are
generated and what counts as distinct / non-trivial, which clauses are theorems
and which are carried by the oracle only, and the assumptions."""

COMMON_RULE = ("inputs: every ordered pair of spike trains with <= 3 (thorough: 4) spikes on the dyadic grid {0,1/8,..,1} ("
               "both edges included: every interleaving / tie / edge / one-spike / empty pattern of that size), crossed with "
               "MRTS in {0,6/g,4/g,2,2/g} and max_tau in {0,1/g,2/g}; plus seeded random trains (<= 7 spikes, k/32 grid, forced shared "
               "spikes and edge spikes) and random lists of 2..5 trains; sharded over worker processes, both backends "
               "(Python fall-back and de-cythonised .pyx).  A case counts as distinct by its canonical argument encoding and "
               "as non-trivial if the trains involved hold >= 2 (lists: >= 3) spikes together.")

META = {}


ALWAYS = ("  In every correspondence stream one case in six is repeated shifted / scaled along the time axis (t -> k*t+c, k a power "
          "of two, c dyadic, e.g. -16, +1000, *8-3; the model is exact over Q), and the adapters vary - deterministically - the "
          "argument types (float / numpy.float64 / int / 0-d array; bool / numpy.bool_ / 0-1; integer spike arrays; "
          "is_sorted=False on sorted data; interval as tuple or list) and the call forms (two trains / list of two / pair "
          "selected by indices out of a longer list / positional trains / numpy index arrays).  One extra worker per backend "
          "re-runs shard 0 with the library executing on exact rationals (compared with ==).")


def meta(pid, proved, tested_only="", rule=COMMON_RULE, assumptions=None):
    META[pid] = {"proved": proved, "tested_only": tested_only, "rule": rule + ALWAYS,
                 "assumptions": assumptions or []}


A_FLOAT = "floating-point rounding is outside the theorems; float results are compared with the exact model within 1e-11 on dyadic inputs"
A_CY = "the .pyx sources are executed under Python semantics (de-cythoniser); a real compiled extension is outside"
A_RQ = "theorems are about the R instance of the polymorphic model; the executed Q instance is tied to it by the kernel-checked parametricity bridge (Bridge.v; the transfer theorems used are restated at the end of each Props file)"

for _p in ["C%02d" % i for i in range(1, 21)]:
    meta(_p, "see coq/Props/%s.v" % _p, assumptions=[A_FLOAT, A_CY, A_RQ])

# ---------------------------------------------------------------------------
meta("C01",
     proved="for ALL valid train pairs and every MRTS: the merge scan of the Python fall-back (model isi_profile_py) returns exactly the declarative ISI profile isi_spec (breakpoints, edge rules, empty trains, trailing trim); the .pyx text computes the same (isi_profile_cy = isi_profile_py); interval lengths > 0 (all divisors non-zero); result well-formed",
     tested_only="that the model is what /repo computes (correspondence: kernels 1/50, both backends, exhaustive <=3 spikes on the 9-point grid x MRTS grid + random), implementation vs extracted isi_spec; float rounding",
     assumptions=[A_FLOAT, A_CY, A_RQ])
meta("C16",
     proved="the window routine (Python and Cython text) never exceeds max_tau for any two cursor contexts when max_tau > 0; pairwise definition: coincident => |difference| < max_tau; enlarging max_tau (or removing the bound) never removes a coincidence; code window = specification window",
     tested_only="None == 0 == omitted through the public API (glue `if max_tau is None: max_tau = 0.0`), the bound observed on sync/order/directionality/filter outputs of the implementation; the link scan = pairwise definition is property C03",
     assumptions=[A_FLOAT, A_CY, A_RQ])
meta("C13",
     proved="np.unique model sorted + same elements; reconcile = declarative spec; common interval [min starts, max ends]; strictly increasing; exactly the input times inside the interval (slack eps); idempotent; identity on valid input; independent of order/repeats of the input times; every multivariate entry point of the model reconciles exactly once (definitional)",
     tested_only="that no function mutates its arguments (numpy aliasing is outside the value model: snapshot monitor over 17 public calls per input); bivariate entry points on messy input vs clean input (oracle on the implementation, both backends)",
     rule="random lists of 1-4 trains with unsorted/repeated/out-of-range times and different edges (k/8 grid) for reconcile itself; random lists of 2-5 valid trains made messy (shuffled, repeats) for 23 entry points x keyword settings; distinct by canonical encoding",
     assumptions=[A_FLOAT, A_CY, A_RQ, "eps = 1e-6 is the rational 1/10^6 in the model and the nearest double in the code"])
meta("C14",
     proved="pairs generated from an index list = pairs over positions looked up through the list; for every admissible index list (any subset/order/repeats) each generic multivariate driver (distance, profile with divide-and-conquer, matrix, SPIKE-Sync, order, directionality values) on (list, indices) equals the driver on the selected sub-list; list of two = two-train result for every measure (scalars and profiles); KNOWN FINDING F10 as theorem C14_auto_with_indices_refuted (the automatic threshold of a multivariate call ignores `indices`)",
     tested_only="argument-count dispatch of the Python entry points (two trains / list / varargs), forwarding of interval/max_tau/MRTS/RI through every form: oracle on the implementation (13 functions, random subsets, both backends); MRTS='auto' with a proper subset is known finding F10",
     rule="random lists of 2-5 trains (k/16 grid, shared/edge spikes, repeated trains), random index subsets of size >= 2 in random order, random MRTS/max_tau/RI/interval; distinct by canonical encoding",
     assumptions=[A_FLOAT, A_CY, A_RQ])
meta("C20",
     proved="merge: permutation of the concatenated spikes, sorted, first train's interval; histogram over given edges: each bin = number of pooled spikes in [e_k,e_k+1) (last bin closed), counts sum to the number of spikes inside [first edge,last edge]",
     tested_only="np.linspace bin edges / int(T/bin) bin count and the Poisson generator (sorted, inside, edges) on the implementation; see Props/C20.v for the psth-edge and Poisson-prefix theorems once ModelIO is in",
     rule="random lists of 2-5 trains (k/16 grid) with duplicates across trains and empty trains, bin sizes 1/n and non-dividing sizes; 300+ seeded Poisson trains; distinct by canonical encoding",
     assumptions=[A_FLOAT, A_RQ, "np.histogram/np.linspace/np.random are numpy primitives: modelled (hist_counts) or taken as inputs (draws)"])
meta("C11",
     proved="df_add: interior of the result = one entry per distinct event time, sums where shared (df_add_spec), edges kept, result well-formed, commutative on events; integral = sums over events strictly inside (a,b) / all events / several intervals; average = ratio or 1; integral additive under add on every open interval; plottable k=0 = y/mp; smoothing window k>0 = windowed mean of unit contributions (smooth_spec), y/mp when the multiplicity reaches the window, values in [0,1]",
     tested_only="histories of adds through the multivariate profiles (C06); model = /repo",
     rule="random discrete profiles with <= 4 events on the k/8 grid, events on the edge times, operands without events, multiplicities 1-3; all intervals on the k/16 grid sampled; distinct by canonical encoding",
     assumptions=[A_FLOAT, A_CY, A_RQ])

meta("C02",
     proved="for ALL valid train pairs, RI in {F,T}, every MRTS: the SPIKE scan of the Python fall-back (incremental nearest-spike search restarted at the other cursor, mirrored auxiliary spikes, simultaneous-spike branch, edge branches) = declarative spike_spec at both one-sided limits of every piece; early-exit nearest-spike search = global minimum; breakpoints = ISI breakpoints; both limits 0 at shared spikes; .pyx text computes the same; plain / RI formulas",
     tested_only="model = /repo (correspondence kernels 2/51 + helpers 3/4, both backends); implementation vs extracted spike_spec; float rounding",
     assumptions=[A_FLOAT, A_CY, A_RQ])
meta("C03",
     proved="for ALL valid train pairs, every max_tau and MRTS: merged scan with look-back write = pairwise global definition sync_spec; window = definition; strict ties; mutual; one-to-one; adjacency; balanced counts; per-spike scan = single_spec; scan is clean (look-back never hits a marked / multiplicity-2 entry)",
     tested_only="model = /repo (kernels 5/6/7/52 both backends incl. exact ties on the dyadic grid); implementation vs extracted sync_spec/single_spec",
     assumptions=[A_FLOAT, A_CY, A_RQ])
meta("C04",
     proved="order profile = order_spec and directionality values = dir_spec for ALL valid pairs (same coincidence relation as C03); sign convention per pair; order values in {-1,0,1}; swap negates the order profile / exchanges value lists / negates un-normalised directionality (both backends); D(A,A)=0; matrix antisymmetric, zero diagonal; synfire relation F = 2*sum_{i<j} D_ij/((N-1)*spikes) (both backends); index selections = sub-list; per-spike values of N trains = mean over the other N-1 trains of the pairwise value",
     tested_only="model = /repo (kernels 8/9, API 63/71-75 with index selections, both backends); all-empty input is known finding F13",
     assumptions=[A_FLOAT, A_CY, A_RQ])
meta("C05",
     proved="bivariate: ISI distance = pwc average of the profile for both backends, whole recording and every sub-interval; compiled single-pass SPIKE distance = average of the profile; SPIKE-Sync values = event sums of the profile strictly inside the interval (both backends), ratio with the convention 1; order (c, mp) = profile sums (both backends); backends agree; multivariate ISI (C06), SPIKE and SPIKE-Sync scalars = average / ratio of the multivariate profile on every interval",
     tested_only="MRTS='auto' plumbing of the scalar vs the profile route and index selections through the public API (oracle on the implementation, both backends); multivariate order value vs order profile (oracle; the pooled sums are C04's synfire theorem)",
     assumptions=[A_FLOAT, A_CY, A_RQ])
meta("C08",
     proved="shift and scale (with MRTS, max_tau scaled) transform only the time axis of the ISI, SPIKE, SPIKE-Sync, order profiles and leave directionality values / filter indicators unchanged; time reversal mirrors the ISI, SPIKE (limits exchanged) and SPIKE-Sync profiles, mirrors and negates order/directionality (spec level), integrals unchanged; API level, both backends: ISI and SPIKE distance and SPIKE-Sync value over the whole recording or any sub-interval (moved along), spike-train order and directionality values are unchanged by a shift and by a scaling with k > 0 (MRTS, max_tau scaled along); under time reversal the ISI / SPIKE / SPIKE-Sync values are unchanged and directionality / un-normalised order change sign, the normalised order for every input with a spike; the same invariances for the multivariate ISI / SPIKE / SPIKE-Sync / order values of every list of trains (shift, scale; mirror over the whole recording); KNOWN FINDING F13 as theorem (order of all-empty input is +1 in both orientations)",
     tested_only="the same relations for the multivariate PROFILES, for mirrored sub-intervals and with MRTS='auto' (oracle on the implementation, both backends); order value of all-empty input is known finding F13",
     rule="exhaustive <=3-spike pairs on the 9-point grid (sampled 2500) + random pairs, random dyadic shift c and scale k (ties preserved), mirror about the midpoint; nine API results per pair; distinct by canonical encoding",
     assumptions=[A_FLOAT, A_CY, A_RQ])
meta("C09",
     proved="pwc_add / pwl_add (merge + tail copies) = declarative pointwise sum on the strictly increasing union; values, integrals add; commutative, associative (pwc), mul pointwise; for EVERY history of add/mul/copy/new: no error, well-formed, exactly the tracked linear combination (values at generic times, integral, breakpoints), also pwl; heap model: no two objects share an array, add/mul leave every other object untouched, copies independent, heap refines the value model",
     tested_only="that numpy objects behave like the heap model (aliasing monitor: np.shares_memory between all live objects, operand snapshots) and model = /repo for the add routines / class methods (both backends)",
     rule="all pairs of breakpoint sets with <=3 (thorough: <=4, sampled) interior points on the 1/8 grid with random values; random histories of <= 6 ops over 2-3 objects with aliasing monitor; a+b+c in all orders; distinct by canonical encoding",
     assumptions=[A_FLOAT, A_CY, A_RQ, "Heap.v is a model of CPython/numpy object semantics (constructor copies, add rebinds, mul_scalar in place); its tie to numpy is the run-time monitor"])
meta("C10",
     proved="pwc/pwl integral over every [a,b] inside the support = exact overlap integral (both index-search branches); full support; additivity over adjacent intervals; ValueError bounds (pwc); average over one / several intervals; evaluation = piece value / mean of limits / one-sided limit; scalar path = list path; pwl plottable arrays",
     tested_only="model = /repo for integral/avrg/__call__/get_plottable_data (py backend; class methods are pure Python); integer-valued input regression (fix 1359216)",
     rule="random functions with <= 4 interior breakpoints on the 1/8 grid, values from {-2,-1,0,1/2,1,3}; intervals and evaluation times on the 1/16 grid (all relative positions) plus times 2^-40 beside a breakpoint; distinct by canonical encoding",
     assumptions=[A_FLOAT, A_RQ])
meta("C12",
     proved="every routine whose .pyx text differs from the Python text is modelled separately and proved equal: Interpolate, get_tau, ISI profile (running nu), auxiliary spikes, SPIKE profile, sync/order/directionality/per-spike scans with the Cython window; single-pass isi/spike distance = average of the profile; single-pass coincidence / order / directionality values = sums over the profile",
     tested_only="the .pyx files themselves are executed only through the de-cythoniser (Python semantics incl. cdivision emulation) against the model and against the fall-back on identical arguments; literal-duplicate routines (three add routines) share one model; C-level behaviour of a real build is outside",
     assumptions=[A_FLOAT, A_CY, A_RQ])
meta("C17",
     proved="filter = declarative filter_spec for all lists of valid trains, thresholds, max_tau, MRTS, both backends; kept iff count STRICTLY above thr*(N-1), count from the pairwise coincidence definition; per-spike scan = pairwise definition; kept/removed = partition in original order on the original interval; monotone in the threshold; for a spike time unique to its train the multivariate profile entry has multiplicity N-1 and value = the count (kept iff value/multiplicity > thr)",
     tested_only="inputs unchanged (snapshot monitor); model = /repo",
     rule="random lists of 2-5 trains (k/16 grid) + all triples of <=2-spike trains on the 5-point grid (sampled), thresholds k/(N-1) hit exactly and k/16; distinct by canonical encoding",
     assumptions=[A_FLOAT, A_CY, A_RQ])
meta("C19",
     proved="framing: split(join) = tokens; save then load returns the same trains in the same order (empty trains preserved / dropped with ignore_empty_lines); comment lines skipped; time-series import = start+(k+1)*bin with edges [start, start+n*bin]; scalar edge = [0, edge]",
     tested_only="decimal conversion (repr round trip at precision 17, correct rounding at lower precision), np.fromstring's whitespace rules, sorting of unsorted lines: round trip on the implementation with random doubles, 5 separators, 4 precisions, 3 comment strings; token-level model vs implementation",
     rule="random lists of 1-5 trains with 0-9 spikes (4 magnitudes), separators ' ', ',', ';', tab, ', ', precisions 3/8/12/17, comment strings #, %, //; random 0/1 matrices; distinct by iteration",
     assumptions=[A_FLOAT, "PARTIAL BY NATURE: float formatting/parsing is CPython/libc behaviour outside the model (tokens are opaque)"])

meta("C06",
     proved="SPIKE multivariate profile: both one-sided limits at every time = mean of the pair limits, breakpoints = union; divide-and-conquer summation = plain sum for closed associative add routines; ISI multivariate profile = mean of the N(N-1)/2 pair profiles at every time, breakpoints = strictly increasing union, independent of list order (representation equality); multivariate ISI distance = mean of pair distances = average of the multivariate profile on every interval, order independent; SPIKE-Sync multivariate profile = per-time sums of counts/multiplicities over all pairs, order independent; matrices = bivariate values, symmetric, diagonal 0 / 1; generic pair mean invariant under permutation for symmetric measures",
     tested_only="permutation invariance of the SPIKE multivariate profile as a representation (oracle on the implementation; pointwise it follows from the mean theorem); model = /repo",
     rule="random lists of 2-5 trains (k/16 grid, empty / repeated / shared-spike trains) + all triples of <=2-spike trains on the 5-point grid (sampled); one random permutation per list; distinct by canonical encoding",
     assumptions=[A_FLOAT, A_CY, A_RQ])
meta("C07",
     proved="ISI profile values and distance in [0,1]; SPIKE profile values in [0,1] (incl. the non-linear upper bound, supremum 1) for plain/RI/adaptive; SPIKE-Sync entries in [0, multiplicity], value in [0,1] on every interval; order in [-1,1]; directionality values in {-1,0,1}; ISI / SPIKE / SPIKE-Sync profiles symmetric in their arguments (hence all scalars, both backends); self comparison: ISI 0, SPIKE 0, SPIKE-Sync 1, directionality 0; at API level and for both backends: SPIKE and ISI distance over the whole recording and over every admissible sub-interval lie in [0,1], are symmetric, and are 0 for a train with itself; multivariate ISI / SPIKE / SPIKE-Sync values in [0,1]",
     tested_only="finiteness of float results; the same axioms through index selections and matrices (oracle on the implementation)",
     rule="exhaustive <=3-spike pairs on the 9-point grid (sampled 3500) + random pairs; random MRTS/max_tau/RI, whole recording and one random sub-interval; distinct by canonical encoding",
     assumptions=[A_FLOAT, A_CY, A_RQ])
meta("C15",
     proved="raising MRTS never increases an ISI or SPIKE profile value (breakpoints unchanged) and never removes a SPIKE-Sync coincidence; MRTS below every ISI of the trains involved changes nothing (ISI, SPIKE, SPIKE-Sync); isi_lengths = interval lengths of the definition (edge rules), all positive; thresh^2 = pooled mean square; MRTS=0 formulas are the plain ones",
     tested_only="'auto' plumbing per entry point (MRTS='auto' == passing default_thresh explicitly; bivariate from the pair, multivariate from the list): oracle on the implementation, both backends; np.sqrt; MRTS omitted == 0",
     rule="exhaustive <=3-spike pairs on the 9-point grid (sampled 2500) + random pairs, ordered MRTS pairs from {0,1/8,1/4,3/8,1/2,1,2}, a threshold below every ISI, 'auto'; random lists for the multivariate forms; distinct by canonical encoding",
     assumptions=[A_FLOAT, A_CY, A_RQ, "sqrt is not modelled: the theorems speak about the squared threshold"])

meta("C18",
     proved="for every list (>= 2, any admissible index selection) of valid trains incl. empty / one-spike / edge-spike / identical trains, with Reconcile on or off and both backends: all four profile functions (bivariate and multivariate) return Ok with a well-formed profile from t_start to t_end (strictly increasing axis, consistent lengths; discrete: edge entries + strictly increasing events); every divisor of an ISI / SPIKE profile value is positive; all scalar, matrix, values and filter functions return Ok (matrices square of the right size) on the whole recording and every admissible sub-interval; an out-of-range index is the only modelled error",
     tested_only="that the implementation raises no exception the model does not have (numpy-internal errors) and that float results are finite: 121 degenerate pairs + random lists with degenerate members through every public function and call form, both backends",
     rule="all ordered pairs of 11 degenerate trains ([], [0], [1], [1/2], [0,1], ...) plus 300 (thorough 4000) random lists of 3-5 trains drawn from the degenerate set and random trains; random MRTS / max_tau / RI / sub-interval; every public function in every call form; distinct by canonical encoding",
     assumptions=[A_FLOAT, A_CY, A_RQ])
