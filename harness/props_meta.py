"""props_meta.py - per-property text for the evidence files: how cases are
generated and what counts as distinct / non-trivial, which clauses are theorems
and which are carried by the oracle only, and the assumptions."""

COMMON_RULE = ("inputs: every ordered pair of spike trains with <= 3 spikes on the grid {0,1/g,..,1} (g=6 quick, g=8 thorough; "
               "both edges included: every interleaving / tie / edge / one-spike / empty pattern of that size), crossed with "
               "MRTS in {0,2/g,4/g,2} and max_tau in {0,1/g,2/g}; plus seeded random trains (<= 7 spikes, k/32 grid, forced shared "
               "spikes and edge spikes) and random lists of 2..5 trains; sharded over worker processes, both backends "
               "(Python fall-back and de-cythonised .pyx).  A case counts as distinct by its canonical argument encoding and "
               "as non-trivial if the trains involved hold >= 2 (lists: >= 3) spikes together.")

META = {}


def meta(pid, proved, tested_only="", rule=COMMON_RULE, assumptions=None):
    META[pid] = {"proved": proved, "tested_only": tested_only, "rule": rule,
                 "assumptions": assumptions or []}


A_FLOAT = "floating-point rounding is outside the theorems; float results are compared with the exact model within 1e-9 on dyadic inputs"
A_CY = "the .pyx sources are executed under Python semantics (de-cythoniser); a real compiled extension is outside"
A_RQ = "theorems are about the R instance of the polymorphic model; the executed instance is Q (same terms)"

for _p in ["C%02d" % i for i in range(1, 21)]:
    meta(_p, "see coq/Props/%s.v" % _p, assumptions=[A_FLOAT, A_CY, A_RQ])
