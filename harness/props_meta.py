"""props_meta.py - per-property text for the evidence files: how cases are
generated and what counts as distinct / non-trivial, which clauses are theorems
and which are carried by the oracle only, and the assumptions."""

COMMON_RULE = ("inputs: every ordered pair of spike trains with <= 3 spikes on the grid {0,1/g,..,1} (g=6 quick, g=8 thorough; "
               "both edges included: every interleaving / tie / edge / one-spike / empty pattern of that size), crossed with "
               "MRTS in {0,2/g,4/g,2} and max_tau in {0,1/g,2/g}; plus seeded random trains (<= 7 spikes, k/32 grid, forced shared "
               "spikes and edge spikes) and random lists of 2..5 trains; sharded over worker processes, both backends "
               "(Python fall-back and de-cythonised .pyx).  A case counts as distinct by its canonical argument encoding and "
               "as non-trivial if the trains involved hold >= 2 (lists: >= 3) spikes together.")

META = {}


def meta(pid, proved, tested_only="", rule=COMMON_RULE, assumptions=None):
    META[pid] = {"proved": proved, "tested_only": tested_only, "rule": rule,
                 "assumptions": assumptions or []}


A_FLOAT = "floating-point rounding is outside the theorems; float results are compared with the exact model within 1e-9 on dyadic inputs"
A_CY = "the .pyx sources are executed under Python semantics (de-cythoniser); a real compiled extension is outside"
A_RQ = "theorems are about the R instance of the polymorphic model; the executed instance is Q (same terms)"

for _p in ["C%02d" % i for i in range(1, 21)]:
    meta(_p, "see coq/Props/%s.v" % _p, assumptions=[A_FLOAT, A_CY, A_RQ])

# ---------------------------------------------------------------------------
meta("C01",
     proved="for ALL valid train pairs and every MRTS: the merge scan of the Python fall-back (model isi_profile_py) returns exactly the declarative ISI profile isi_spec (breakpoints, edge rules, empty trains, trailing trim); the .pyx text computes the same (isi_profile_cy = isi_profile_py); interval lengths > 0 (all divisors non-zero); result well-formed",
     tested_only="that the model is what /repo computes (correspondence: kernels 1/50, both backends, exhaustive <=3 spikes on the 9-point grid x MRTS grid + random), implementation vs extracted isi_spec; float rounding",
     assumptions=[A_FLOAT, A_CY, A_RQ])
meta("C16",
     proved="the window routine (Python and Cython text) never exceeds max_tau for any two cursor contexts when max_tau > 0; pairwise definition: coincident => |difference| < max_tau; enlarging max_tau (or removing the bound) never removes a coincidence; code window = specification window",
     tested_only="None == 0 == omitted through the public API (glue `if max_tau is None: max_tau = 0.0`), the bound observed on sync/order/directionality/filter outputs of the implementation; the link scan = pairwise definition is property C03",
     assumptions=[A_FLOAT, A_CY, A_RQ])
meta("C13",
     proved="np.unique model sorted + same elements; reconcile = declarative spec; common interval [min starts, max ends]; strictly increasing; exactly the input times inside the interval (slack eps); idempotent; identity on valid input; independent of order/repeats of the input times; every multivariate entry point of the model reconciles exactly once (definitional)",
     tested_only="that no function mutates its arguments (numpy aliasing is outside the value model: snapshot monitor over 17 public calls per input); bivariate entry points on messy input vs clean input (oracle on the implementation, both backends)",
     rule="random lists of 1-4 trains with unsorted/repeated/out-of-range times and different edges (k/8 grid) for reconcile itself; random lists of 2-5 valid trains made messy (shuffled, repeats) for 23 entry points x keyword settings; distinct by canonical encoding",
     assumptions=[A_FLOAT, A_CY, A_RQ, "eps = 1e-6 is the rational 1/10^6 in the model and the nearest double in the code"])
meta("C14",
     proved="pairs generated from an index list = pairs over positions looked up through the list; for every admissible index list (any subset/order/repeats) each generic multivariate driver (distance, profile with divide-and-conquer, matrix, SPIKE-Sync, order, directionality values) on (list, indices) equals the driver on the selected sub-list; list of two = bivariate value",
     tested_only="argument-count dispatch of the Python entry points (two trains / list / varargs), forwarding of interval/max_tau/MRTS/RI through every form: oracle on the implementation (13 functions, random subsets, both backends); MRTS='auto' with a proper subset is known finding F10",
     rule="random lists of 2-5 trains (k/16 grid, shared/edge spikes, repeated trains), random index subsets of size >= 2 in random order, random MRTS/max_tau/RI/interval; distinct by canonical encoding",
     assumptions=[A_FLOAT, A_CY, A_RQ])
meta("C20",
     proved="merge: permutation of the concatenated spikes, sorted, first train's interval; histogram over given edges: each bin = number of pooled spikes in [e_k,e_k+1) (last bin closed), counts sum to the number of spikes inside [first edge,last edge]",
     tested_only="np.linspace bin edges / int(T/bin) bin count and the Poisson generator (sorted, inside, edges) on the implementation; see Props/C20.v for the psth-edge and Poisson-prefix theorems once ModelIO is in",
     rule="random lists of 2-5 trains (k/16 grid) with duplicates across trains and empty trains, bin sizes 1/n and non-dividing sizes; 300+ seeded Poisson trains; distinct by canonical encoding",
     assumptions=[A_FLOAT, A_RQ, "np.histogram/np.linspace/np.random are numpy primitives: modelled (hist_counts) or taken as inputs (draws)"])
meta("C11",
     proved="df_add: interior of the result = one entry per distinct event time, sums where shared (df_add_spec), edges kept, result well-formed, commutative on events; integral = sums over events strictly inside (a,b) / all events / several intervals; average = ratio or 1; integral additive under add on every open interval; plottable k=0 = y/mp",
     tested_only="smoothing window k > 0 of get_plottable_data (model df_plottable vs implementation for k = 1,2,3); histories of adds through the multivariate profiles",
     rule="random discrete profiles with <= 4 events on the k/8 grid, events on the edge times, operands without events, multiplicities 1-3; all intervals on the k/16 grid sampled; distinct by canonical encoding",
     assumptions=[A_FLOAT, A_CY, A_RQ])
