"""core.py - value encoding shared with the extracted OCaml driver, running the
model, canonicalising implementation results, and comparing the two."""
import math
import os
import subprocess
import sys
from fractions import Fraction

HERE = os.path.dirname(os.path.abspath(__file__))
VERIF = os.path.dirname(HERE)
MODELRUN = os.path.join(VERIF, "extracted", "modelrun")

TOL = 1e-11


class Nat(int):
    """marks an integer that the model expects as a natural number"""
    pass


def enc(v):
    if v is None:
        return "N"
    if isinstance(v, bool):
        return "T" if v else "F"
    if isinstance(v, Nat):
        return "#%d" % int(v)
    if isinstance(v, Fraction):
        return "%d/%d" % (v.numerator, v.denominator) if v.denominator != 1 else "%d" % v.numerator
    if isinstance(v, int):
        return "%d" % v
    if isinstance(v, (list, tuple)):
        return "( " + " ".join(enc(x) for x in v) + " )"
    raise TypeError("cannot encode %r" % (v,))


def _parse(tokens, i):
    t = tokens[i]
    if t == "(":
        out = []
        i += 1
        while tokens[i] != ")":
            v, i = _parse(tokens, i)
            out.append(v)
        return out, i + 1
    if t == "T":
        return True, i + 1
    if t == "F":
        return False, i + 1
    if t == "N":
        return None, i + 1
    if t.startswith("#"):
        return Nat(int(t[1:])), i + 1
    if t.startswith("!"):
        return Err(t[1:]), i + 1
    return Fraction(t), i + 1


class Err(object):
    def __init__(self, name):
        self.name = name

    def __repr__(self):
        return "!" + self.name

    def __eq__(self, other):
        return isinstance(other, Err) and other.name == self.name

    def __hash__(self):
        return hash(("Err", self.name))


def parse_out(line):
    toks = line.replace("(", " ( ").replace(")", " ) ").split()
    v, i = _parse(toks, 0)
    return v


def run_model(cases):
    """cases: list of (rid, [args]) ; returns list of parsed values"""
    if not cases:
        return []
    inp = "\n".join("%d %s" % (rid, " ".join(enc(a) for a in args)) for rid, args in cases) + "\n"
    p = subprocess.run([MODELRUN], input=inp.encode(), stdout=subprocess.PIPE,
                       stderr=subprocess.PIPE, check=False)
    if p.returncode != 0:
        raise RuntimeError("modelrun failed: " + p.stderr.decode()[:500])
    lines = p.stdout.decode().split("\n")
    if lines and lines[-1] == "":
        lines.pop()
    if len(lines) != len(cases):
        raise RuntimeError("modelrun returned %d lines for %d cases" % (len(lines), len(cases)))
    return [parse_out(l) for l in lines]


def canon(v, exact=False):
    """canonicalise an implementation result: nested lists of python floats /
    bools / None / Err.
    exact=True (results of an exact execution, harness/exact.py): exact numbers
    (exact.Ex, Fraction, integers) become Fractions, a poisoned Ex becomes nan,
    and floats - values that some step of the library computed in binary64 -
    stay floats, so that `agree` knows which leaves may be compared with ==.
    With exact=False an Ex is seen through its float view."""
    import numpy as np
    if isinstance(v, Err):
        return v
    if v is None:
        return None
    if isinstance(v, (bool, np.bool_)):
        return bool(v)
    if isinstance(v, np.ndarray):
        return [canon(x, exact) for x in v.tolist()]
    if isinstance(v, (list, tuple)):
        return [canon(x, exact) for x in v]
    if isinstance(v, Fraction):
        return v if exact else float(v)
    if isinstance(v, (int, float, np.integer, np.floating)):
        if exact and isinstance(v, (int, np.integer)):
            return Fraction(int(v))
        return float(v)
    if "exact" in sys.modules and isinstance(v, sys.modules["exact"].Ex):
        if exact and not v.is_poison():
            return v.v
        return float(v)
    if hasattr(v, "spikes") and hasattr(v, "t_start"):
        if exact:
            # SpikeTrain stores its edges as float(edge): copies of the inputs, which the
            # adapters checked to be binary64 numbers - their exact values are meant
            return [canon(v.spikes, True), _edge_exact(v.t_start), _edge_exact(v.t_end)]
        return [canon(v.spikes), float(v.t_start), float(v.t_end)]
    if hasattr(v, "mp") and hasattr(v, "x"):
        return [canon(v.x, exact), canon(v.y, exact), canon(v.mp, exact)]
    if hasattr(v, "y1") and hasattr(v, "x"):
        return [canon(v.x, exact), canon(v.y1, exact), canon(v.y2, exact)]
    if hasattr(v, "y") and hasattr(v, "x"):
        return [canon(v.x, exact), canon(v.y, exact)]
    raise TypeError("cannot canonicalise %r" % (type(v),))


def _edge_exact(x):
    c = canon(x, True)
    if isinstance(c, float) and not (math.isnan(c) or math.isinf(c)):
        return Fraction(c)
    return c


def close(a, b, tol=TOL):
    if math.isnan(a) or math.isnan(b) or math.isinf(a) or math.isinf(b):
        return False
    return abs(a - b) <= tol * max(1.0, abs(a), abs(b))


def agree(m, i, tol=TOL, path="", stats=None):
    """m: model value (Fractions), i: canonical implementation value (floats; in
    exact mode Fractions, see canon).  An implementation Fraction is compared
    with ==, an implementation float with the tolerance; nan never agrees with a
    number.  stats: optional dict, counts the leaves compared each way
    (keys "eq" and "tol").
    returns None if they agree, else a string describing the first difference"""
    if isinstance(m, Err) or isinstance(i, Err):
        if isinstance(m, Err) and isinstance(i, Err) and m.name == i.name:
            return None
        return "%s: model=%r impl=%r" % (path or ".", m, _short(i))
    if isinstance(m, list):
        if not isinstance(i, list):
            return "%s: model list, impl %r" % (path or ".", _short(i))
        if len(m) != len(i):
            return "%s: length model=%d impl=%d" % (path or ".", len(m), len(i))
        for k, (a, b) in enumerate(zip(m, i)):
            d = agree(a, b, tol, path + "[%d]" % k, stats)
            if d:
                return d
        return None
    if isinstance(m, bool) or m is None:
        return None if m == i else "%s: model=%r impl=%r" % (path or ".", m, i)
    if isinstance(m, (Fraction, int)):
        if isinstance(i, Fraction):         # exact execution: no tolerance
            if stats is not None:
                stats["eq"] = stats.get("eq", 0) + 1
            return None if m == i else "%s: model=%s impl=%s (exact comparison; difference %.6g)" % (
                path or ".", m, i, float(i - m))
        if isinstance(i, bool) or not isinstance(i, float):
            return "%s: model number, impl %r" % (path or ".", _short(i))
        if stats is not None:
            stats["tol"] = stats.get("tol", 0) + 1
        return None if close(float(m), i, tol) else "%s: model=%s (%.12g) impl=%.12g" % (
            path or ".", m, float(m), i)
    return "%s: unexpected model value %r" % (path or ".", m)


def _short(v):
    s = repr(v)
    return s if len(s) < 200 else s[:200] + "..."


def agree_ff(a, b, tol=TOL, path=""):
    """compare two canonical implementation values (floats)"""
    if isinstance(a, Err) or isinstance(b, Err):
        return None if a == b else "%s: %r vs %r" % (path or ".", _short(a), _short(b))
    if isinstance(a, list):
        if not isinstance(b, list) or len(a) != len(b):
            return "%s: shape %s vs %s" % (path or ".", _short(a), _short(b))
        for k, (x, y) in enumerate(zip(a, b)):
            d = agree_ff(x, y, tol, path + "[%d]" % k)
            if d:
                return d
        return None
    if isinstance(a, float) and isinstance(b, float):
        return None if close(a, b, tol) else "%s: %.12g vs %.12g" % (path or ".", a, b)
    return None if a == b else "%s: %r vs %r" % (path or ".", a, b)


EXC = (AssertionError, IndexError, ValueError, NotImplementedError, ZeroDivisionError)


def call_impl(fn, *args, **kw):
    """run an implementation adapter, mapping exceptions to Err values"""
    import warnings
    try:
        with warnings.catch_warnings():
            warnings.simplefilter("ignore")
            return canon(fn(*args, **kw))
    except EXC as e:
        return Err(type(e).__name__)
    except Exception as e:  # anything else is reported by its type name
        return Err(type(e).__name__)


def call_impl_exact(fn, passthrough=()):
    """as call_impl for an exact execution: the result is canonicalised with
    exact=True; exceptions of the types in `passthrough` are re-raised"""
    import warnings
    try:
        with warnings.catch_warnings():
            warnings.simplefilter("ignore")
            return canon(fn(), exact=True)
    except passthrough:
        raise
    except Exception as e:
        return Err(type(e).__name__)


def all_finite(v):
    if isinstance(v, Err):
        return False
    if isinstance(v, list):
        return all(all_finite(x) for x in v)
    if isinstance(v, float):
        return not (math.isnan(v) or math.isinf(v))
    return True


def F(x, d=1):
    return Fraction(x, d)


def fl(v):
    """Fractions -> floats, recursively"""
    if isinstance(v, (list, tuple)):
        return [fl(x) for x in v]
    if isinstance(v, Fraction):
        return float(v)
    return v
