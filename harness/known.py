"""known.py - KNOWN_FINDINGS.txt: parsing and matching.

File format, one record per line (never written at run time):
  known: property=C12,C05 id=F12 match={"backend": "cy", "pattern": "two_trains_single_spike_on_t_end"} :: what fails
  fixed: property=C16 <commit> what failed            (suppresses nothing)

A `known:` record matches a violation / mismatch record only if every key of
its matcher agrees: "backend", "routine" (list of routine names or rids) and
"pattern" (a named predicate over the *arguments* of the failing call, below),
so that a different violation of the same property is still reported."""
import json
import re
from fractions import Fraction

import core

ALLOWED_AXIOMS = {
    # the axioms the Coq standard library itself declares for the real numbers / classical logic
    "ClassicalDedekindReals.sig_forall_dec", "ClassicalDedekindReals.sig_not_dec",
    "FunctionalExtensionality.functional_extensionality_dep",
    "Classical_Prop.classic", "ClassicalEpsilon.constructive_indefinite_description",
    "Eqdep.Eq_rect_eq.eq_rect_eq", "ProofIrrelevance.proof_irrelevance", "JMeq.JMeq_eq",
    "PropExtensionality.propositional_extensionality",
    "functional_extensionality_dep", "sig_forall_dec", "sig_not_dec", "classic",
}


def load(path):
    out = []
    try:
        lines = open(path).read().split("\n")
    except IOError:
        return out
    for ln in lines:
        ln = ln.strip()
        if not ln.startswith("known:"):
            continue
        m = re.match(r"known:\s+property=([\w,]+)\s+id=(\w+)\s+match=(\{.*?\})\s+::\s+(.*)$", ln)
        if not m:
            raise ValueError("bad KNOWN_FINDINGS line: " + ln)
        out.append({"props": m.group(1).split(","), "id": m.group(2), "match": json.loads(m.group(3)),
                    "what": m.group(4)})
    return out


def _trains_of(v):
    """(list of spike lists, t_end) found in the encoded args of a failing call"""
    args = v.get("args")
    if not isinstance(args, str):
        return [], None
    try:
        a = core.parse_out(args)
    except Exception:
        return [], None
    trains, te = [], [None]

    def is_num(x):
        return isinstance(x, (Fraction, int)) and not isinstance(x, bool)

    def is_numlist(x):
        return isinstance(x, list) and all(is_num(y) for y in x)

    def walk(x):
        if isinstance(x, list):
            if len(x) == 3 and is_numlist(x[0]) and is_num(x[1]) and is_num(x[2]):
                trains.append(x[0])
                te[0] = x[2]
                return
            for y in x:
                walk(y)
    walk(a)
    if not trains and isinstance(a, list):
        # kernel form: s1 s2 ts te ...
        k = [i for i, x in enumerate(a) if is_numlist(x)]
        if len(k) >= 2 and len(a) > k[1] + 2 and is_num(a[k[1] + 1]) and is_num(a[k[1] + 2]):
            trains = [a[k[0]], a[k[1]]]
            te[0] = a[k[1] + 2]
    return trains, te[0]


def pat_two_trains_single_spike_on_t_end(v):
    trains, te = _trains_of(v)
    if te is None:
        return False
    return sum(1 for t in trains if len(t) == 1 and t[0] == te) >= 2


def pat_all_trains_empty(v):
    trains, te = _trains_of(v)
    return bool(trains) and all(len(t) == 0 for t in trains)


PATTERNS = {
    "two_trains_single_spike_on_t_end": pat_two_trains_single_spike_on_t_end,
    "all_trains_empty": pat_all_trains_empty,
}


def match(records, prop, v):
    for k in records:
        if prop not in k["props"]:
            continue
        mt = k["match"]
        if "backend" in mt and v.get("backend") != mt["backend"]:
            continue
        if "routine" in mt and not (v.get("routine") in mt["routine"] or v.get("rid") in mt["routine"]
                                    or str(v.get("call")) in [str(x) for x in mt["routine"]]):
            continue
        if "what" in mt and mt["what"] not in str(v.get("what", "")) + str(v.get("diff", "")):
            continue
        if "pattern" in mt and not PATTERNS[mt["pattern"]](v):
            continue
        if "flag" in mt and not v.get(mt["flag"]):
            continue
        return k
    return None
