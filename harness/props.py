"""props.py - per-property correspondence sets and oracles.
Each PROPS[id](ctx) drives ctx.corr(...) (model vs implementation) and the
property oracle on the implementation (ctx.check / ctx.violate)."""
import itertools
import math
from fractions import Fraction as Fr

import core
import gen
import large
from core import Nat
from inputs import T, eff, mrts_grid, maxtau_grid, nontrivial_pair

Z, ONE = Fr(0), Fr(1)
PROPS = {}


def prop(name):
    def deco(f):
        PROPS[name] = f
        return f
    return deco


def pair_nt(rid, args):
    # nontrivial: the two trains hold >= 2 spikes together
    n = 0
    for a in args:
        if isinstance(a, list) and a and isinstance(a[0], list):
            n += len(a[0])
        elif isinstance(a, list) and (not a or isinstance(a[0], Fr)):
            n += len(a)
    return n >= 2


def pairs_for(ctx, limit_ex=None, n_rand=None):
    """(pairs, g) blocks: exhaustive small scope + random larger"""
    ex, g1, full = ctx.space.exhaustive_pairs(limit=limit_ex)
    rnd, g2 = ctx.space.random_pairs(n=n_rand)
    ex, rnd = ctx.part(ex), ctx.part(rnd)
    ctx.bump("pairs_exhaustive_g%d%s" % (g1, "" if full else "_sampled"), len(ex))
    ctx.bump("pairs_random_g%d" % g2, len(rnd))
    return [(ex, g1), (rnd, g2)]


def large_on(ctx):
    """the LARGE inputs (large.py) run on shard 0 of the float workers of both backends"""
    return ctx.shard == 0 and not ctx.exact


def large_pair_cases(ctx, rids):
    """correspondence cases on long trains (bursts, silent tails, long tails, 128 = 64 + 64 spikes, ...) for the pair
    routines named in rids"""
    if not large_on(ctx):
        return []
    cases = []
    for k, (a, b) in enumerate(large.long_pairs(ctx.seed)):
        sa, sb = a[:110], b[:110]           # the SPIKE model is cubic in the extracted arithmetic: at most 110 spikes there
        for v in range(2):
            m = large.LONG_MRTS[(k + v) % 3]
            mt = large.LONG_MAXTAU[(k // 3 + v) % 3]
            ri = (k + v) % 2 == 0
            A, B = T(a), T(b)
            for rid in rids:
                if rid in (2, 11, 51, 55):
                    continue        # the extracted SPIKE model is far too slow on long trains: large_spike_oracle instead
                if rid in (1, 10):
                    cases.append((rid, [eff(a), eff(b), Z, ONE, m]))
                elif rid in (2, 11):
                    cases.append((rid, [eff(sa), eff(sb), Z, ONE, m, ri]))
                elif rid in (6, 7, 8, 9, 12, 13, 14):
                    cases.append((rid, [a, b, Z, ONE, mt, m]))
                elif rid == 50:
                    cases.append((50, [v == 1, m, A, B]))
                elif rid == 51:
                    cases.append((51, [v == 1, m, ri, T(sa), T(sb)]))
                elif rid in (52, 53):
                    cases.append((rid, [v == 1, mt, m, A, B]))
                elif rid == 54:
                    cases.append((54, [False, m, None if v else [Fr(1, 8), Fr(7, 8)], A, B]))
                elif rid == 55:
                    cases.append((55, [False, m, ri, None if v else [Fr(1, 8), Fr(7, 8)], T(sa), T(sb)]))
                elif rid == 56:
                    cases.append((56, [False, mt, m, None if v else [Fr(1, 8), Fr(7, 8)], A, B]))
                elif rid in (71, 74):
                    cases.append((rid, [False, v == 1, mt, m, A, B]))
    ctx.bump("large_pair_cases", len(cases))
    return cases


def large_list_cases(ctx, rids, sizes=(17, 31, 34), medium=True):
    """correspondence cases on lists of many trains (pair counts with every remainder modulo 16; summed profiles with
    1000+ points and events on the edges) for the multivariate routines named in rids"""
    if not large_on(ctx):
        return []
    cases = []
    lists = [large.many_trains(ctx.seed, n) for n in sizes]
    if medium:
        lists.append(large.medium_trains(ctx.seed, 16))
    for k, L in enumerate(lists):
        TL = [T(x) for x in L]
        m = [Z, Fr(1, 32), Fr(3, 2)][k % 3]
        mt = [Z, Fr(1, 64), Fr(1, 8)][k % 3]
        ri = k % 2 == 0
        n = len(L)
        sel = [Nat(i) for i in range(n - 1, 0, -2)]                 # a long non-identity selection
        for rid in rids:
            if rid in (61, 65, 68):
                continue            # SPIKE: see large_spike_oracle
            for ix in (None, sel):
                if rid == 60:
                    cases.append((60, [False, m, TL, ix]))
                elif rid == 61:
                    cases.append((61, [False, m, ri, TL, ix]))
                elif rid in (62, 63):
                    cases.append((rid, [False, mt, m, TL, ix]))
                elif rid in (64, 67):
                    cases.append((rid, [False, m, None, TL, ix]))
                elif rid in (65, 68):
                    cases.append((rid, [False, m, ri, None, TL, ix]))
                elif rid in (66, 69):
                    cases.append((rid, [False, mt, m, None, TL, ix]))
                elif rid == 72:
                    cases.append((72, [False, ri, mt, m, TL, ix]))
                elif rid == 73:
                    cases.append((73, [False, mt, m, TL, ix]))
                elif rid == 75:
                    cases.append((75, [False, ri, mt, m, TL, ix]))
    ctx.bump("large_list_cases", len(cases))
    return cases


def spike_ref_interior(a, b, ts, te, t, mrts, ri):
    """SPIKE dissimilarity at a time t strictly inside an inter-spike interval of BOTH trains (t after both first
    spikes and before both last ones), straight from the definition: per train the nearest-spike distances of the
    previous and the following spike (nearest over the other train's spikes and its two auxiliary spikes, which lie
    at the recording edges or one inter-spike interval beyond the outermost spike, whichever is further out),
    interpolated linearly in t; combined weighted by the inter-spike intervals over mean * max(MRTS, mean), or the
    plain mean over max(MRTS, mean) for the rate-independent variant.  Floats; used for LARGE inputs only, where the
    extracted Coq model is too slow (it agrees with the implementation, and hence with the model, on small inputs)."""
    import bisect

    def side(s, o):
        k = bisect.bisect_right(s, t)
        tP, tF = s[k - 1], s[k]
        cand = [min(ts, 2 * o[0] - o[1])] + o + [max(te, 2 * o[-1] - o[-2])]
        dP = min(abs(tP - x) for x in cand)
        dF = min(abs(tF - x) for x in cand)
        isi = tF - tP
        return (dP * (tF - t) + dF * (t - tP)) / isi, isi
    s1, i1 = side(a, b)
    s2, i2 = side(b, a)
    mean = 0.5 * (i1 + i2)
    lim = max(mrts, mean)
    return 0.5 * (s1 + s2) / lim if ri else 0.5 * (s1 * i2 + s2 * i1) / (mean * lim)


def large_spike_oracle(ctx, what):
    """SPIKE measures on long trains (large.py) WITHOUT the model (its extracted arithmetic is far too slow there):
    the compiled-source kernel against the Python-text kernel (equal texts by theorem, Props/C12.v), and at the API
    level: nothing raises, the time axis is the strictly increasing union of both trains' spikes and the edges, values
    within [0,1], the profile of (a,b) is that of (b,a), the distance is the average of the profile."""
    if not large_on(ctx):
        return
    ps = ctx.ps
    q = ctx.impl._quiet
    pyimpl = _py_impl(ctx) if ctx.cy else None
    for k, (a, b) in enumerate(large.long_pairs(ctx.seed)):
        m = large.LONG_MRTS[k % 3]
        ri = k % 2 == 0
        ctx.nontrivial(("large_spike", what, k))
        if pyimpl is not None:
            args = [eff(a), eff(b), Z, ONE, m, ri]
            x = ctx.call(2, args)
            y = core.call_impl(pyimpl.call, 2, args)
            ctx.check()
            if not feq(x, y):
                ctx.violate("SPIKE profile kernel on long trains: compiled source and Python fall-back differ", "2", args,
                            expected=y, got=x, rid=2)
            d = ctx.call(11, args)
            if not isinstance(y, core.Err):
                av = int_pwl(y) / (y[0][-1] - y[0][0])
                if not (isinstance(d, float) and core.close(d, av)):
                    ctx.violate("single-pass SPIKE distance on long trains != average of the fall-back profile", "11", args,
                                expected=av, got=d, rid=11)
        A, B = ctx.impl.train(T(a)), ctx.impl.train(T(b))
        kw = ctx.impl.kw(False, m, ri)

        def prof(u, v):
            p_ = ps.spike_profile(u, v, **kw)
            return [p_.x.tolist(), p_.y1.tolist(), p_.y2.tolist()]
        res = core.call_impl(lambda: q(lambda: [prof(A, B), prof(B, A), float(ps.spike_distance(A, B, **kw)),
                                                float(ps.spike_profile(A, B, **kw).avrg()),
                                                float(ps.spike_distance(A, A, **kw))]))
        ctx.check()
        if isinstance(res, core.Err):
            ctx.violate("SPIKE profile / distance raises on long trains", "spike_profile", [T(a), T(b), m, ri], got=res, rid=51)
            continue
        pab, pba, dab, avab, daa = res
        fa, fb = [float(x_) for x_ in a], [float(x_) for x_ in b]
        if len(fa) >= 2 and len(fb) >= 2:
            # the values against the definition, at the midpoint of every piece inside both trains' spike ranges
            lo_, hi_ = max(fa[0], fb[0]), min(fa[-1], fb[-1])
            xs_ = pab[0]
            mids = [0.5 * (xs_[i_] + xs_[i_ + 1]) for i_ in range(len(xs_) - 1) if xs_[i_] >= lo_ and xs_[i_ + 1] <= hi_]
            if mids:
                got_v = core.call_impl(lambda: q(lambda: [float(v_) for v_ in ps.spike_profile(A, B, **kw)(mids)]))
                want_v = [spike_ref_interior(fa, fb, 0.0, 1.0, t_, float(m), ri) for t_ in mids]
                ctx.check()
                if isinstance(got_v, core.Err) or len(got_v) != len(want_v) or \
                        any(abs(g_ - w_) > 1e-9 for g_, w_ in zip(got_v, want_v)):
                    wbad = None if isinstance(got_v, core.Err) else \
                        [(t_, g_, w_) for t_, g_, w_ in zip(mids, got_v, want_v) if abs(g_ - w_) > 1e-9][:3]
                    ctx.violate("SPIKE profile on long trains != the documented instantaneous dissimilarity at a piece midpoint",
                                "spike_profile", [T(a), T(b), m, ri], expected=wbad, got=got_v if wbad is None else None, rid=51)
        want_x = sorted(set([0.0, 1.0] + [float(x_) for x_ in a] + [float(x_) for x_ in b]))
        bad = None
        if pab[0] != want_x:
            bad = "time axis is not the strictly increasing union of the spikes and the edges"
        elif not all(core.all_finite(v_) and -1e-12 <= v_ <= 1 + 1e-12 for v_ in pab[1] + pab[2]):
            bad = "values outside [0,1] / not finite"
        elif not feq(pab, pba):
            bad = "profile(a, b) != profile(b, a)"
        elif not core.close(dab, avab):
            bad = "distance != average of the profile"
        elif abs(daa) > 1e-12:
            bad = "distance of a train with itself != 0"
        if bad:
            ctx.violate("SPIKE on long trains: " + bad, "spike_profile", [T(a), T(b), m, ri], got=[dab, avab, daa], rid=51)


def feq(a, b, tol=core.TOL):
    return core.agree_ff(a, b, tol) is None


def stale_state_oracle(ctx, which, n_quick=40, n_thorough=500):
    """state kept between calls: the same train objects (and the same list object) are used for several calls; in
    between, one train gets new (valid) spike times - by assigning a new array to .spikes, or by editing the array
    in place.  With reconciliation off the objects are used as given, so every call must describe the CURRENT
    content: it is compared with the same call on freshly built objects.  `which`: names of public functions."""
    import numpy as np
    r, ps = ctx.rng, ctx.ps
    q = ctx.impl._quiet
    lists, g = ctx.space.random_lists(n=n_quick if ctx.tier == "quick" else n_thorough, maxtr=4)
    table = {
        "isi_profile": (ps.isi_profile, {}), "spike_profile": (ps.spike_profile, {}),
        "spike_sync_profile": (ps.spike_sync_profile, {"max_tau": 0.25}),
        "spike_train_order_profile": (ps.spike_train_order_profile, {"max_tau": 0.25}),
        "isi_distance": (ps.isi_distance, {}), "spike_distance": (ps.spike_distance, {}),
        "spike_sync": (ps.spike_sync, {"max_tau": 0.25}), "spike_train_order": (ps.spike_train_order, {}),
        "isi_distance_matrix": (ps.isi_distance_matrix, {}), "spike_sync_matrix": (ps.spike_sync_matrix, {}),
        "spike_directionality_values": (ps.spike_directionality_values, {}),
        "spike_directionality_matrix": (ps.spike_directionality_matrix, {}),
        "filter_by_spike_sync": (lambda s_, **k: ps.filter_by_spike_sync(s_, 0.5, **k), {}),
    }
    for L in ctx.part(lists):
        L = [t if t else [Fr(1, 2)] for t in L]                    # keep every train non-empty: lengths are kept below
        for name in which:
            f, kw0 = table[name]
            for kwx in (dict(Reconcile=False), dict(Reconcile=False, MRTS=0.25), dict()):
                kw = dict(kw0)
                kw.update(kwx)
                sts = ctx.impl.trains([T(t) for t in L])
                forms = [lambda: f(sts, **kw)]
                if "matrix" not in name and "values" not in name and "filter" not in name:
                    forms.append(lambda: f(sts[0], sts[1], **kw))
                log = []
                for step in range(3):
                    if step == 1:      # a new array of the same length is assigned
                        k = r.randrange(len(sts))
                        new = sorted(set(Fr(r.randint(0, 16), 16) for _ in range(len(L[k]) + 2)))[:len(L[k])]
                        if len(new) < len(L[k]):
                            continue
                        L = L[:k] + [new] + L[k + 1:]
                        sts[k].spikes = np.array([float(x) for x in new])
                        log.append("train %d: .spikes = new array" % k)
                    if step == 2:      # the array is rewritten in place (same object, new sorted content of the same length)
                        k = r.randrange(len(sts))
                        new = sorted(set(Fr(r.randint(0, 32), 32) for _ in range(len(L[k]) + 2)))[:len(L[k])]
                        if len(new) == len(L[k]):
                            L = L[:k] + [new] + L[k + 1:]
                            sts[k].spikes[:] = [float(x) for x in new]
                            log.append("train %d: spike array rewritten in place" % k)
                    fresh = ctx.impl.trains([T(t) for t in L])
                    for fi, form in enumerate(forms):
                        got = core.call_impl(lambda: q(form))
                        ff = (lambda: f(fresh, **kw)) if fi == 0 else (lambda: f(fresh[0], fresh[1], **kw))
                        want = core.call_impl(lambda: q(ff))
                        ctx.check()
                        if not feq(got, want, 1e-12):
                            ctx.violate("%s on objects that were used before (%s) differs from the same call on fresh objects"
                                        % (name, "; ".join(log) or "second call"), name,
                                        [[T(t) for t in L], repr(sorted(kwx)), Nat(fi)], expected=want, got=got)
                            break
                    # leave the list form as the most recent call (a one-entry cache would now hold this list object)
                    core.call_impl(lambda: q(forms[0]))
                ctx.nontrivial(("stale", name, core.enc(L), repr(sorted(kwx))))


# ---------------------------------------------------------------------------
@prop("C01")
def c01(ctx):
    for pairs, g in pairs_for(ctx):
        cases = []
        for a, b in pairs:
            for m in mrts_grid(g):
                cases.append((1, [eff(a), eff(b), Z, ONE, m]))
                cases.append((50, [False, m, T(a), T(b)]))
                if m != Z:
                    cases.append((50, [True, m, T(a), T(b)]))      # default Reconcile: keywords must survive it
        ctx.corr(cases, pair_nt)
        # oracle: implementation vs the executable Coq specification isi_spec
        spec_vs_impl(ctx, [(100, [a, b, Z, ONE, m], 50, [rc, m, T(a), T(b)])
                           for a, b in pairs for m in mrts_grid(g)[:3] for rc in ((False, True) if m != Z else (False,))],
                     "isi_profile == isi_spec")
    # the same profile through the list forms (list of two; longer list + index pair): MRTS must arrive
    for pairs, g in pairs_for(ctx, limit_ex=900, n_rand=300):
        cases = []
        for k, (a, b) in enumerate(pairs):
            m = mrts_grid(g)[k % 3]
            cases.append((60, [k % 4 == 1, m, [T(a), T(b)], None]))
            cases.append((60, [False, m, [T(b), T(a), T(b)], [Nat(1), Nat(0)]]))
        ctx.corr(cases, lambda rid, x: sum(len(t[0]) for t in x[2]) >= 2)
    rnd, g = ctx.space.random_pairs(n=400)
    for k, (a, b) in enumerate(ctx.part(rnd)):
        kw = ctx.impl.kw(False, mrts_grid(g)[k % 3])
        try:
            f = ctx.ps.isi_profile(ctx.impl.train(T(a)), ctx.impl.train(T(b)), **kw)
        except Exception as e:      # noqa
            ctx.violate("isi_profile raises", "isi_profile", [T(a), T(b)], got=repr(e))
            continue
        profile_eval_oracle(ctx, "isi_profile", f, (f.x, f.y), False, [T(a), T(b), kw])
    stale_state_oracle(ctx, ["isi_profile", "isi_distance"])
    # shifted / scaled interval so that t_start != 0
    cases = []
    rnd, g = ctx.space.random_pairs(n=300)
    rnd = ctx.part(rnd)
    for a, b in rnd:
        sh = [x * 3 - 1 for x in a], [x * 3 - 1 for x in b]
        cases.append((1, [eff(sh[0], Fr(-1), Fr(2)), eff(sh[1], Fr(-1), Fr(2)), Fr(-1), Fr(2), Fr(1, 2)]))
    ctx.corr(cases, pair_nt)
    # LARGE inputs (large.py): long trains, many trains - branches that only run above a size threshold
    ctx.corr(large_pair_cases(ctx, (1, 50, 54)) + large_list_cases(ctx, (60,), sizes=(17, 34)), lambda rid, a: True, affine_copies=False)


def spec_vs_impl(ctx, quads, what, tol=core.TOL, proj=None):
    """quads: (spec_rid, spec_args, impl_rid, impl_args).  The spec routine is
    evaluated by the extracted Coq code, the implementation through its adapter.
    proj: optional projection applied to the implementation's result"""
    quads = [q for q in quads if ctx.supports(q[2])]
    if not quads:
        return
    sout = core.run_model([(q[0], q[1]) for q in quads])
    for q, sv in zip(quads, sout):
        iv = ctx.call(q[2], q[3])
        if proj is not None and not isinstance(iv, core.Err):
            iv = proj(iv)
        ctx.check()
        if pair_nt(q[2], q[3]):
            ctx.nontrivial(("spec", q[0], core.enc(q[1])))
        d = core.agree(sv, iv, tol)
        if d:
            ctx.violate(what, "%s" % (q[2],), q[3], expected="spec " + core.enc(core_enc(sv)),
                        got=iv, diff=d, rid=q[2], spec_rid=q[0], spec_args=core.enc(q[1]))


def core_enc(v):
    if isinstance(v, core.Err):
        return [0]
    if isinstance(v, list):
        return [core_enc(x) for x in v]
    return v


def profile_eval_oracle(ctx, what, f, arrays, linear, args):
    """"at every time t the profile equals the definition": the profile object's own evaluation
    f(t) and f([t, ...]) against its arrays (which the correspondence ties to the definition) at
    times 2^-30 and 2^-12 beside every breakpoint, on breakpoints and in the middle of pieces"""
    xs = [float(x) for x in arrays[0]]
    ev = eval_pwl if linear else eval_pwc
    ts = []
    for k, x in enumerate(xs):
        for d in (2.0 ** -30, 2.0 ** -12):
            if k + 1 < len(xs) and x + d < xs[k + 1]:
                ts.append(x + d)
            if k > 0 and x - d > xs[k - 1]:
                ts.append(x - d)
    ts += sample_times(xs)
    if not ts:
        return
    try:
        single = [float(f(t)) for t in ts]
        many = [float(v) for v in f(ts)]
        twice = [float(v) for v in f([ts[0], ts[0]] + ts[:2])]
    except Exception as e:      # noqa
        ctx.violate(what + ": evaluation raises", "profile.__call__", args, got=repr(e))
        return
    ctx.check(len(ts))
    for t, a, b in zip(ts, single, many):
        e = ev(arrays, t)
        if e is None:
            continue
        if abs(a - e) > 1e-9 or abs(b - e) > 1e-9:
            ctx.violate(what + ": f(t) differs from the piece it lies in", "profile.__call__", args,
                        expected=e, got=[a, b], t=t)
            return
    if abs(twice[0] - single[0]) > 1e-12 or abs(twice[1] - single[0]) > 1e-12:
        ctx.violate(what + ": a repeated time in a list evaluates differently", "profile.__call__", args,
                    expected=single[0], got=twice[:2], t=ts[0])
    # times in an order whose sorting permutation is not its own inverse (a rotation)
    rot = ts[2:] + ts[:2]
    try:
        got = [float(v) for v in f(rot)]
    except Exception as e:      # noqa
        got = repr(e)
    want = single[2:] + single[:2]
    if got != want and not (isinstance(got, list) and all(abs(a_ - b_) <= 1e-12 for a_, b_ in zip(got, want))):
        ctx.violate(what + ": a rotated list of times is not evaluated entry by entry", "profile.__call__", args,
                    expected=want[:4], got=got if isinstance(got, str) else got[:4])
    # the returned profile is an independent object: scaling a copy of it leaves it as it was
    try:
        w = f.copy()
        w.mul_scalar(0.25)
        after = [float(f(t)) for t in ts[:6]]
    except Exception as e:      # noqa
        after = repr(e)
    if after != single[:6]:
        ctx.violate(what + ": the profile changed when a copy of it was scaled", "profile.copy/mul_scalar", args,
                    expected=single[:6], got=after)



# ---------------------------------------------------------------------------
@prop("C02")
def c02(ctx):
    for pairs, g in pairs_for(ctx):
        cases = []
        for a, b in pairs:
            for m in mrts_grid(g)[:3]:
                for ri in (False, True):
                    cases.append((2, [eff(a), eff(b), Z, ONE, m, ri]))
            cases.append((51, [False, Fr(2, g), False, T(a), T(b)]))
            cases.append((51, [True, Fr(4, g), True, T(a), T(b)]))     # default Reconcile, MRTS and RI must survive it
        ctx.corr(cases, pair_nt)
        spec_vs_impl(ctx, [(101, [a, b, Z, ONE, m, ri], 51, [False, m, ri, T(a), T(b)])
                           for a, b in pairs for m in mrts_grid(g)[:2] for ri in (False, True)],
                     "spike_profile == spike_spec (definition at all one-sided limits)")
    # the same profile through the list forms (list of two; longer list + index pair): RI and MRTS must arrive
    for pairs, g in pairs_for(ctx, limit_ex=900, n_rand=300):
        cases = []
        for k, (a, b) in enumerate(pairs):
            m, ri = mrts_grid(g)[k % 3], k % 2 == 0
            cases.append((61, [k % 4 == 1, m, ri, [T(a), T(b)], None]))
            cases.append((61, [False, m, ri, [T(b), T(a), T(b)], [Nat(1), Nat(0)]]))
        ctx.corr(cases, lambda rid, x: sum(len(t[0]) for t in x[3]) >= 2)
    # evaluation at every time: f(t), f([t..]) beside breakpoints and inside pieces
    rnd, g = ctx.space.random_pairs(n=400)
    for k, (a, b) in enumerate(ctx.part(rnd)):
        kw = ctx.impl.kw(False, mrts_grid(g)[k % 3], k % 2 == 0)
        try:
            f = ctx.ps.spike_profile(ctx.impl.train(T(a)), ctx.impl.train(T(b)), **kw)
        except Exception as e:      # noqa
            ctx.violate("spike_profile raises", "spike_profile", [T(a), T(b)], got=repr(e))
            continue
        profile_eval_oracle(ctx, "spike_profile", f, (f.x, f.y1, f.y2), True, [T(a), T(b), kw])
    # helpers
    r = ctx.rng
    cases = []
    for _ in range(ctx.n(3000 if ctx.tier == "quick" else 30000)):
        l = sorted(set(Fr(r.randint(0, 16), 16) for _ in range(r.randint(0, 5))))
        x = Fr(r.randint(-4, 20), 16)
        a0 = min(l + [Z]) - Fr(r.randint(0, 4), 16)
        a1 = max(l + [ONE]) + Fr(r.randint(0, 4), 16)
        cases.append((3, [x, l, a0, a1]))
        cases.append((4, [Fr(r.randint(1, 8), 8), Fr(r.randint(1, 8), 8), Fr(r.randint(0, 8), 8),
                          Fr(r.randint(0, 8), 8), Fr(r.randint(0, 8), 4), r.random() < 0.5]))
    ctx.corr(cases, lambda rid, a: True)
    # oracle (d): zero at shared spike times, both one-sided limits
    for pairs, g in pairs_for(ctx, limit_ex=1500, n_rand=500):
        for a, b in pairs:
            shared = set(a) & set(b)
            if not shared:
                continue
            p = ctx.call(51, [False, Z, False, T(a), T(b)])
            ctx.check()
            if isinstance(p, core.Err):
                ctx.violate("spike_profile raises", "spike_profile", [T(a), T(b)], got=p)
                continue
            xs, y1, y2 = p
            for k, x in enumerate(xs):
                if any(abs(float(s) - x) < 1e-12 for s in shared):
                    lim = []
                    if k < len(y1):
                        lim.append(y1[k])
                    if k > 0:
                        lim.append(y2[k - 1])
                    if any(abs(v) > 1e-12 for v in lim):
                        ctx.violate("profile not 0 at shared spike", "spike_profile", [T(a), T(b)],
                                    expected=0, got=lim)
    # LARGE inputs (large.py)
    ctx.corr(large_pair_cases(ctx, (2, 51, 55)) + large_list_cases(ctx, (61,), sizes=(17, 34)), lambda rid, a: True, affine_copies=False)
    large_spike_oracle(ctx, 'c02')


# ---------------------------------------------------------------------------
def sync_cases(pairs, g, rids, cy_only=()):
    cases = []
    for a, b in pairs:
        for m in mrts_grid(g)[:3]:
            for mt in maxtau_grid(g):
                for rid in rids:
                    cases.append((rid, [a, b, Z, ONE, mt, m]))
    return cases



def big_tau_pairs(ctx):
    """all ordered pairs of trains with <= 2 spikes on the 9-point grid, for coincidence windows
    larger than half the recording (max_tau in {3/4, 1, 2}): the window is then limited by the
    recording length and by missing neighbours only"""
    tr = gen.grid_trains(2, 8)
    pairs = ctx.part([(a, b) for a in tr for b in tr])
    return [(a, b, mt, m) for a, b in pairs for mt in (Fr(3, 4), Fr(1), Fr(2)) for m in (Fr(0), Fr(1, 4))]


def filter_same_object_oracle(ctx, n_quick=80, n_thorough=1000):
    """the "other N-1 trains" of the filter are the other list POSITIONS: the same object entered twice
    (reconciliation off, so the objects are used as given) counts like an equal copy; also [st, st] alone"""
    r, ps = ctx.rng, ctx.ps
    rl, g2 = ctx.space.random_lists(n=n_quick if ctx.tier == "quick" else n_thorough)
    for L in ctx.part(rl):
        sts = ctx.impl.trains([T(t) for t in L])
        thr = float(Fr(r.randint(0, 3), 4))
        for same, copy in (([sts[0], sts[0]] + sts[1:], [sts[0], sts[0].copy()] + sts[1:]),
                           ([sts[0], sts[0]], [sts[0], sts[0].copy()])):
            for kwf in (dict(Reconcile=False), dict(Reconcile=False, max_tau=0.25), dict()):
                x = core.call_impl(lambda: ps.filter_by_spike_sync(same, thr, return_removed_spikes=True, **kwf))
                y = core.call_impl(lambda: ps.filter_by_spike_sync(copy, thr, return_removed_spikes=True, **kwf))
                ctx.check()
                ctx.nontrivial(("sameobj", core.enc(L), thr, len(same), repr(sorted(kwf))))
                if isinstance(x, core.Err) or not feq(x, y, 0.0):
                    ctx.violate("a train object entered twice is not treated like an equal copy at another position",
                                "filter_by_spike_sync", [[T(t) for t in L], Fr(thr), Nat(len(same)), repr(kwf)], expected=y, got=x)


@prop("C03")
def c03(ctx):
    for pairs, g in pairs_for(ctx):
        ctx.corr(sync_cases(pairs, g, (6, 7)), pair_nt)
        ctx.corr([(52, [rc, mt, m, T(a), T(b)]) for a, b in pairs
                  for m in mrts_grid(g)[:2] for mt in maxtau_grid(g)[:2] for rc in (False, True)], pair_nt)
        # a time unit of 2^-24 with the default reconciliation (spikes closer than 1e-6 are still different spikes)
        kq = Fr(1, 2 ** 24)
        ctx.corr([c_ for a, b in pairs[::5] for c_ in
                  ((52, [True, Z, Z, [[kq * x for x in a], Z, kq], [[kq * x for x in b], Z, kq]]),
                   (70, [True, Z, Z, Z, [[[kq * x for x in a], Z, kq], [[kq * x for x in b], Z, kq]]]))], lambda rid, x: True)
        # a threshold larger than the whole recording is a valid threshold (the documented interpolation saturates)
        ctx.corr([(52, [False, Z, m, T(a), T(b)]) for a, b in pairs[::2] for m in (Fr(2), Fr(5))], pair_nt)
        # the same profile through the list forms (list of two; longer list + index pair): max_tau and MRTS must arrive
        ctx.corr([(62, [k % 4 == 1, mt, m, [T(a), T(b)], None] if k % 2 else [False, mt, m, [T(b), T(a), T(b)], [Nat(1), Nat(0)]])
                  for k, (a, b) in enumerate(pairs[::2]) for m in (Z, Fr(6, g)) for mt in maxtau_grid(g)[1:]],
                 lambda rid, x: sum(len(t[0]) for t in x[3]) >= 2)
        # the per-spike indicator as the filter uses it: MRTS and max_tau must reach the backend
        # (two-train lists and a third train made of the spikes the two do not share)
        ctx.corr([(70, [False, mt, m, thr, [T(a), T(b)] + ([T(sorted(set(a) ^ set(b)))] if k % 3 == 0 else [])])
                  for k, (a, b) in enumerate(pairs[::3]) for m in (Z, Fr(6, g), Fr(2)) for mt in maxtau_grid(g)[:2]
                  for thr in (Z, Fr(1, 2))], lambda rid, x: sum(len(t[0]) for t in x[4]) >= 2)
        spec_vs_impl(ctx, [(102, [a, b, Z, ONE, mt, m], 6, [a, b, Z, ONE, mt, m])
                           for a, b in pairs for m in mrts_grid(g)[:3] for mt in maxtau_grid(g)],
                     "coincidence profile == pairwise definition")
        spec_vs_impl(ctx, [(103, [a, b, Z, ONE, mt, m], 7, [a, b, Z, ONE, mt, m])
                           for a, b in pairs for m in mrts_grid(g)[:3] for mt in maxtau_grid(g)[:2]],
                     "per-spike indicator == pairwise definition")
    filter_same_object_oracle(ctx, 60, 600)
    big = big_tau_pairs(ctx)
    ctx.corr([(rid, [a, b, Z, ONE, mt, m]) for a, b, mt, m in big for rid in (6, 7, 12)], pair_nt)
    spec_vs_impl(ctx, [(102, [a, b, Z, ONE, mt, m], 6, [a, b, Z, ONE, mt, m]) for a, b, mt, m in big],
                 "coincidence profile == pairwise definition (max_tau above half the recording)")
    spec_vs_impl(ctx, [(103, [a, b, Z, ONE, mt, m], 7, [a, b, Z, ONE, mt, m]) for a, b, mt, m in big],
                 "per-spike indicator == pairwise definition (max_tau above half the recording)")
    # get_tau on contexts
    r = ctx.rng
    cases = []
    for _ in range(ctx.n(4000 if ctx.tier == "quick" else 40000)):
        def mk():
            if r.random() < 0.1:
                return None
            x = Fr(r.randint(2, 14), 16)
            p = x - Fr(r.randint(1, 4), 16) if r.random() < 0.7 else None
            n = x + Fr(r.randint(1, 4), 16) if r.random() < 0.7 else None
            return [p, x, n]
        cases.append((5, [mk(), mk(), Fr(r.choice([2, 4, 8, 16]), 16), Fr(r.randint(0, 16), 16)]))
    ctx.corr(cases, lambda rid, a: True)
    # oracle: balanced marks between the two trains (mutual, one-to-one)
    for pairs, g in pairs_for(ctx, limit_ex=2000, n_rand=800):
        for a, b in pairs:
            for mt in maxtau_grid(g)[:2]:
                m = mrts_grid(g)[1]
                ca = ctx.call(7, [a, b, Z, ONE, mt, m])
                cb = ctx.call(7, [b, a, Z, ONE, mt, m])
                ctx.check()
                if isinstance(ca, core.Err) or isinstance(cb, core.Err):
                    ctx.violate("coincidence_single raises", "coincidence_single", [a, b, mt, m], got=[ca, cb])
                    continue
                # shared spikes count 1 on both sides
                if abs(sum(ca) - sum(cb)) > 1e-12:
                    ctx.violate("unbalanced coincidence counts", "coincidence_single", [a, b, Z, ONE, mt, m],
                                expected="sum equal", got=[ca, cb])
    # LARGE inputs (large.py)
    ctx.corr(large_pair_cases(ctx, (6, 7, 52, 56)) + large_list_cases(ctx, (62, 66), sizes=(17, 31)), lambda rid, a: True, affine_copies=False)


# ---------------------------------------------------------------------------
@prop("C04")
def c04(ctx):
    for pairs, g in pairs_for(ctx):
        ctx.corr(sync_cases(pairs, g, (8, 9)), pair_nt)
        ctx.corr([(rid, [rc, nrm, mt, m, T(a), T(b)]) for a, b in pairs for rid in (71, 74)
                  for nrm in (True, False) for m in mrts_grid(g)[:2] for mt in maxtau_grid(g)[:2]
                  for rc in ((False, True) if (m != Z and mt != Z) else (False,))], pair_nt)
        ctx.corr([(53, [True, mt, m, T(a), T(b)]) for a, b in pairs for m in mrts_grid(g)[1:2] for mt in maxtau_grid(g)[1:2]], pair_nt)
        spec_vs_impl(ctx, [(104, [a, b, Z, ONE, mt, m], 8, [a, b, Z, ONE, mt, m])
                           for a, b in pairs for m in mrts_grid(g)[:3] for mt in maxtau_grid(g)],
                     "order profile == leader/follower definition")
        spec_vs_impl(ctx, [(105, [a, b, Z, ONE, mt, m], 9, [a, b, Z, ONE, mt, m])
                           for a, b in pairs for m in mrts_grid(g)[:3] for mt in maxtau_grid(g)],
                     "directionality values == leader/follower definition")
    big = big_tau_pairs(ctx)
    ctx.corr([(rid, [a, b, Z, ONE, mt, m]) for a, b, mt, m in big for rid in (8, 9, 13, 14)], pair_nt)
    spec_vs_impl(ctx, [(104, [a, b, Z, ONE, mt, m], 8, [a, b, Z, ONE, mt, m]) for a, b, mt, m in big],
                 "order profile == leader/follower definition (max_tau above half the recording)")
    spec_vs_impl(ctx, [(105, [a, b, Z, ONE, mt, m], 9, [a, b, Z, ONE, mt, m]) for a, b, mt, m in big],
                 "directionality values == leader/follower definition (max_tau above half the recording)")
    lists, g = ctx.space.random_lists()
    lists = ctx.part(lists)
    cases = []
    r = ctx.rng
    for L in lists:
        n = len(L)
        ix = r.choice([None, [Nat(i) for i in r.sample(range(n), r.randint(2, n))]])
        m = r.choice(mrts_grid(g)[:3])
        mt = r.choice(maxtau_grid(g))
        TL = [T(x) for x in L]
        cases += [(63, [False, mt, m, TL, ix]), (72, [False, True, mt, m, TL, ix]),
                  (73, [False, mt, m, TL, ix]), (75, [False, True, mt, m, TL, ix]),
                  (75, [False, False, mt, m, TL, ix])]
    ctx.corr(cases, lambda rid, a: sum(len(t[0]) for t in a[-2]) >= 3)
    # oracle: swap, matrix antisymmetry, synfire relation, sub-list
    for L in lists:
        TL = [T(x) for x in L]
        n = len(L)
        mt = r.choice(maxtau_grid(g))
        m = r.choice(mrts_grid(g))
        nsp = sum(len(x) for x in L)
        if nsp >= 3:
            ctx.nontrivial(("c04", core.enc(TL), mt, m))
        a, b = TL[0], TL[1]
        p = ctx.call(53, [False, mt, m, a, b])
        q = ctx.call(53, [False, mt, m, b, a])
        ctx.check()
        if nsp and not isinstance(p, core.Err) and not isinstance(q, core.Err):
            if len(L[0]) + len(L[1]) > 0 and not feq(p[1], [-v for v in q[1]]):
                ctx.violate("order profile not negated by swap", "spike_train_order_profile",
                            [mt, m, a, b], expected=[-v for v in q[1]], got=p[1])
        d1 = ctx.call(74, [False, False, mt, m, a, b])
        d2 = ctx.call(74, [False, False, mt, m, b, a])
        ctx.check()
        if not (isinstance(d1, float) and isinstance(d2, float) and abs(d1 + d2) < 1e-9):
            ctx.violate("D(A,B) != -D(B,A)", "spike_directionality", [mt, m, a, b], expected="sum 0", got=[d1, d2])
        dself = ctx.call(74, [False, False, mt, m, a, a])
        if not (isinstance(dself, float) and abs(dself) < 1e-12):
            ctx.violate("D(A,A) != 0", "spike_directionality", [mt, m, a, a], expected=0, got=dself)
        M = ctx.call(75, [False, False, mt, m, TL, None])
        ctx.check()
        if isinstance(M, core.Err):
            ctx.violate("directionality matrix raises", "spike_directionality_matrix", [mt, m, TL], got=M)
            continue
        ok = all(abs(M[i][j] + M[j][i]) < 1e-9 for i in range(n) for j in range(n)) and \
            all(abs(M[i][i]) < 1e-12 for i in range(n))
        if not ok:
            ctx.violate("matrix not antisymmetric / diagonal not 0", "spike_directionality_matrix",
                        [mt, m, TL], got=M)
        for i in range(n):
            for j in range(n):
                if i != j:
                    dij = ctx.call(74, [False, False, mt, m, TL[i], TL[j]])
                    if not (isinstance(dij, float) and abs(dij - M[i][j]) < 1e-9):
                        ctx.violate("matrix entry != bivariate directionality", "spike_directionality_matrix",
                                    [mt, m, TL, Nat(i), Nat(j)], expected=dij, got=M[i][j])
        # synfire indicator F = 2 * sum_{i<j} D_ij / ((N-1) * total spikes)
        Fv = ctx.call(72, [False, True, mt, m, TL, None])
        ctx.check()
        if nsp > 0 and n >= 2:
            exp = 2.0 * sum(M[i][j] for i in range(n) for j in range(i + 1, n)) / ((n - 1) * nsp)
            if not (isinstance(Fv, float) and abs(Fv - exp) < 1e-9):
                ctx.violate("synfire indicator != 2*triu(D)/((N-1)*spikes)", "spike_train_order",
                            [mt, m, TL], expected=exp, got=Fv)
        # the same relation with MRTS='auto', for the whole list and for a selection: the scalar and
        # the matrix must resolve the automatic threshold in the same way
        sts = ctx.impl.trains(TL)
        for sel in [None] + ([sorted(r.sample(range(n), n - 1))] if n >= 3 else []):
            kwa = dict(MRTS='auto', max_tau=float(mt))
            if sel is not None:
                kwa['indices'] = sel
            Fa = core.call_impl(lambda: ctx.ps.spike_train_order(sts, **kwa))
            Ma = core.call_impl(lambda: ctx.ps.spike_directionality_matrix(sts, normalize=False, **kwa))
            ctx.check()
            ks = list(range(n)) if sel is None else sel
            ns = sum(len(L[i]) for i in ks)
            if isinstance(Ma, core.Err) or isinstance(Fa, core.Err):
                ctx.violate("MRTS='auto': order / directionality matrix raises", "spike_train_order", [mt, TL, sel], got=[Fa, Ma])
            elif ns > 0 and len(ks) >= 2:
                exp = 2.0 * sum(Ma[i][j] for i in range(len(ks)) for j in range(i + 1, len(ks))) / ((len(ks) - 1) * ns)
                if not (isinstance(Fa, float) and abs(Fa - exp) < 1e-9):
                    ctx.violate("MRTS='auto': synfire indicator != 2*triu(D)/((N-1)*spikes)", "spike_train_order",
                                [mt, TL, sel], expected=exp, got=Fa)
        # values: sum over a train's values * (N-1) = row sum of D
        V = ctx.call(73, [False, mt, m, TL, None])
        ctx.check()
        if isinstance(V, core.Err):
            ctx.violate("directionality values raise", "spike_directionality_values", [mt, m, TL], got=V)
        else:
            for i in range(n):
                if abs(sum(V[i]) * (n - 1) - sum(M[i])) > 1e-9:
                    ctx.violate("sum of values*(N-1) != row sum of D", "spike_directionality_values",
                                [mt, m, TL, Nat(i)], expected=sum(M[i]), got=sum(V[i]) * (n - 1))
        # index selections == sub-list
        if n >= 3:
            ix = r.sample(range(n), r.randint(2, n))
            sub = [TL[i] for i in ix]
            nix = [Nat(i) for i in ix]
            for rid, args_i, args_s in (
                    (73, [False, mt, m, TL, nix], [False, mt, m, sub, None]),
                    (75, [False, False, mt, m, TL, nix], [False, False, mt, m, sub, None]),
                    (63, [False, mt, m, TL, nix], [False, mt, m, sub, None]),
                    (72, [False, True, mt, m, TL, nix], [False, True, mt, m, sub, None])):
                x = ctx.call(rid, args_i)
                y = ctx.call(rid, args_s)
                ctx.check()
                if not feq(x, y):
                    ctx.violate("indices != sub-list", str(rid), args_i, expected=y, got=x, rid=rid)
    # LARGE inputs (large.py); a synfire chain of 140 trains: every spike leads / follows more than 128 others
    lc = large_pair_cases(ctx, (8, 9, 53, 71, 74)) + large_list_cases(ctx, (63, 72, 73, 75), sizes=(17, 31))
    if large_on(ctx):
        XL = [T(x) for x in large.medium_trains(ctx.seed, 8, k=150, g=4096)]     # summed profiles with 1200+ points, edge events
        lc += [(63, [False, Z, Z, XL, None]), (63, [False, Fr(1, 256), Fr(1, 64), XL, [Nat(5), Nat(0), Nat(7), Nat(2)]]),
               (72, [False, True, Z, Z, XL, None]), (62, [False, Z, Z, XL, None])]
        SF = [T(x) for x in large.synfire(140)]
        lc += [(73, [False, Z, Z, SF, None]), (73, [False, Z, Z, SF, [Nat(i) for i in range(139, 4, -1)]]),
               (72, [False, False, Z, Z, SF, None])]
    ctx.corr(lc, lambda rid, a: True, affine_copies=False)


# ---------------------------------------------------------------------------
def intervals_for(r, g, n=2):
    pts = [Fr(i, 2 * g) for i in range(2 * g + 1)]
    out = [None]
    for _ in range(n):
        a, b = sorted(r.sample(pts, 2))
        out.append([a, b])
    return out


@prop("C05")
def c05(ctx):
    r = ctx.rng
    for pairs, g in pairs_for(ctx, limit_ex=3000, n_rand=1000):
        cases = []
        for a, b in pairs:
            m = r.choice(mrts_grid(g)[:3])
            mt = r.choice(maxtau_grid(g))
            ri = r.random() < 0.5
            if ctx.cy:
                cases += [(10, [eff(a), eff(b), Z, ONE, m]), (11, [eff(a), eff(b), Z, ONE, m, ri]),
                          (12, [a, b, Z, ONE, mt, m]), (13, [a, b, Z, ONE, mt, m]),
                          (14, [a, b, Z, ONE, mt, m])]
            for iv in intervals_for(r, g, 1):
                cases += [(54, [False, m, iv, T(a), T(b)]), (55, [False, m, ri, iv, T(a), T(b)]),
                          (56, [False, mt, m, iv, T(a), T(b)])]
        ctx.corr(cases, pair_nt)
        # oracle: scalar == average of the profile over the same interval
        for a, b in pairs:
            m = r.choice(mrts_grid(g)[:3])
            mt = r.choice(maxtau_grid(g))
            ri = r.random() < 0.5
            if nontrivial_pair(a, b):
                ctx.nontrivial(("c05", core.enc([a, b]), m, mt, ri))
            for iv in intervals_for(r, g, 2):
                ivs = None if iv is None else [iv[0], iv[1]]
                A, B = T(a), T(b)
                chk_scalar_profile(ctx, "isi", 54, [False, m, iv, A, B], 50, [False, m, A, B], 23, ivs)
                chk_scalar_profile(ctx, "spike", 55, [False, m, ri, iv, A, B], 51, [False, m, ri, A, B], 28, ivs)
                chk_scalar_profile(ctx, "sync", 56, [False, mt, m, iv, A, B], 52, [False, mt, m, A, B], 34, ivs)
            A, B = T(a), T(b)
            chk_scalar_profile(ctx, "order", 71, [False, True, mt, m, A, B], 53, [False, mt, m, A, B], 34, None)
    # coincidence windows larger than half the recording: single-pass values vs profiles (both through the model)
    bigc = big_tau_pairs(ctx)
    ctx.corr([(rid, [a, b, Z, ONE, mt, m]) for a, b, mt, m in bigc for rid in (12, 13, 14)] +
             [(56, [False, mt, m, None, T(a), T(b)]) for a, b, mt, m in bigc[::3]] +
             [(71, [False, True, mt, m, T(a), T(b)]) for a, b, mt, m in bigc[::3]], pair_nt)
    lists, g = ctx.space.random_lists()
    lists = ctx.part(lists)
    cases = []
    for L in lists:
        TL = [T(x) for x in L]
        m = r.choice(mrts_grid(g)[:3])
        mt = r.choice(maxtau_grid(g))
        ri = r.random() < 0.5
        cases += [(60, [False, m, TL, None]), (61, [False, m, ri, TL, None]), (62, [False, mt, m, TL, None]),
                  (63, [False, mt, m, TL, None]), (72, [False, True, mt, m, TL, None])]
        # the same list in a time unit of 2^-24 and a million units from 0: the profile sum must keep every breakpoint
        for kq, cq in ((Fr(1, 2 ** 24), Fr(0)), (Fr(1), Fr(2 ** 20))):
            TLq = [[[kq * x + cq for x in t[0]], kq * t[1] + cq, kq * t[2] + cq] for t in TL]
            cases += [(60, [False, m * kq, TLq, None]), (62, [False, mt * kq, m * kq, TLq, None]),
                      (64, [False, m * kq, None, TLq, None])]
        for iv in intervals_for(r, g, 1):
            cases += [(64, [False, m, iv, TL, None]), (65, [False, m, ri, iv, TL, None]),
                      (66, [False, mt, m, iv, TL, None])]
            ivs = None if iv is None else [iv[0], iv[1]]
            chk_scalar_profile(ctx, "isi-multi", 64, [False, m, iv, TL, None], 60, [False, m, TL, None], 23, ivs)
            chk_scalar_profile(ctx, "spike-multi", 65, [False, m, ri, iv, TL, None], 61, [False, m, ri, TL, None], 28, ivs)
            chk_scalar_profile(ctx, "sync-multi", 66, [False, mt, m, iv, TL, None], 62, [False, mt, m, TL, None], 34, ivs)
        chk_scalar_profile(ctx, "order-multi", 72, [False, True, mt, m, TL, None], 63, [False, mt, m, TL, None], 34, None)
        # index selections in arbitrary order (pairs are oriented by position for the signed order measure)
        n = len(L)
        ix = [Nat(i) for i in r.sample(range(n), r.randint(2, n))]
        chk_scalar_profile(ctx, "isi-multi-idx", 64, [False, m, None, TL, ix], 60, [False, m, TL, ix], 23, None)
        chk_scalar_profile(ctx, "sync-multi-idx", 66, [False, mt, m, None, TL, ix], 62, [False, mt, m, TL, ix], 34, None)
        chk_scalar_profile(ctx, "order-multi-idx", 72, [False, True, mt, m, TL, ix], 63, [False, mt, m, TL, ix], 34, None)
        # MRTS='auto': the scalar route and the profile route must use the same pooled threshold
        sts = ctx.impl.trains(TL)
        q = ctx.impl._quiet
        ivp = r.choice(intervals_for(r, g, 1))
        ivf = None if ivp is None else (float(ivp[0]), float(ivp[1]))
        for name, fs, fp, kw in (("isi", ctx.ps.isi_distance, ctx.ps.isi_profile, {}),
                                 ("spike", ctx.ps.spike_distance, ctx.ps.spike_profile, {"RI": ri}),
                                 ("sync", ctx.ps.spike_sync, ctx.ps.spike_sync_profile, {"max_tau": float(mt)})):
            sv = core.call_impl(lambda: q(lambda: fs(sts, interval=ivf, MRTS='auto', **kw)))
            pv = core.call_impl(lambda: q(lambda: fp(sts, MRTS='auto', **kw).avrg(ivf)))
            ctx.check()
            if not (isinstance(sv, float) and isinstance(pv, float) and core.close(sv, pv)):
                ctx.violate("%s: MRTS='auto' scalar != average of the MRTS='auto' profile" % name, name + "_distance",
                            [TL, repr(ivf)], expected=pv, got=sv)
            # ... and for an index selection (whatever pool 'auto' uses, both routes must use the same one)
            if n >= 3:
                sel = r.sample(range(n), r.randint(2, n - 1))
                sv = core.call_impl(lambda: q(lambda: fs(sts, indices=sel, interval=ivf, MRTS='auto', **kw)))
                pv = core.call_impl(lambda: q(lambda: fp(sts, indices=sel, MRTS='auto', **kw).avrg(ivf)))
                ctx.check()
                if not (isinstance(sv, float) and isinstance(pv, float) and core.close(sv, pv)):
                    ctx.violate("%s: MRTS='auto' with indices: scalar != average of the profile" % name, name + "_distance",
                                [TL, sel, repr(ivf)], expected=pv, got=sv)
        # several averaging windows at once (a list of intervals): the time average over their union with repetitions,
        # i.e. the length-weighted mean of the single-window values (which the correspondence ties to the model), through
        # the two-train form, the list form and the multivariate form; windows of unequal length, possibly overlapping
        pts = sorted(r.sample([Fr(i, 2 * g) for i in range(2 * g + 1)], 4))
        wins = r.choice([[(pts[0], pts[1]), (pts[2], pts[3])], [(pts[0], pts[2]), (pts[1], pts[3])],
                         [(pts[2], pts[3]), (pts[0], pts[1]), (pts[0], pts[3])]])
        wf = [(float(a_), float(b_)) for a_, b_ in wins]
        for name, fs, kw in (("isi", ctx.ps.isi_distance, {"MRTS": float(m)}),
                             ("spike", ctx.ps.spike_distance, {"MRTS": float(m), "RI": ri})):
            for form, call in (("multi", lambda iv_: fs(sts, interval=iv_, **kw)),
                               ("two", lambda iv_: fs(sts[0], sts[1], interval=iv_, **kw)),
                               ("pair-list", lambda iv_: fs([sts[0], sts[1]], interval=iv_, **kw))):
                whole = core.call_impl(lambda: q(lambda: call(list(wf))))
                parts = [core.call_impl(lambda: q(lambda: call(w_))) for w_ in wf]
                ctx.check()
                if all(isinstance(x_, float) for x_ in parts):
                    want = sum(x_ * (w_[1] - w_[0]) for x_, w_ in zip(parts, wf)) / sum(w_[1] - w_[0] for w_ in wf)
                    ctx.nontrivial(("c05wins", name, form, core.enc(TL), repr(wf)))
                    if not (isinstance(whole, float) and core.close(whole, want)):
                        ctx.violate("%s (%s form): the value over a list of windows != length-weighted mean of the "
                                    "single-window values" % (name, form), name + "_distance", [TL, repr(wf), repr(kw)],
                                    expected=want, got=whole)
        sv = core.call_impl(lambda: ctx.ps.spike_train_order(sts, MRTS='auto', max_tau=float(mt)))
        pv = core.call_impl(lambda: ctx.ps.spike_train_order_profile(sts, MRTS='auto', max_tau=float(mt)).avrg())
        ctx.check()
        if not (isinstance(sv, float) and isinstance(pv, float) and core.close(sv, pv)):
            ctx.violate("order: MRTS='auto' scalar != average of the MRTS='auto' profile", "spike_train_order",
                        [TL], expected=pv, got=sv)
        if n >= 3:
            sel = r.sample(range(n), r.randint(2, n - 1))
            sv = core.call_impl(lambda: ctx.ps.spike_train_order(sts, indices=sel, MRTS='auto', max_tau=float(mt)))
            pv = core.call_impl(lambda: ctx.ps.spike_train_order_profile(sts, indices=sel, MRTS='auto', max_tau=float(mt)).avrg())
            ctx.check()
            if not (isinstance(sv, float) and isinstance(pv, float) and core.close(sv, pv)):
                ctx.violate("order: MRTS='auto' with indices: scalar != average of the profile", "spike_train_order",
                            [TL, sel], expected=pv, got=sv)
    ctx.corr(cases, lambda rid, a: True)
    # LARGE inputs (large.py): single-pass routes and profile routes on long trains and long lists
    ctx.corr(large_pair_cases(ctx, (54, 55, 56, 71, 10, 11, 12, 13, 14)) +
             large_list_cases(ctx, (64, 65, 66, 72), sizes=(18, 24, 34)), lambda rid, a: True, affine_copies=False)
    if large_on(ctx):
        for L in (large.medium_trains(ctx.seed, 16), large.many_trains(ctx.seed, 24), [large.long_pairs(ctx.seed)[0][0]] + large.many_trains(ctx.seed, 5)):
            TLl = [T(x) for x in L]
            nl = len(TLl)
            chk_scalar_profile(ctx, "spike-multi-large", 65, [False, Fr(1, 64), True, None, TLl, None], 61, [False, Fr(1, 64), True, TLl, None], 28, None)
            chk_scalar_profile(ctx, "isi-multi-large", 64, [False, Z, None, TLl, None], 60, [False, Z, TLl, None], 23, None)
            if nl >= 18:
                ixl = [Nat(i) for i in range(nl - 17, nl)]
                chk_scalar_profile(ctx, "sync-multi-large-idx", 66, [False, Z, Z, None, TLl, ixl], 62, [False, Z, Z, TLl, ixl], 34, None)


def chk_scalar_profile(ctx, what, rid_s, args_s, rid_p, args_p, rid_avrg, ivs):
    s = ctx.call(rid_s, args_s)
    p = ctx.call(rid_p, args_p)
    ctx.check()
    if isinstance(p, core.Err):
        ctx.violate("%s profile raises" % what, str(rid_p), args_p, got=p, rid=rid_p)
        return
    pa = [[Fr(v).limit_denominator(10 ** 12) if False else v for v in arr] for arr in p]
    # average of the implementation's own profile object
    if rid_avrg == 34:
        av = core.call_impl(lambda: ctx.ps.DiscreteFunc(pa[0], pa[1], pa[2]).avrg(
            None if ivs is None else (float(ivs[0]), float(ivs[1]))))
    elif rid_avrg == 23:
        av = core.call_impl(lambda: ctx.ps.PieceWiseConstFunc(pa[0], pa[1]).avrg(
            None if ivs is None else (float(ivs[0]), float(ivs[1]))))
    else:
        av = core.call_impl(lambda: ctx.impl._quiet(lambda: ctx.ps.PieceWiseLinFunc(pa[0], pa[1], pa[2]).avrg(
            None if ivs is None else (float(ivs[0]), float(ivs[1])))))
    if not (isinstance(s, float) and isinstance(av, float) and core.close(s, av)):
        ctx.violate("%s scalar != average of profile" % what, str(rid_s), args_s, expected=av, got=s, rid=rid_s)


# ---------------------------------------------------------------------------
def eval_pwc(p, t):
    xs, ys = p
    for k in range(len(ys)):
        if xs[k] < t < xs[k + 1]:
            return ys[k]
    return None


def eval_pwl(p, t):
    xs, y1, y2 = p
    for k in range(len(y1)):
        if xs[k] < t < xs[k + 1]:
            return y1[k] + (y2[k] - y1[k]) * (t - xs[k]) / (xs[k + 1] - xs[k])
    return None


def sample_times(xs):
    pts = sorted(set(xs))
    out = []
    for a, b in zip(pts, pts[1:]):
        out += [a + (b - a) * 0.25, a + (b - a) * 0.75]
    return out


@prop("C06")
def c06(ctx):
    r = ctx.rng
    lists, g = ctx.space.random_lists()
    lists = ctx.part(lists)
    small, gs = ctx.space.small_lists(3, 2, 4, limit=600 if ctx.tier == "quick" else 4000)
    small = ctx.part(small)
    ctx.bump("lists_random", len(lists))
    ctx.bump("lists_small_exhaustive_sampled", len(small))
    # lists in which one train is a copy of another with every spike 2^-20 later (nearly equal pair profiles
    # must still be merged breakpoint by breakpoint), and lists with an exact copy
    near = []
    for L in lists[:ctx.n(60 if ctx.tier == "quick" else 600)]:
        if L[0]:
            jit = [x + Fr(1, 2 ** 20) if x < 1 else x - Fr(1, 2 ** 20) for x in L[0]]
            near.append([L[0], sorted(set(jit))] + L[1:])
            near.append([L[0]] + L[1:] + [list(L[0])])
    ctx.bump("lists_with_near_or_exact_copies", len(near))
    cases = []
    for L, gg in [(x, g) for x in lists] + [(x, gs) for x in small] + [(x, g) for x in near]:
        TL = [T(x) for x in L]
        n = len(L)
        m = r.choice(mrts_grid(gg)[:3])
        mt = r.choice(maxtau_grid(gg))
        ri = r.random() < 0.5
        nt = sum(len(x) for x in L) >= 3
        if nt:
            ctx.nontrivial(("c06", core.enc(TL), m, mt, ri))
        cases += [(60, [False, m, TL, None]), (61, [False, m, ri, TL, None]), (62, [False, mt, m, TL, None]),
                  (64, [False, m, None, TL, None]), (65, [False, m, ri, None, TL, None]),
                  (66, [False, mt, m, None, TL, None]), (67, [False, m, None, TL, None]),
                  (68, [False, m, ri, None, TL, None]), (69, [False, mt, m, None, TL, None])]
        prs = [(i, j) for i in range(n) for j in range(i + 1, n)]
        # ISI / SPIKE multi profile == mean of the bivariate profiles at sample times
        for what, rid_m, args_m, rid_b, mkargs, ev in (
                ("isi", 60, [False, m, TL, None], 50, lambda a, b: [False, m, a, b], eval_pwc),
                ("spike", 61, [False, m, ri, TL, None], 51, lambda a, b: [False, m, ri, a, b], eval_pwl)):
            P = ctx.call(rid_m, args_m)
            ctx.check()
            if isinstance(P, core.Err):
                ctx.violate("%s multi profile raises" % what, str(rid_m), args_m, got=P, rid=rid_m)
                continue
            bis = [ctx.call(rid_b, mkargs(TL[i], TL[j])) for i, j in prs]
            allx = sorted(set(x for b in bis for x in b[0]))
            if not feq(sorted(set(P[0])), allx) or any(P[0][k] >= P[0][k + 1] for k in range(len(P[0]) - 1)):
                ctx.violate("%s multi breakpoints != union of pair breakpoints" % what, str(rid_m), args_m,
                            expected=allx, got=P[0], rid=rid_m)
                continue
            for t in sample_times(P[0]):
                exp = sum(ev(b, t) for b in bis) / len(bis)
                got = ev(P, t)
                if got is None or not core.close(exp, got):
                    ctx.violate("%s multi profile != mean of pair profiles at t=%r" % (what, t), str(rid_m),
                                args_m, expected=exp, got=got, rid=rid_m)
                    break
            # one-sided limits at breakpoints for the linear profile
            if what == "spike":
                def lims(p, x):
                    xs, y1, y2 = p
                    lo = hi = None
                    for k in range(len(y1)):
                        if xs[k] <= x <= xs[k + 1] and xs[k] < xs[k + 1]:
                            v = y1[k] + (y2[k] - y1[k]) * (x - xs[k]) / (xs[k + 1] - xs[k])
                            if x > xs[k]:
                                lo = v if lo is None else lo
                            if x < xs[k + 1]:
                                hi = v
                    return lo, hi
                for x in P[0]:
                    lo, hi = lims(P, x)
                    for side, got in ((0, lo), (1, hi)):
                        if got is None:
                            continue
                        exp = sum(lims(b, x)[side] for b in bis) / len(bis)
                        if not core.close(exp, got):
                            ctx.violate("spike multi one-sided limit != mean at x=%r" % x, "61", args_m,
                                        expected=exp, got=got, rid=61)
                            break
            # multi distance == mean of pair distances
            rid_d, args_d, rid_db, mk_db = (
                (64, [False, m, None, TL, None], 54, lambda a, b: [False, m, None, a, b]) if what == "isi" else
                (65, [False, m, ri, None, TL, None], 55, lambda a, b: [False, m, ri, None, a, b]))
            D = ctx.call(rid_d, args_d)
            ds = [ctx.call(rid_db, mk_db(TL[i], TL[j])) for i, j in prs]
            ctx.check()
            if not (isinstance(D, float) and all(isinstance(d, float) for d in ds)
                    and core.close(D, sum(ds) / len(ds))):
                ctx.violate("%s multi distance != mean of pair distances" % what, str(rid_d), args_d,
                            expected=ds, got=D, rid=rid_d)
            # matrix
            rid_M, args_M = ((67, [False, m, None, TL, None]) if what == "isi"
                             else (68, [False, m, ri, None, TL, None]))
            M = ctx.call(rid_M, args_M)
            ctx.check()
            okM = not isinstance(M, core.Err) and all(abs(M[i][i]) < 1e-12 for i in range(n))
            if okM:
                for (i, j), d in zip(prs, ds):
                    if not (isinstance(d, float) and core.close(M[i][j], d) and core.close(M[j][i], d)):
                        okM = False
            if not okM:
                ctx.violate("%s matrix != bivariate values / not symmetric / diagonal" % what, str(rid_M),
                            args_M, expected=ds, got=M, rid=rid_M)
        # sync multi profile: per event time summed counts and multiplicities
        P = ctx.call(62, [False, mt, m, TL, None])
        ctx.check()
        bis = [ctx.call(52, [False, mt, m, TL[i], TL[j]]) for i, j in prs]
        if isinstance(P, core.Err):
            ctx.violate("sync multi profile raises", "62", [False, mt, m, TL, None], got=P, rid=62)
        else:
            exp = {}
            for b in bis:
                for x, y, mp in list(zip(*b))[1:-1]:
                    e = exp.setdefault(x, [0.0, 0.0])
                    e[0] += y
                    e[1] += mp
            got = {}
            for x, y, mp in list(zip(*P))[1:-1]:
                if x in got:
                    got[x] = None
                else:
                    got[x] = [y, mp]
            if sorted(exp) != sorted(got) or any(got[x] is None or not feq(exp[x], got[x]) for x in exp) or \
                    [x for x in P[0][1:-1]] != sorted(P[0][1:-1]):
                ctx.violate("sync multi profile != per-time sums over pairs", "62", [False, mt, m, TL, None],
                            expected=sorted(exp.items()), got=P, rid=62)
            S = ctx.call(66, [False, mt, m, None, TL, None])
            tot = [sum(v[0] for v in exp.values()), sum(v[1] for v in exp.values())]
            e = 1.0 if tot[1] == 0 else tot[0] / tot[1]
            if not (isinstance(S, float) and core.close(S, e)):
                ctx.violate("sync multi value != total coincidences / total multiplicity", "66",
                            [False, mt, m, None, TL, None], expected=e, got=S, rid=66)
            M = ctx.call(69, [False, mt, m, None, TL, None])
            okM = not isinstance(M, core.Err) and all(abs(M[i][i] - 1) < 1e-12 for i in range(n))
            if okM:
                for (i, j) in prs:
                    d = ctx.call(56, [False, mt, m, None, TL[i], TL[j]])
                    if not (isinstance(d, float) and core.close(M[i][j], d) and core.close(M[j][i], d)):
                        okM = False
            if not okM:
                ctx.violate("sync matrix != bivariate values / diagonal 1", "69", [False, mt, m, None, TL, None],
                            got=M, rid=69)
        # permutation invariance
        perm = list(range(n))
        r.shuffle(perm)
        PL = [TL[i] for i in perm]
        for rid, a1, a2 in ((60, [False, m, TL, None], [False, m, PL, None]),
                            (61, [False, m, ri, TL, None], [False, m, ri, PL, None]),
                            (62, [False, mt, m, TL, None], [False, mt, m, PL, None]),
                            (64, [False, m, None, TL, None], [False, m, None, PL, None]),
                            (65, [False, m, ri, None, TL, None], [False, m, ri, None, PL, None]),
                            (66, [False, mt, m, None, TL, None], [False, mt, m, None, PL, None])):
            x, y = ctx.call(rid, a1), ctx.call(rid, a2)
            ctx.check()
            if rid == 62 and not isinstance(x, core.Err) and not isinstance(y, core.Err):
                x = [v[1:-1] for v in x]
                y = [v[1:-1] for v in y]          # edge entries never count
            if not feq(x, y):
                ctx.violate("result depends on list order (perm %r)" % perm, str(rid), a1, expected=x, got=y, rid=rid)
        # a selection may name a train twice (positions, not a set): all-pairs aggregate over the selected positions
        rx = [Nat(i) for i in r.sample(range(n), r.randint(2, n))]
        rx = rx + [r.choice(rx)]
        r.shuffle(rx)
        if r.random() < 0.4:
            rx = rx[:2] + rx[:2] + rx[2:]          # the same ordered pair twice, e.g. [0, 1, 0, 1]
        cases += [(60, [False, m, TL, rx]), (61, [False, m, ri, TL, rx]), (62, [False, mt, m, TL, rx]),
                  (64, [False, m, None, TL, rx]), (65, [False, m, ri, None, TL, rx]), (66, [False, mt, m, None, TL, rx]),
                  (67, [False, m, None, TL, rx]), (68, [False, m, ri, None, TL, rx]), (69, [False, mt, m, None, TL, rx])]
        # the same aggregates over a sub-interval, SPIKE-Sync with max_tau as well
        iv = r.choice(intervals_for(r, gg)[1:])
        cases += [(64, [False, m, iv, TL, None]), (65, [False, m, ri, iv, TL, None]), (66, [False, mt, m, iv, TL, None]),
                  (67, [False, m, iv, TL, None]), (68, [False, m, ri, iv, TL, None]), (69, [False, mt, m, iv, TL, None])]
        for what, rid_d, args_d, rid_b, mk_b in (
                ("isi", 64, [False, m, iv, TL, None], 54, lambda a, b: [False, m, iv, a, b]),
                ("spike", 65, [False, m, ri, iv, TL, None], 55, lambda a, b: [False, m, ri, iv, a, b])):
            D = ctx.call(rid_d, args_d)
            ds = [ctx.call(rid_b, mk_b(TL[i], TL[j])) for i, j in prs]
            ctx.check()
            if not (isinstance(D, float) and all(isinstance(d, float) for d in ds) and core.close(D, sum(ds) / len(ds))):
                ctx.violate("%s multi distance over an interval != mean of pair distances" % what, str(rid_d), args_d,
                            expected=ds, got=D, rid=rid_d)
        # ... and over a LIST of windows (unequal lengths, possibly overlapping): still the mean of the pair distances
        # over the same list, and the average of the multivariate profile over it
        wp = sorted(r.sample([Fr(i, 2 * gg) for i in range(2 * gg + 1)], 4))
        wl = [(float(a_), float(b_)) for a_, b_ in r.choice([[(wp[0], wp[1]), (wp[2], wp[3])], [(wp[0], wp[2]), (wp[1], wp[3])]])]
        stw = ctx.impl.trains(TL)
        qw = ctx.impl._quiet
        for name, f, fp_, kw in (("isi", ctx.ps.isi_distance, ctx.ps.isi_profile, {"MRTS": float(m)}),
                                ("spike", ctx.ps.spike_distance, ctx.ps.spike_profile, {"MRTS": float(m), "RI": ri})):
            Dw = core.call_impl(lambda: qw(lambda: float(f(stw, interval=list(wl), **kw))))
            dsw = [core.call_impl(lambda: qw(lambda: float(f(stw[i], stw[j], interval=list(wl), **kw)))) for i, j in prs]
            Pw = core.call_impl(lambda: qw(lambda: float(fp_(stw, **kw).avrg(list(wl)))))
            ctx.check()
            ctx.nontrivial(("c06wins", name, core.enc(TL), repr(wl)))
            if not (isinstance(Dw, float) and isinstance(Pw, float) and all(isinstance(d, float) for d in dsw)
                    and core.close(Dw, sum(dsw) / len(dsw)) and core.close(Dw, Pw)):
                ctx.violate("%s multi distance over a list of windows != mean of the pair distances / != profile average"
                            % name, name + "_distance", [TL, repr(wl), repr(kw)], expected=[dsw, Pw], got=Dw)
        M = ctx.call(69, [False, mt, m, iv, TL, None])
        ctx.check()
        okM = not isinstance(M, core.Err)
        if okM:
            for (i, j) in prs:
                d = ctx.call(56, [False, mt, m, iv, TL[i], TL[j]])
                if not (isinstance(d, float) and core.close(M[i][j], d) and core.close(M[j][i], d)):
                    okM = False
        if not okM:
            ctx.violate("sync matrix over an interval (max_tau given) != bivariate values", "69",
                        [False, mt, m, iv, TL, None], got=M, rid=69)
        # MRTS='auto': the multivariate distance is the mean of the pair distances at the threshold pooled over the list
        sts = ctx.impl.trains(TL)
        from pyspike.isi_lengths import default_thresh
        auto = core.call_impl(lambda: float(default_thresh(sts)))
        if isinstance(auto, float):
            for name, f in (("isi_distance", ctx.ps.isi_distance), ("spike_distance", ctx.ps.spike_distance)):
                Da = core.call_impl(lambda: float(f(sts, MRTS='auto')))
                Pa = core.call_impl(lambda: float(getattr(ctx.ps, name.replace("distance", "profile"))(sts, MRTS='auto').avrg()))
                dsa = [core.call_impl(lambda: float(f(sts[i], sts[j], MRTS=auto))) for i, j in prs]
                ctx.check()
                if not (isinstance(Da, float) and isinstance(Pa, float) and all(isinstance(d, float) for d in dsa)
                        and core.close(Da, sum(dsa) / len(dsa)) and core.close(Da, Pa)):
                    ctx.violate("%s(list, MRTS='auto') != mean of the pair distances at the pooled threshold / != average "
                                "of the 'auto' multivariate profile" % name, name, [TL], expected=[dsa, Pa], got=Da)
    ctx.corr(cases, lambda rid, a: sum(len(t[0]) for t in a[-2]) >= 3)
    # LARGE inputs (large.py): many trains (17, 31, 34: every kind of remainder in block-wise reductions) and summed
    # profiles with 1000+ points and events on the edges
    xl6 = []
    if large_on(ctx):
        XL = [T(x) for x in large.medium_trains(ctx.seed, 8, k=150, g=4096)]     # summed profiles with 1200+ points, edge events
        xl6 = [(62, [False, Z, Z, XL, None]), (66, [False, Z, Z, None, XL, None]), (60, [False, Z, XL, None]),
               (62, [False, Fr(1, 256), Z, XL, [Nat(7), Nat(0), Nat(5)]])]
    ctx.corr(large_list_cases(ctx, (60, 61, 62, 64, 65, 66, 67, 68, 69)) + xl6, lambda rid, a: True, affine_copies=False)
    # SPIKE / ISI on large lists without the model: the multivariate profile is the mean of the pair profiles at sample
    # times, the distance is the average of the profile and the mean of the pair distances
    if large_on(ctx):
        import numpy as np
        for Lm in (large.medium_trains(ctx.seed, 16), [large.long_pairs(ctx.seed)[0][0]] + large.many_trains(ctx.seed, 5),
                   large.many_trains(ctx.seed, 31)):
            stl = ctx.impl.trains([T(x) for x in Lm])
            nl = len(stl)
            qq_ = ctx.impl._quiet
            prs_ = [(i, j) for i in range(nl) for j in range(i + 1, nl)]
            times = [0.0078125 * k_ + 0.001953125 for k_ in range(1, 127, 9)]
            for name, fp_, fd_ in (("spike", ctx.ps.spike_profile, ctx.ps.spike_distance),
                                   ("isi", ctx.ps.isi_profile, ctx.ps.isi_distance)):
                got = core.call_impl(lambda: qq_(lambda: [[float(v_) for v_ in np.atleast_1d(fp_(stl)(times))],
                                                          float(fd_(stl)), float(fp_(stl).avrg())]))
                want = core.call_impl(lambda: qq_(lambda: [
                    [float(sum(col) / len(prs_)) for col in zip(*[np.atleast_1d(fp_(stl[i], stl[j])(times)) for i, j in prs_])],
                    float(sum(fd_(stl[i], stl[j]) for i, j in prs_) / len(prs_))]))
                ctx.check()
                ctx.nontrivial(("c06large", name, nl))
                if isinstance(got, core.Err) or isinstance(want, core.Err) or not feq(got[0], want[0], 1e-9) \
                        or not core.close(got[1], want[1]) or not core.close(got[1], got[2]):
                    ctx.violate("%s of a large list: multivariate profile != mean of the pair profiles / distance != mean of "
                                "pairs / != profile average" % name, name + "_profile", [Nat(nl)], expected=want, got=got)


# ---------------------------------------------------------------------------
@prop("C07")
def c07(ctx):
    r = ctx.rng
    for pairs, g in pairs_for(ctx, limit_ex=3500, n_rand=1200):
        cases = []
        for a, b in pairs:
            m = r.choice(mrts_grid(g)[:3])
            mt = r.choice(maxtau_grid(g))
            ri = r.random() < 0.5
            A, B = T(a), T(b)
            if nontrivial_pair(a, b):
                ctx.nontrivial(("c07", core.enc([a, b]), m, mt, ri))
            ivs = intervals_for(r, g, 1)
            cases += [(54, [False, m, None, A, B]), (55, [False, m, ri, None, A, B])]
            p_isi = ctx.call(50, [False, m, A, B])
            p_spk = ctx.call(51, [False, m, ri, A, B])
            p_syn = ctx.call(52, [False, mt, m, A, B])
            p_ord = ctx.call(53, [False, mt, m, A, B])
            ctx.check(4)
            for nm, p, lo, hi in (("isi", p_isi, 0, 1), ("spike", p_spk, 0, 1)):
                vals = None if isinstance(p, core.Err) else [v for arr in p[1:] for v in arr]
                if vals is None or not all(core.all_finite(v) and lo - 1e-12 <= v <= hi + 1e-12 for v in vals):
                    ctx.violate("%s profile value outside [0,1] / not finite" % nm, nm + "_profile",
                                [m, ri, A, B], got=p)
            if isinstance(p_syn, core.Err) or not all(-1e-12 <= y <= mp + 1e-12 for y, mp in zip(p_syn[1], p_syn[2])):
                ctx.violate("sync profile entry outside [0, multiplicity]", "spike_sync_profile", [mt, m, A, B], got=p_syn)
            if isinstance(p_ord, core.Err) or not all(abs(y) <= mp + 1e-12 for y, mp in zip(p_ord[1], p_ord[2])):
                ctx.violate("order profile entry outside [-mp, mp]", "spike_train_order_profile", [mt, m, A, B], got=p_ord)
            for iv in ivs:
                for nm, rid, args, swp, lo, hi in (
                        ("isi", 54, [False, m, iv, A, B], [False, m, iv, B, A], 0, 1),
                        ("spike", 55, [False, m, ri, iv, A, B], [False, m, ri, iv, B, A], 0, 1),
                        ("sync", 56, [False, mt, m, iv, A, B], [False, mt, m, iv, B, A], 0, 1)):
                    v = ctx.call(rid, args)
                    w = ctx.call(rid, swp)
                    ctx.check()
                    if not (isinstance(v, float) and core.all_finite(v) and lo - 1e-12 <= v <= hi + 1e-12):
                        ctx.violate("%s value outside range / not finite" % nm, str(rid), args, got=v, rid=rid)
                    elif not (isinstance(w, float) and core.close(v, w)):
                        ctx.violate("%s not symmetric" % nm, str(rid), args, expected=v, got=w, rid=rid)
                    idv = ctx.call(rid, args[:-1] + [args[-2]])
                    exp = 1.0 if nm == "sync" else 0.0
                    if not (isinstance(idv, float) and abs(idv - exp) < 1e-12):
                        ctx.violate("%s identity" % nm, str(rid), args[:-1] + [args[-2]], expected=exp, got=idv, rid=rid)
            # profiles symmetric too
            for rid, args, swp in ((50, [False, m, A, B], [False, m, B, A]),
                                   (51, [False, m, ri, A, B], [False, m, ri, B, A]),
                                   (52, [False, mt, m, A, B], [False, mt, m, B, A])):
                x, y = ctx.call(rid, args), ctx.call(rid, swp)
                ctx.check()
                if not feq(x, y):
                    ctx.violate("profile not symmetric", str(rid), args, expected=x, got=y, rid=rid)
            for nrm in (True, False):
                o = ctx.call(71, [False, nrm, mt, m, A, B])
                d = ctx.call(74, [False, nrm, mt, m, A, B])
                ctx.check(2)
                if nrm:
                    for nm, v in (("order", o), ("directionality", d)):
                        if not (isinstance(v, float) and core.all_finite(v) and abs(v) <= 1 + 1e-12):
                            ctx.violate("%s outside [-1,1] / not finite" % nm, nm, [nrm, mt, m, A, B], got=v)
            ds = ctx.call(74, [False, False, mt, m, A, A])
            if not (isinstance(ds, float) and abs(ds) < 1e-12):
                ctx.violate("directionality of a train with itself != 0", "spike_directionality", [mt, m, A, A], got=ds)
        ctx.corr(cases, pair_nt)
    # the axioms with MRTS='auto' on degenerate input (empty, one spike, edge spikes): finite, in range,
    # symmetric, identity
    deg = [[], [Z], [ONE], [Fr(1, 2)], [Z, ONE], [Z, Fr(1, 4)], [Fr(3, 4), ONE], [Fr(1, 8), Fr(1, 2), Fr(7, 8)]]
    ps = ctx.ps
    for a in ctx.part(deg):
        for b in deg:
            A, B = ctx.impl.train(T(a)), ctx.impl.train(T(b))
            for nm, f, ident in (("isi_distance", ps.isi_distance, 0.0), ("spike_distance", ps.spike_distance, 0.0),
                                 ("spike_sync", ps.spike_sync, 1.0)):
                for kwa in (dict(MRTS='auto'), dict(MRTS='auto', interval=(0.25, 0.75))) + \
                        ((dict(MRTS='auto', RI=True),) if nm == "spike_distance" else ()):
                    v = core.call_impl(lambda: float(f(A, B, **kwa)))
                    w = core.call_impl(lambda: float(f(B, A, **kwa)))
                    i_ = core.call_impl(lambda: float(f(A, A.copy(), **kwa)))
                    ctx.check()
                    ctx.nontrivial(("c07auto", nm, core.enc([a, b]), repr(sorted(kwa))))
                    if not (isinstance(v, float) and core.all_finite(v) and -1e-12 <= v <= 1 + 1e-12):
                        ctx.violate("%s with MRTS='auto' outside [0,1] / not finite" % nm, nm, [T(a), T(b), repr(kwa)], got=v)
                    elif not (isinstance(w, float) and core.close(v, w)):
                        ctx.violate("%s with MRTS='auto' not symmetric" % nm, nm, [T(a), T(b), repr(kwa)], expected=v, got=w)
                    if not (isinstance(i_, float) and abs(i_ - ident) < 1e-12):
                        ctx.violate("%s with MRTS='auto': identity" % nm, nm, [T(a), T(a), repr(kwa)], expected=ident, got=i_)
    # the axioms through matrices and index selections: a pair picked out of a longer list (any order,
    # not a prefix) gets the value of that pair; an equal copy at another position counts as identical
    lists, g = ctx.space.random_lists(n=120 if ctx.tier == "quick" else 1500)
    for L in ctx.part(lists):
        L = list(L) + [list(L[0])]
        n = len(L)
        TL = [T(x) for x in L]
        sel = r.sample(range(n), r.randint(2, n))
        if 0 in sel and (n - 1) not in sel:
            sel.append(n - 1)
        nsel = [Nat(i) for i in sel]
        m = r.choice(mrts_grid(g)[:3])
        mt = r.choice(maxtau_grid(g))
        ri = r.random() < 0.5
        iv = r.choice(intervals_for(r, g, 1))
        for nm, rid, args, rid_b, mk, ident in (
                ("isi", 67, [False, m, iv, TL, nsel], 54, lambda a, b: [False, m, iv, a, b], 0.0),
                ("spike", 68, [False, m, ri, iv, TL, nsel], 55, lambda a, b: [False, m, ri, iv, a, b], 0.0),
                ("sync", 69, [False, mt, m, iv, TL, nsel], 56, lambda a, b: [False, mt, m, iv, a, b], 1.0)):
            M = ctx.call(rid, args)
            ctx.check()
            ctx.nontrivial(("c07m", rid, core.enc(args)))
            if isinstance(M, core.Err):
                ctx.violate("%s matrix raises" % nm, str(rid), args, got=M, rid=rid)
                continue
            for p_ in range(len(sel)):
                for q_ in range(len(sel)):
                    v = M[p_][q_]
                    if not (core.all_finite(v) and -1e-12 <= v <= 1 + 1e-12 and core.close(v, M[q_][p_])):
                        ctx.violate("%s matrix entry outside [0,1] / not symmetric" % nm, str(rid), args, got=M, rid=rid)
                        break
                    if p_ != q_:
                        d = ctx.call(rid_b, mk(TL[sel[p_]], TL[sel[q_]]))
                        if not (isinstance(d, float) and core.close(v, d)):
                            ctx.violate("%s matrix entry [%d][%d] != value of the selected pair" % (nm, p_, q_), str(rid), args,
                                        expected=d, got=v, rid=rid)
                            break
                        if L[sel[p_]] == L[sel[q_]] and abs(v - ident) > 1e-12:
                            ctx.violate("%s matrix: equal copies at two positions are not at identity value" % nm, str(rid),
                                        args, expected=ident, got=v, rid=rid)
                            break
                    elif abs(v - ident) > 1e-12:
                        ctx.violate("%s matrix diagonal" % nm, str(rid), args, expected=ident, got=v, rid=rid)
                        break

        # the multivariate VALUES of a selection: a pair selected out of the list (`indices=[i, j]`) has the value of that
        # pair, the same position twice (`indices=[k, k]`: a train with itself) and an equal copy at another position are
        # at the identity value; every selection stays within [0,1] (model: Lem_API7.v, mean of the selected pairs)
        k_ = r.randrange(n)
        for sel2 in ([k_, k_], [0, n - 1], [n - 1, 0], r.sample(range(n), 2), [k_, k_, (k_ + 1) % n]):
            ns2 = [Nat(i) for i in sel2]
            for nm, rid, args, rid_b, mk, ident in (
                    ("isi", 64, [False, m, iv, TL, ns2], 54, lambda a, b: [False, m, iv, a, b], 0.0),
                    ("spike", 65, [False, m, ri, iv, TL, ns2], 55, lambda a, b: [False, m, ri, iv, a, b], 0.0),
                    ("sync", 66, [False, mt, m, iv, TL, ns2], 56, lambda a, b: [False, mt, m, iv, a, b], 1.0)):
                v = ctx.call(rid, args)
                ctx.check()
                ctx.nontrivial(("c07sel", rid, core.enc(args)))
                if not (isinstance(v, float) and core.all_finite(v) and -1e-12 <= v <= 1 + 1e-12):
                    ctx.violate("%s of the selection %r outside [0,1] / not finite / raises" % (nm, sel2), str(rid), args,
                                got=v, rid=rid)
                    continue
                if len(sel2) == 2:
                    d = ctx.call(rid_b, mk(TL[sel2[0]], TL[sel2[1]]))
                    if not (isinstance(d, float) and core.close(v, d)):
                        ctx.violate("%s of indices=%r != value of the selected pair" % (nm, sel2), str(rid), args,
                                    expected=d, got=v, rid=rid)
                    elif L[sel2[0]] == L[sel2[1]] and abs(v - ident) > 1e-12:
                        ctx.violate("%s of a train selected together with itself / an equal copy != identity value" % nm,
                                    str(rid), args, expected=ident, got=v, rid=rid)
    # LARGE inputs (large.py)
    ctx.corr(large_pair_cases(ctx, (54, 55, 56)) + large_list_cases(ctx, (64, 65, 66), sizes=(17,), medium=False), lambda rid, a: True,
             affine_copies=False)
    if large_on(ctx):
        qa_ = ctx.impl._quiet
        lps_ = large.long_pairs(ctx.seed)
        a6 = large._fr(sorted(r.sample(range(0, 4097), 600)))
        b6 = large._fr(sorted(r.sample(range(0, 4097), 7)))
        extra = [(a6, b6), (lps_[2][1], lps_[2][0]), ([x_ + Fr(1, 8) for x_ in lps_[13][0] if x_ + Fr(1, 8) <= 1], lps_[13][1])]
        ctx.corr([(56, [False, mt_, Z, None, T(b_), T(a_)]) for a_, b_ in lps_ + extra for mt_ in (Z, Fr(1, 64))] +
                 [(54, [False, Z, None, T(b_), T(a_)]) for a_, b_ in extra], lambda rid, a: True, affine_copies=False)
        for a_, b_ in lps_[:6] + extra:
            A_, B_ = ctx.impl.train(T(a_)), ctx.impl.train(T(b_))
            for nm, f in (("isi_distance", ctx.ps.isi_distance), ("spike_distance", ctx.ps.spike_distance),
                          ("spike_sync", ctx.ps.spike_sync)):
                v = core.call_impl(lambda: qa_(lambda: float(f(A_, B_, MRTS='auto'))))
                w = core.call_impl(lambda: qa_(lambda: float(f(B_, A_, MRTS='auto'))))
                ctx.check()
                ctx.nontrivial(("c07autolarge", nm, len(a_), len(b_)))
                if not (isinstance(v, float) and isinstance(w, float) and -1e-12 <= v <= 1 + 1e-12 and core.close(v, w)):
                    ctx.violate("%s with MRTS='auto' on long trains: not symmetric / outside [0,1]" % nm, nm,
                                [Nat(len(a_)), Nat(len(b_))], expected=v, got=w)
    large_spike_oracle(ctx, 'c07')


# ---------------------------------------------------------------------------
def xf_train(t, f):
    s, ts, te = t
    return [[f(x) for x in s], f(ts), f(te)]


def mirror_train(t):
    s, ts, te = t
    return [sorted(ts + te - x for x in s), ts, te]


@prop("C08")
def c08(ctx):
    r = ctx.rng
    for pairs, g in pairs_for(ctx, limit_ex=2500, n_rand=900):
        for a, b in pairs:
            m = r.choice(mrts_grid(g)[:3])
            mt = r.choice(maxtau_grid(g))
            ri = r.random() < 0.5
            A, B = T(a), T(b)
            if nontrivial_pair(a, b):
                ctx.nontrivial(("c08", core.enc([a, b]), m, mt, ri))
            c = Fr(r.choice([-8, -3, 5, 8, 32, 2 ** 15, -2 ** 20]), r.choice([1, 4]))
            k = Fr(r.choice([1, 2, 4, 8, 64]), r.choice([1, 1, 4, 16, 2 ** 24, 2 ** 36]))
            if k == 1:
                k = Fr(1, 8)
            base = {}
            for key, rid, args in (("isi", 50, [False, m, A, B]), ("spike", 51, [False, m, ri, A, B]),
                                   ("sync", 52, [False, mt, m, A, B]), ("order", 53, [False, mt, m, A, B]),
                                   ("dI", 54, [False, m, None, A, B]), ("dS", 55, [False, m, ri, None, A, B]),
                                   ("sy", 56, [False, mt, m, None, A, B]), ("order_value", 71, [False, True, mt, m, A, B]),
                                   ("dir", 74, [False, False, mt, m, A, B])):
                base[key] = (rid, args, ctx.call(rid, args))
            for nm, f, km in (("shift %s" % c, lambda x: x + c, Fr(1)), ("scale %s" % k, lambda x: x * k, k)):
                A2, B2 = xf_train(A, f), xf_train(B, f)
                m2, mt2 = m * km, mt * km
                for key, (rid, args, v0) in base.items():
                    if key in ("isi", "dI"):
                        a2 = args[:1] + [m2] + args[2:-2] + [A2, B2]
                    elif key in ("spike", "dS"):
                        a2 = args[:1] + [m2] + args[2:-2] + [A2, B2]
                    elif key in ("sync", "order", "sy"):
                        a2 = args[:1] + [mt2, m2] + args[3:-2] + [A2, B2]
                    else:
                        a2 = args[:2] + [mt2, m2] + [A2, B2]
                    v = ctx.call(rid, a2)
                    ctx.check()
                    if isinstance(v0, list) and not isinstance(v, core.Err):
                        expx = [float(f(Fr(x))) for x in v0[0]]
                        ok = feq(v[0], expx) and feq(v[1:], v0[1:])
                    else:
                        ok = feq(v, v0)
                    if not ok:
                        ctx.violate("%s changes %s" % (nm, key), str(rid), a2, expected=v0, got=v, rid=rid,
                                    base_args=core.enc(args))
            # mirror
            Am, Bm = mirror_train(A), mirror_train(B)
            for key, (rid, args, v0) in base.items():
                a2 = args[:-2] + [Am, Bm]
                v = ctx.call(rid, a2)
                ctx.check()
                if isinstance(v0, core.Err) or isinstance(v, core.Err):
                    ok = False
                elif key == "isi":
                    ok = feq(v[0], [1 - x for x in reversed(v0[0])]) and feq(v[1], list(reversed(v0[1])))
                elif key == "spike":
                    ok = feq(v[0], [1 - x for x in reversed(v0[0])]) and feq(v[1], list(reversed(v0[2]))) \
                        and feq(v[2], list(reversed(v0[1])))
                elif key == "sync":
                    ok = feq(v[0], [1 - x for x in reversed(v0[0])]) and feq(v[1], list(reversed(v0[1]))) \
                        and feq(v[2], list(reversed(v0[2])))
                elif key == "order":
                    # the two edge entries only frame the profile and never count
                    ok = feq(v[0], [1 - x for x in reversed(v0[0])]) and \
                        feq(v[1][1:-1], [-y for y in reversed(v0[1][1:-1])]) and feq(v[2], list(reversed(v0[2])))
                elif key in ("order_value", "dir"):
                    ok = feq(v, -v0)
                else:
                    ok = feq(v, v0)
                if not ok:
                    ctx.violate("mirror relation fails for %s" % key, str(rid), a2, expected=v0, got=v, rid=rid,
                                base_args=core.enc(args))
    # a very small time unit with the DEFAULT reconciliation (absolute tolerances must not eat spikes), and
    # time reversal of values over a sub-interval whose borders sit on spike times (the interval is reflected too)
    rnd, g = ctx.space.random_pairs(n=300 if ctx.tier == "quick" else 4000)
    for a, b in ctx.part(rnd):
        m = r.choice(mrts_grid(g)[:3])
        mt = r.choice(maxtau_grid(g))
        ri = r.random() < 0.5
        A, B = T(a), T(b)
        k = Fr(1, 2 ** r.choice([20, 24]))
        f = lambda x: x * k
        A2, B2 = xf_train(A, f), xf_train(B, f)
        for key, rid, args, a2 in (("dI", 54, [True, m, None, A, B], [True, m * k, None, A2, B2]),
                                   ("dS", 55, [True, m, ri, None, A, B], [True, m * k, ri, None, A2, B2]),
                                   ("sy", 56, [True, mt, m, None, A, B], [True, mt * k, m * k, None, A2, B2]),
                                   ("order_value", 71, [True, True, mt, m, A, B], [True, True, mt * k, m * k, A2, B2]),
                                   ("dir", 74, [True, False, mt, m, A, B], [True, False, mt * k, m * k, A2, B2])):
            v0, v = ctx.call(rid, args), ctx.call(rid, a2)
            ctx.check()
            if not feq(v, v0):
                ctx.violate("scale %s (default Reconcile) changes %s" % (k, key), str(rid), a2, expected=v0, got=v, rid=rid,
                            base_args=core.enc(args))
        pts = sorted(set(a + b + [Z, ONE]))
        if len(pts) >= 3:
            lo, hi = sorted(r.sample(pts, 2))
            iv, ivm = [lo, hi], [1 - hi, 1 - lo]
            Am, Bm = mirror_train(A), mirror_train(B)
            for key, rid, args, a2 in (("dI", 54, [False, m, iv, A, B], [False, m, ivm, Am, Bm]),
                                       ("dS", 55, [False, m, ri, iv, A, B], [False, m, ri, ivm, Am, Bm]),
                                       ("sy", 56, [False, mt, m, iv, A, B], [False, mt, m, ivm, Am, Bm]),
                                       ("sy-multi", 66, [False, mt, m, iv, [A, B, A], None], [False, mt, m, ivm, [Am, Bm, Am], None])):
                v0, v = ctx.call(rid, args), ctx.call(rid, a2)
                ctx.check()
                if not feq(v, v0):
                    ctx.violate("mirror relation fails for %s over the sub-interval %s" % (key, core.enc(iv)), str(rid), a2,
                                expected=v0, got=v, rid=rid, base_args=core.enc(args))
    # the same relations for lists of trains (multivariate profiles and values) and with MRTS='auto'
    # (the automatic threshold moves with the time axis and is the same for the reflected list)
    lists, g = ctx.space.random_lists(n=150 if ctx.tier == "quick" else 2000)
    ps = ctx.ps
    q = ctx.impl._quiet
    for L in ctx.part(lists):
        L = [sorted(set(t + ([Z] if r.random() < 0.25 else []) + ([ONE] if r.random() < 0.25 else []))) for t in L]
        TL = [T(t) for t in L]
        m = r.choice(mrts_grid(g)[:3])
        mt = r.choice(maxtau_grid(g))
        ri = r.random() < 0.5
        c = Fr(r.choice([-8, -3, 5, 32, 2 ** 15, -2 ** 15, 2 ** 20]), r.choice([1, 4]))
        k = Fr(r.choice([2, 4, 8, 64]), r.choice([1, 4, 16, 2 ** 24, 2 ** 36]))
        ctx.nontrivial(("c08l", core.enc(TL), m, mt, ri))
        xfs = (("shift %s" % c, lambda x: x + c, Fr(1), False), ("scale %s" % k, lambda x: x * k, k, False),
               ("mirror", lambda x: 1 - x, Fr(1), True))
        for key, rid, pre, kind in (("isi", 60, [False, m], "pwc"), ("spike", 61, [False, m, ri], "pwl"),
                                    ("sync", 62, [False, mt, m], "df"), ("order", 63, [False, mt, m], "dfneg"),
                                    ("dI", 64, [False, m, None], "v"), ("dS", 65, [False, m, ri, None], "v"),
                                    ("sy", 66, [False, mt, m, None], "v"), ("F", 72, [False, True, mt, m], "vneg")):
            v0 = ctx.call(rid, pre + [TL, None])
            for nm, f, km, rev in xfs:
                TL2 = [[sorted(f(x) for x in t[0]), min(f(t[1]), f(t[2])), max(f(t[1]), f(t[2]))] for t in TL]
                pre2 = [km * x if isinstance(x, Fr) else x for x in pre]
                v = ctx.call(rid, pre2 + [TL2, None])
                ctx.check()
                if isinstance(v0, core.Err) or isinstance(v, core.Err):
                    ok = False
                elif kind in ("v", "vneg"):
                    ok = feq(v, -v0 if (rev and kind == "vneg") else v0)
                    if rev and kind == "vneg" and not any(t for t in L):
                        ok = True       # all-empty input: known finding F13 (reported by the pair oracle above)
                else:
                    ex = [float(f(Fr(x))) for x in v0[0]]
                    if not rev:
                        ok = feq(v[0], ex) and feq(v[1:], v0[1:])
                    elif kind == "pwc":
                        ok = feq(v[0], ex[::-1]) and feq(v[1], v0[1][::-1])
                    elif kind == "pwl":
                        ok = feq(v[0], ex[::-1]) and feq(v[1], v0[2][::-1]) and feq(v[2], v0[1][::-1])
                    elif kind == "df":
                        ok = feq(v[0], ex[::-1]) and feq(v[1][1:-1], v0[1][1:-1][::-1]) and feq(v[2][1:-1], v0[2][1:-1][::-1])
                    else:
                        ok = feq(v[0], ex[::-1]) and feq(v[1][1:-1], [-y for y in v0[1][1:-1][::-1]]) and \
                            feq(v[2][1:-1], v0[2][1:-1][::-1])
                if not ok:
                    ctx.violate("%s relation fails for the multivariate %s" % (nm, key), str(rid), pre2 + [TL2, None],
                                expected=v0, got=v, rid=rid, base_args=core.enc(pre + [TL, None]))
        # MRTS='auto': scalars unchanged by shift / scale / mirror (order value negated by the mirror)
        sts = ctx.impl.trains(TL)
        for nm, f, km, rev in xfs:
            sts2 = ctx.impl.trains([[sorted(f(x) for x in t[0]), min(f(t[1]), f(t[2])), max(f(t[1]), f(t[2]))] for t in TL])
            for name, fn, neg in (("isi_distance", ps.isi_distance, False), ("spike_distance", ps.spike_distance, False),
                                  ("spike_sync", ps.spike_sync, False), ("spike_train_order", ps.spike_train_order, True)):
                forms = [((sts,), (sts2,)), ((sts[0], sts[1]), (sts2[0], sts2[1]))]
                for fa, fb in forms:
                    v0 = core.call_impl(lambda: q(lambda: float(fn(*fa, MRTS='auto'))))
                    v = core.call_impl(lambda: q(lambda: float(fn(*fb, MRTS='auto'))))
                    ctx.check()
                    want = v0
                    if rev and neg and isinstance(v0, float):
                        if not any(len(s_.spikes) for s_ in fa[0]) if len(fa) == 1 else not (len(fa[0].spikes) or len(fa[1].spikes)):
                            continue    # all-empty input: known finding F13
                        want = -v0
                    if not feq(v, want):
                        ctx.violate("%s relation fails for %s with MRTS='auto'" % (nm, name), name,
                                    [TL, len(fa)], expected=want, got=v)
    # correspondence of the kernels on shifted / scaled recordings (t_start != 0, length != 1)
    cases = []
    rnd, g = ctx.space.random_pairs(n=400 if ctx.tier == "quick" else 5000)
    for a, b in ctx.part(rnd):
        c = Fr(r.choice([-8, -3, 5, 32]), r.choice([1, 4]))
        k = Fr(r.choice([2, 4, 8]), r.choice([1, 16]))
        f = lambda x: x * k + c
        A, B = [f(x) for x in a], [f(x) for x in b]
        ts, te = f(Z), f(ONE)
        m = r.choice(mrts_grid(g)[:3]) * k
        mt = r.choice(maxtau_grid(g)) * k
        cases += [(1, [eff(A, ts, te), eff(B, ts, te), ts, te, m]), (2, [eff(A, ts, te), eff(B, ts, te), ts, te, m, r.random() < 0.5])]
        cases += [(rid, [A, B, ts, te, mt, m]) for rid in (6, 7, 8, 9)]
    ctx.corr(cases, pair_nt, functional=True)
    # isi_lengths / auto threshold scale with time
    for _ in range(ctx.n(300 if ctx.tier == "quick" else 3000)):
        t = gen.rand_train(r, 5, 16)
        k = Fr(r.choice([2, 4, 8]), r.choice([1, 16]))
        x = ctx.call(42, [t, Z, ONE])
        y = ctx.call(42, [[v * k + 3 for v in t], Fr(3), k + 3])
        ctx.check()
        if not feq([v * float(k) for v in x] if not isinstance(x, core.Err) else x, y):
            ctx.violate("isi_lengths not shift/scale equivariant", "isi_lengths", [t, k], expected=x, got=y)
    # LARGE inputs (large.py): a long stretch at the END of the recording is a long stretch at the START of the mirrored
    # one - both are tied to the model here, which is mirror-symmetric by theorem
    if large_on(ctx):
        lp = []
        for a, b in large.long_pairs(ctx.seed):
            ma, mb = sorted(ONE - x for x in a), sorted(ONE - x for x in b)
            for m_ in (Z, Fr(3, 2)):
                lp += [(50, [False, m_, T(a), T(b)]), (50, [False, m_, T(ma), T(mb)]),
                       (52, [False, Fr(1, 16), m_, T(a), T(b)]), (52, [False, Fr(1, 16), m_, T(ma), T(mb)]),
                       (53, [False, Z, m_, T(ma), T(mb)])]
        ctx.corr(lp, lambda rid, a: True, affine_copies=False)


# ---------------------------------------------------------------------------
def all_bp_pairs(ctx):
    maxn, g = (3, 8) if ctx.tier == "quick" else (4, 8)
    sets = gen.all_interleavings_pwc(maxn, g)
    pairs = ctx.part([(a, b) for a in sets for b in sets])
    lim = ctx.n(4096 if ctx.tier == "quick" else 30000)
    if len(pairs) > lim:
        pairs = ctx.rng.sample(pairs, lim)
        ctx.bump("breakpoint_set_pairs_sampled", len(pairs))
    else:
        ctx.bump("breakpoint_set_pairs_exhaustive", len(pairs))
    return pairs


def vals(r, n):
    return [r.choice(gen.VALS) for _ in range(n)]


def lim_pwc(p, x):
    xs, ys = p
    lo = hi = None
    for k in range(len(ys)):
        if xs[k] < x <= xs[k + 1]:
            lo = ys[k]
        if xs[k] <= x < xs[k + 1]:
            hi = ys[k]
    return lo, hi


def lim_pwl(p, x):
    xs, y1, y2 = p
    lo = hi = None
    for k in range(len(y1)):
        v = y1[k] + (y2[k] - y1[k]) * (x - xs[k]) / (xs[k + 1] - xs[k])
        if xs[k] < x <= xs[k + 1]:
            lo = v
        if xs[k] <= x < xs[k + 1]:
            hi = v
    return lo, hi


def int_pwc(p):
    xs, ys = p
    return sum((xs[k + 1] - xs[k]) * ys[k] for k in range(len(ys)))


def int_pwl(p):
    xs, y1, y2 = p
    return sum((xs[k + 1] - xs[k]) * (y1[k] + y2[k]) / 2 for k in range(len(y1)))


def check_sum(ctx, what, f, g, s, lim, integ, args):
    """s represents f+g pointwise (exact Fractions for f, g; floats for s)"""
    if isinstance(s, core.Err):
        ctx.violate("%s add raises" % what, what + ".add", args, got=s)
        return
    ux = sorted(set(f[0]) | set(g[0]))
    if not feq(s[0], [float(x) for x in ux]):
        ctx.violate("%s add: breakpoints != strictly increasing union" % what, what + ".add", args,
                    expected=ux, got=s[0])
        return
    sf = [[Fr(v).limit_denominator(10 ** 9) for v in arr] for arr in s]
    for x in ux:
        lf, hf = lim(f, x)
        lg, hg = lim(g, x)
        ls, hs = lim(sf, x)
        for side, a, b, c in (("left", lf, lg, ls), ("right", hf, hg, hs)):
            if a is None:
                continue
            if c is None or not core.close(float(a + b), float(c)):
                ctx.violate("%s add: %s limit at %s != sum" % (what, side, x), what + ".add", args,
                            expected=float(a + b), got=None if c is None else float(c))
                return
    if not core.close(float(integ(f) + integ(g)), float(integ(sf))):
        ctx.violate("%s add: integral != sum of integrals" % what, what + ".add", args,
                    expected=float(integ(f) + integ(g)), got=float(integ(sf)))


def jitter(xs, r):
    """a copy of the breakpoint list whose interior points are moved by +-2^-20 (some of them): a grid that
    np.allclose / np.isclose call equal to the original although it is not"""
    out = list(xs)
    moved = False
    for k in range(1, len(out) - 1):
        if r.random() < 0.7:
            # 2^-20, or one unit in the last place of a number in [1/8, 1) (2^-55 .. 2^-53: the next binary64 number)
            d = Fr(1, 2 ** 20) if r.random() < 0.6 else Fr(1, 2 ** (55 - (2 if out[k] >= Fr(1, 2) else 1 if out[k] >= Fr(1, 4) else 0)))
            out[k] = out[k] + (r.choice([-1, 1]) if d > Fr(1, 2 ** 30) else 1) * d
            moved = True
    if not moved and len(out) > 2:
        out[1] = out[1] + Fr(1, 2 ** 20)
    return out


@prop("C09")
def c09(ctx):
    r = ctx.rng
    import numpy as np
    ps = ctx.ps
    cases = []
    for xa, xb in all_bp_pairs(ctx):
        f = (xa, vals(r, len(xa) - 1))
        g = (xb, vals(r, len(xb) - 1))
        fl_ = (xa, vals(r, len(xa) - 1), vals(r, len(xa) - 1))
        gl = (xb, vals(r, len(xb) - 1), vals(r, len(xb) - 1))
        a20 = [f[0], f[1], g[0], g[1]]
        a21 = list(fl_) + list(gl)
        cases += [(20, a20), (21, a21)]
        if len(xa) + len(xb) >= 5:
            ctx.nontrivial(("c09", core.enc(a20)))
            ctx.nontrivial(("c09l", core.enc(a21)))
        ctx.check(2)
        check_sum(ctx, "pwc", f, g, ctx.call(20, a20), lim_pwc, int_pwc, a20)
        check_sum(ctx, "pwl", fl_, gl, ctx.call(21, a21), lim_pwl, int_pwl, a21)
        # spec: executable Coq specification of the pointwise sum
    spec_vs_impl(ctx, [(120, c[1], 20, c[1]) for c in cases if c[0] == 20], "pwc add == pointwise-sum spec")
    spec_vs_impl(ctx, [(121, c[1], 21, c[1]) for c in cases if c[0] == 21], "pwl add == pointwise-sum spec")
    ctx.corr(cases, lambda rid, a: len(a[0]) + len(a[-2 if rid == 20 else -3]) >= 5)
    # nearly equal grids (same number of breakpoints, interior points 2^-20 apart): every breakpoint of
    # both operands must survive, with its own values
    def ulps(xs, n_):
        # every interior point n_ units in the last place further right (binary64 neighbours of the grid points)
        return [xs[0]] + [x_ + n_ * Fr(1, 2 ** (55 - (2 if x_ >= Fr(1, 2) else 1 if x_ >= Fr(1, 4) else 0))) for x_ in xs[1:-1]] + [xs[-1]]
    near = []
    for xa, _ in all_bp_pairs(ctx)[:ctx.n(600 if ctx.tier == "quick" else 6000)]:
        if len(xa) < 3:
            continue
        if r.random() < 0.3:
            # consecutive binary64 numbers as breakpoints of the two operands (the lower one with an odd last bit)
            xa, xb = ulps(xa, 1), ulps(xa, 2)
        else:
            xb = jitter(xa, r)
        near += [(20, [xa, vals(r, len(xa) - 1), xb, vals(r, len(xa) - 1)]),
                 (21, [xa, vals(r, len(xa) - 1), vals(r, len(xa) - 1), xb, vals(r, len(xa) - 1), vals(r, len(xa) - 1)])]
    spec_vs_impl(ctx, [(120, c[1], 20, c[1]) for c in near if c[0] == 20], "pwc add == pointwise-sum spec (nearly equal grids)")
    spec_vs_impl(ctx, [(121, c[1], 21, c[1]) for c in near if c[0] == 21], "pwl add == pointwise-sum spec (nearly equal grids)")
    ctx.corr(near, lambda rid, a: True)
    # histories of add / mul_scalar / copy with aliasing monitor
    hist_items = []
    nh = ctx.n(400 if ctx.tier == "quick" else 5000)
    for _ in range(nh):
        kind = r.choice(["pwc", "pwl"])
        mk = (lambda: gen.rand_pwc(r, 3, 8)) if kind == "pwc" else (lambda: gen.rand_pwl(r, 3, 8))
        cls = ps.PieceWiseConstFunc if kind == "pwc" else ps.PieceWiseLinFunc
        lim, integ = (lim_pwc, int_pwc) if kind == "pwc" else (lim_pwl, int_pwl)
        nobj = r.randint(2, 3)
        exact = [mk() for _ in range(nobj)]           # ground truth as linear combos evaluated pointwise
        objs = []
        try:
            for e in exact:
                arrs = [np.array(core.fl(a), dtype=float) for a in e]
                objs.append(cls(*arrs))
            truth = [[(Fr(1), e)] for e in exact]     # list of (coef, base function)
            ops = []
            for _ in range(r.randint(1, 6)):
                op = r.choice(["add", "add", "mul", "copy"])
                i = r.randrange(len(objs))
                if op == "add":
                    j = r.randrange(len(objs))
                    before = [np.array(a, copy=True) for a in _arrs(objs[j])] if j != i else None
                    objs[i].add(objs[j])
                    truth[i] = truth[i] + list(truth[j])
                    ops.append(["add", i, j])
                    if before is not None and not all(np.array_equal(x, y) for x, y in zip(before, _arrs(objs[j]))):
                        ctx.violate("add modified its operand", kind + " history", repr(ops))
                elif op == "mul":
                    c = r.choice([Fr(1, 2), Fr(2), Fr(-1), Fr(3, 4)])
                    objs[i].mul_scalar(float(c))
                    truth[i] = [(k * c, e) for k, e in truth[i]]
                    ops.append(["mul", i, str(c)])
                else:
                    objs.append(objs[i].copy())
                    truth.append(list(truth[i]))
                    ops.append(["copy", i])
                # queries between the operations: integral() / avrg() always describe the current function
                # (state kept between calls, e.g. a memoised integral, must follow every operation)
                tgt = len(objs) - 1 if op == "copy" else i
                expi = float(sum(k_ * integ(e_) for k_, e_ in truth[tgt]))
                span = float(objs[tgt].x[-1] - objs[tgt].x[0])
                qq = ctx.impl._quiet
                gi = core.call_impl(lambda: qq(lambda: float(objs[tgt].integral())))
                ga = core.call_impl(lambda: qq(lambda: float(objs[tgt].avrg())))
                if not (isinstance(gi, float) and isinstance(ga, float) and core.close(gi, expi) and core.close(ga, expi / span)):
                    ctx.violate("integral()/avrg() after %r is not that of the linear combination" % (ops,), kind + " history",
                                repr(ops), expected=[expi, expi / span], got=[gi, ga], base=core.enc([list(e_) for e_ in exact]))
                # no two live objects may share memory
                for p in range(len(objs)):
                    for q in range(p + 1, len(objs)):
                        if any(np.shares_memory(x, y) for x in _arrs(objs[p]) for y in _arrs(objs[q])):
                            ctx.violate("two objects share an array after %r" % ops, kind + " history", repr(ops))
            ctx.check()
            ctx.nontrivial(("hist", kind, repr(ops), core.enc([list(e) for e in exact])))
            if kind == "pwc":
                mops = [[Nat(0), Nat(o_[1]), Nat(o_[2])] if o_[0] == "add" else
                        [Nat(1), Nat(o_[1]), Fr(o_[2])] if o_[0] == "mul" else [Nat(2), Nat(o_[1])] for o_ in ops]
                hist_items.append(([[list(e[0]), list(e[1])] for e in exact], mops,
                                   [core.canon(ob) for ob in objs]))
            for o_, tr in zip(objs, truth):
                cur = [[Fr(v).limit_denominator(10 ** 9) for v in a.tolist()] for a in _arrs(o_)]
                ux = sorted(set(x for _, e in tr for x in e[0]))
                bad = None
                if not feq([float(x) for x in cur[0]], [float(x) for x in ux]):
                    bad = "breakpoints %r != union %r" % (cur[0], ux)
                else:
                    for x in ux:
                        for side in (0, 1):
                            parts = [lim(e, x)[side] for _, e in tr]
                            if parts[0] is None:
                                continue
                            exp = sum(k * v for (k, _), v in zip(tr, parts))
                            got = lim(cur, x)[side]
                            if got is None or not core.close(float(exp), float(got)):
                                bad = "limit(side %d) at %s: expected %s got %s" % (side, x, exp, got)
                    expi = sum(k * integ(e) for k, e in tr)
                    if bad is None and not core.close(float(expi), float(integ(cur))):
                        bad = "integral expected %s got %s" % (expi, integ(cur))
                if bad:
                    ctx.violate("history result is not the pointwise linear combination: " + bad,
                                kind + " history", repr(ops), base=core.enc([list(e) for e in exact]))
                    break
        except Exception as e:
            ctx.violate("history raises %s: %s" % (type(e).__name__, e), kind + " history", repr(ops),
                        base=core.enc([list(e_) for e_ in exact]))
    ctx.corr_values("history", 94, [([b, o_], [iv, []], None) for b, o_, iv in hist_items], functional=True)
    # functions given with Python-int breakpoints / values (lists of ints are a natural way to write
    # them): the sum with an operand that has non-integer breakpoints must still be the pointwise sum
    for _ in range(ctx.n(120 if ctx.tier == "quick" else 1500)):
        xi = [0] + sorted(r.sample(range(1, 8), r.randint(0, 3))) + [8]
        xf = [Fr(0)] + sorted(set(Fr(r.randint(1, 31), 4) for _ in range(r.randint(1, 3)))) + [Fr(8)]
        for kind in ("pwc", "pwl"):
            nI, nF = len(xi) - 1, len(xf) - 1
            if kind == "pwc":
                fI = (xi, [r.randint(-2, 3) for _ in range(nI)])
                fF = (xf, vals(r, nF))
                cls, lim, integ = ps.PieceWiseConstFunc, lim_pwc, int_pwc
            else:
                fI = (xi, [r.randint(-2, 3) for _ in range(nI)], [r.randint(-2, 3) for _ in range(nI)])
                fF = (xf, vals(r, nF), vals(r, nF))
                cls, lim, integ = ps.PieceWiseLinFunc, lim_pwl, int_pwl
            for recv_int in (True, False):
                A, B = (fI, fF) if recv_int else (fF, fI)
                def mkobj(fn_):
                    if fn_ is fI:
                        return cls(*[list(a) for a in fn_])                       # python ints
                    return cls(*[np.array(core.fl(a), dtype=float) for a in fn_])
                oa, ob = mkobj(A), mkobj(B)
                res = core.call_impl(lambda: (oa.add(ob), oa)[1])
                ctx.check()
                ex = lambda fn_: tuple([Fr(v) for v in a] for a in fn_)
                check_sum(ctx, kind + " (integer-typed operand)", ex(A), ex(B), res, lim, integ,
                          [[list(map(Fr, a)) for a in A], [list(map(Fr, a)) for a in B]])
            ctx.nontrivial(("c09int", kind, core.enc([list(map(Fr, a)) for a in fI]), core.enc([list(a) for a in fF])))
    # pyspike.DiscreteFunc.average_profile (the helper built on add / mul_scalar): the mean, inputs untouched
    import sys as _sys
    avp = getattr(_sys.modules.get("pyspike.DiscreteFunc"), "average_profile", None)
    if avp is not None:
        for _ in range(ctx.n(60 if ctx.tier == "quick" else 600)):
            nP = r.randint(2, 7)
            for kind in ("pwc", "pwl"):
                fs = [(gen.rand_pwc if kind == "pwc" else gen.rand_pwl)(r, 3, 8) for _ in range(nP)]
                cls = ps.PieceWiseConstFunc if kind == "pwc" else ps.PieceWiseLinFunc
                integ = int_pwc if kind == "pwc" else int_pwl
                objs_ = [cls(*[np.array(core.fl(a), dtype=float) for a in f_]) for f_ in fs]
                snap_ = [[np.array(a, copy=True) for a in _arrs(o_)] for o_ in objs_]
                res_ = core.call_impl(lambda: ctx.impl._quiet(lambda: float(avp(objs_).integral())))
                ctx.check()
                want_ = float(sum(integ(f_) for f_ in fs) / nP)
                if not (isinstance(res_, float) and core.close(res_, want_)):
                    ctx.violate("average_profile is not the mean of the profiles", kind + " average_profile", [list(f_) for f_ in fs],
                                expected=want_, got=res_)
                if not all(np.array_equal(x_, y_) for s_, o_ in zip(snap_, objs_) for x_, y_ in zip(s_, _arrs(o_))):
                    ctx.violate("average_profile modified one of its input profiles", kind + " average_profile",
                                [list(f_) for f_ in fs])
            ctx.nontrivial(("c09avg", nP, core.enc([list(f_) for f_ in fs])))
    # order independence: a+b+c in all orders
    for _ in range(ctx.n(150 if ctx.tier == "quick" else 2000)):
        fs = [gen.rand_pwl(r, 3, 8) for _ in range(3)]
        res = []
        for perm in itertools.permutations(range(3)):
            o_ = [ps.PieceWiseLinFunc(*[np.array(core.fl(a)) for a in fs[i]]) for i in perm]
            o_[0].add(o_[1])
            o_[0].add(o_[2])
            res.append(core.canon(o_[0]))
        ctx.check()
        if not all(feq(res[0], x) for x in res[1:]):
            ctx.violate("sum depends on the order of additions", "pwl add x3", [list(f) for f in fs], got=res[:2])
    # LARGE inputs (large.py): runs of >= 8 breakpoints of one operand inside one piece of the other, ending in a shared
    # breakpoint (both orders); a long receiver with a coarse operand that brings two new breakpoints; 1000+ points
    if large_on(ctx):
        lc = []
        for sd in range(3):
            fine, coarse = large.run_then_tie(ctx.seed + sd, nrun=8 + 2 * sd)
            yf, yc = large.vals(sd + 1, len(fine) - 1), large.vals(sd + 7, len(coarse) - 1)
            yf2, yc2 = large.vals(sd + 3, len(fine) - 1), large.vals(sd + 9, len(coarse) - 1)
            lc += [(20, [fine, yf, coarse, yc]), (20, [coarse, yc, fine, yf]),
                   (21, [fine, yf, yf2, coarse, yc, yc2]), (21, [coarse, yc, yc2, fine, yf, yf2])]
        for npieces in (96, 130, 400):
            xl, yl = large.long_pwc(ctx.seed, npieces)
            new = [x_ for x_ in (Fr(1001, 4096 * 2), Fr(4095, 4096 * 2), Fr(6001, 4096 * 2)) if x_ not in xl]
            for op in ([Z] + new[:2] + [ONE], [Z] + new + [ONE], [Z, xl[5], ONE], [Z, ONE]):
                yo = large.vals(len(op), len(op) - 1)
                lc += [(20, [xl, yl, op, yo]), (20, [op, yo, xl, yl])]
            x2, y2 = large.long_pwc(ctx.seed + 5, npieces + 20)
            lc += [(20, [xl, yl, x2, y2])]
            xq, q1, q2 = large.long_pwl(ctx.seed, npieces)
            xr, r1, r2 = large.long_pwl(ctx.seed + 5, npieces + 20)
            lc += [(21, [xq, q1, q2, xr, r1, r2])]
        ctx.bump("large_func_cases", len(lc))
        ctx.corr(lc, lambda rid, a: True, affine_copies=False)


def _arrs(o_):
    if hasattr(o_, "y1"):
        return [o_.x, o_.y1, o_.y2]
    if hasattr(o_, "mp"):
        return [o_.x, o_.y, o_.mp]
    return [o_.x, o_.y]


# ---------------------------------------------------------------------------
@prop("C10")
def c10(ctx):
    r = ctx.rng
    nf = ctx.n(250 if ctx.tier == "quick" else 3000)
    ivs = gen.intervals(16)
    pts = [Fr(i, 16) for i in range(17)]
    cases, quads = [], []
    for _ in range(nf):
        f = gen.rand_pwc(r, 4, 8)
        fl_ = gen.rand_pwl(r, 4, 8)
        if len(f[0]) >= 3:
            ctx.nontrivial(("c10", core.enc(list(f))))
        if len(fl_[0]) >= 3:
            ctx.nontrivial(("c10l", core.enc(list(fl_))))
        sub = r.sample(ivs, 25 if ctx.tier == "quick" else 60)
        for iv in sub:
            cases += [(24, [f[0], f[1], list(iv)]), (29, list(fl_) + [list(iv)])]
            quads += [(110, [f[0], f[1], list(iv)], 24, [f[0], f[1], list(iv)]),
                      (111, list(fl_) + [list(iv)], 29, list(fl_) + [list(iv)])]
        cases += [(24, [f[0], f[1], None]), (29, list(fl_) + [None]), (27, list(f)), (32, list(fl_))]
        many = [list(x) for x in r.sample(ivs, 3)]
        cases += [(23, [f[0], f[1], None]), (23, [f[0], f[1], many[0]]), (23, [f[0], f[1], many]),
                  (28, list(fl_) + [None]), (28, list(fl_) + [many[0]]), (28, list(fl_) + [many])]
        for t in pts:
            cases += [(25, [f[0], f[1], t]), (26, [f[0], f[1], t]), (30, list(fl_) + [t]), (31, list(fl_) + [t])]
            quads += [(112, [f[0], f[1], t], 25, [f[0], f[1], t]), (112, [f[0], f[1], t], 26, [f[0], f[1], t]),
                      (113, list(fl_) + [t], 30, list(fl_) + [t]), (113, list(fl_) + [t], 31, list(fl_) + [t])]
        # times just beside a breakpoint (not exactly representable ties)
        for x in f[0][1:-1]:
            for d in (Fr(1, 2 ** 40), -Fr(1, 2 ** 40)):
                quads += [(112, [f[0], f[1], x + d], 25, [f[0], f[1], x + d])]
        # oracle: additivity and full-support integral on the implementation
        a, b, c = sorted(r.sample(pts, 3))
        for rid, base in ((24, [f[0], f[1]]), (29, list(fl_))):
            i1 = ctx.call(rid, base + [[a, b]])
            i2 = ctx.call(rid, base + [[b, c]])
            i3 = ctx.call(rid, base + [[a, c]])
            full = ctx.call(rid, base + [[Z, ONE]])
            none = ctx.call(rid, base + [None])
            ctx.check(2)
            if not (all(isinstance(v, float) for v in (i1, i2, i3)) and core.close(i1 + i2, i3)):
                ctx.violate("integrals over adjacent intervals do not add up", str(rid), base + [[a, b, c]],
                            expected=i3, got=[i1, i2], rid=rid)
            if not feq(full, none):
                ctx.violate("integral over full support != integral()", str(rid), base, expected=none, got=full, rid=rid)
    # queries interleaved with operations on the SAME object: integral / avrg / evaluation must
    # always describe the object's current state (no stale cached value)
    import numpy as np
    for _ in range(ctx.n(150 if ctx.tier == "quick" else 2000)):
        for kind in ("pwc", "pwl"):
            mk = gen.rand_pwc if kind == "pwc" else gen.rand_pwl
            cls = ctx.ps.PieceWiseConstFunc if kind == "pwc" else ctx.ps.PieceWiseLinFunc
            integ = int_pwc if kind == "pwc" else int_pwl
            f0, g0 = mk(r, 3, 8), mk(r, 3, 8)
            f = cls(*[np.array(core.fl(a), dtype=float) for a in f0])
            g = cls(*[np.array(core.fl(a), dtype=float) for a in g0])
            log = []
            ok = True
            for step in range(r.randint(2, 5)):
                op = r.choice(["mul", "add", "copy", "none"])
                q = ctx.impl._quiet
                before = core.call_impl(lambda: q(lambda: f.integral()))
                if op == "mul":
                    c = r.choice([2.0, -1.0, 0.5, 3.0])
                    f.mul_scalar(c)
                    log.append(["mul", c])
                elif op == "add":
                    f.add(g)
                    log.append(["add"])
                elif op == "copy":
                    orig, orig_arrs = f, [np.array(a, copy=True) for a in _arrs(f)]
                    f = f.copy()
                    f.mul_scalar(2.0)
                    f.mul_scalar(0.5)
                    f.mul_scalar(3.0)
                    if not all(np.array_equal(x_, y_) for x_, y_ in zip(orig_arrs, _arrs(orig))):
                        ctx.violate("scaling a copy changed the original (the copy shares an array with it)",
                                    kind + " query sequence", [list(f0), list(g0)], got=[a.tolist() for a in _arrs(orig)])
                    f.mul_scalar(1.0 / 3.0)
                    f = orig.copy()
                    log.append(["copy"])
                cur = [[Fr(v).limit_denominator(10 ** 9) for v in a.tolist()] for a in _arrs(f)]
                want = float(integ(cur))
                a_, b_ = float(cur[0][0]), float(cur[0][-1])
                got_none = core.call_impl(lambda: q(lambda: f.integral()))
                got_full = core.call_impl(lambda: q(lambda: f.integral((a_, b_))))
                got_avrg = core.call_impl(lambda: q(lambda: f.avrg()))
                ctx.check()
                if not (isinstance(got_none, float) and core.close(got_none, want) and isinstance(got_full, float)
                        and core.close(got_full, want) and isinstance(got_avrg, float)
                        and core.close(got_avrg, want / (b_ - a_))):
                    ctx.violate("integral()/avrg() after %r does not describe the current function" % (log,),
                                kind + " query sequence", [list(f0), list(g0)], expected=want,
                                got=[got_none, got_full, got_avrg])
                    ok = False
                    break
            if ok:
                ctx.nontrivial(("c10seq", kind, repr(log), core.enc([list(f0), list(g0)])))
    spec_vs_impl(ctx, quads, "integral/evaluation == exact definition (overlap integral, limits)")
    ctx.corr(cases, lambda rid, a: len(a[0]) >= 3)
    # a list of times may hold the same time several times, in any order: every entry is evaluated like the
    # single time (interior breakpoints: mean of the two limits, each time)
    for _ in range(ctx.n(120 if ctx.tier == "quick" else 1500)):
        for kind in ("pwc", "pwl"):
            f0 = (gen.rand_pwc if kind == "pwc" else gen.rand_pwl)(r, 4, 8)
            cls = ctx.ps.PieceWiseConstFunc if kind == "pwc" else ctx.ps.PieceWiseLinFunc
            f = cls(*[np.array(core.fl(a), dtype=float) for a in f0])
            xs = core.fl(f0[0])
            pool = xs + sample_times(xs)
            ts = [r.choice(pool) for _ in range(r.randint(2, 5))]
            ts = ts + [ts[0]] + ([xs[1], xs[1]] if len(xs) > 2 else [])
            r.shuffle(ts)
            one = core.call_impl(lambda: [float(f(t)) for t in ts])
            many = core.call_impl(lambda: [float(v) for v in f(ts)])
            ctx.check()
            ctx.nontrivial(("c10rep", kind, core.enc(list(f0)), repr(ts)))
            if isinstance(one, core.Err) or not feq(one, many, 1e-12):
                ctx.violate("%s: f([t, ...]) with repeated / unsorted times differs from the single-time values" % kind,
                            kind + ".__call__", [list(f0), repr(ts)], expected=one, got=many)
    # integer-typed breakpoints (bin edges from np.arange, Python ints) with non-integer values: every query
    # and the plottable arrays equal those of the float-typed function
    for _ in range(ctx.n(100 if ctx.tier == "quick" else 1000)):
        k = r.randint(1, 4)
        xi = [0] + sorted(r.sample(range(1, 9), k)) + [9]
        for kind in ("pwc", "pwl"):
            cls = ctx.ps.PieceWiseConstFunc if kind == "pwc" else ctx.ps.PieceWiseLinFunc
            ys = [[r.choice([0.5, 1.5, -0.25, 2.75, 3.0]) for _ in range(len(xi) - 1)] for _ in range(1 if kind == "pwc" else 2)]
            for mkx in (lambda: np.array(xi), lambda: list(xi)):
                q = ctx.impl._quiet
                ff = cls(np.array(xi, dtype=float), *[np.array(y) for y in ys])
                try:
                    fi = cls(mkx(), *[np.array(y) for y in ys])
                except Exception as e:      # noqa
                    ctx.violate("%s with integer-typed breakpoints cannot be built" % kind, kind, [xi, ys], got=repr(e))
                    continue
                ts = [0.0, 0.5, float(xi[1]), float(xi[1]) + 0.25, 8.75, 9.0]
                for what, g_ in (("plottable", lambda h: [a.tolist() for a in h.get_plottable_data()]),
                                 ("__call__", lambda h: [float(h(t)) for t in ts] + [float(v) for v in h(ts)]),
                                 ("integral", lambda h: [float(h.integral()), float(h.integral((0.5, 7.25)))]),
                                 ("avrg", lambda h: [float(h.avrg()), float(h.avrg((0.5, 7.25)))])):
                    a = core.call_impl(lambda: q(lambda: g_(fi)))
                    b = core.call_impl(lambda: q(lambda: g_(ff)))
                    ctx.check()
                    if not feq(a, b, 1e-12):
                        ctx.violate("%s.%s: integer-typed breakpoints give a different result than float-typed ones" % (kind, what),
                                    kind + "." + what, [xi, ys], expected=b, got=a)
            ctx.nontrivial(("c10int", kind, repr(xi), repr(ys)))
    # integer-valued input (psth counts)
    for _ in range(ctx.n(100)):
        xs = gen.breakpoints(r, 3, 8)
        ys = [r.randint(0, 4) for _ in range(len(xs) - 1)]
        f = ctx.ps.PieceWiseConstFunc([float(x) for x in xs], ys)
        for x in xs:
            ctx.check()
            a = core.call_impl(lambda: f(float(x)))
            b = core.call_impl(lambda: f([float(x)])[0])
            if not feq(a, b):
                ctx.violate("scalar and list evaluation differ for integer-valued function", "pwc.__call__",
                            [xs, [Fr(y) for y in ys], x], expected=a, got=b)
    # LARGE inputs (large.py): functions with hundreds of pieces, intervals that cover more than 256 of them
    if large_on(ctx):
        lc = []
        for npieces in (260, 300, 700):
            xl, yl = large.long_pwc(ctx.seed, npieces)
            xq, q1, q2 = large.long_pwl(ctx.seed, npieces)
            mid = Fr(1, 8192)
            ivs = [None, [Z, ONE], [xl[1], xl[-2]], [xl[2] + mid, xl[-3] - mid], [xl[0], xl[130]], [xl[130], xl[-1]],
                   [xl[5], xl[7]]]
            for iv in ivs:
                lc += [(24, [xl, yl, iv]), (23, [xl, yl, iv])]
            for iv in [None, [Z, ONE], [xq[1], xq[-2]], [xq[2] + mid, xq[-3] - mid], [xq[0], xq[130]], [xq[130], xq[-1]]]:
                lc += [(29, [xq, q1, q2, iv]), (28, [xq, q1, q2, iv])]
            lc += [(23, [xl, yl, [[xl[1], xl[-2]], [xl[3], xl[200]]]]), (27, [xl, yl]), (32, [xq, q1, q2])]
        ctx.bump("large_func_cases", len(lc))
        ctx.corr(lc, lambda rid, a: True, affine_copies=False)
        # narrow integer dtypes for breakpoints AND values (ticks, counts): every query gives what the float64 twin gives
        import numpy as np
        for dt in (np.int16, np.int32, np.int64):
            xi = [0, 40, 100, 160, 250]
            v1, v2 = [120, 30, 250, 7], [200, 90, 10, 255]
            if dt is np.int16 or dt is np.int32:
                xi = [0, 400, 1000, 1600, 30000]
                v1, v2 = [1200, 300, 25000, 7], [20000, 900, 10, 30000]
            for kind in ("pwc", "pwl"):
                def mk(tp):
                    if kind == "pwc":
                        return ctx.ps.PieceWiseConstFunc(np.array(xi, dtype=tp), np.array(v1, dtype=tp))
                    return ctx.ps.PieceWiseLinFunc(np.array(xi, dtype=tp), np.array(v1, dtype=tp), np.array(v2, dtype=tp))
                res = []
                for tp in (dt, float):
                    res.append(core.call_impl(lambda: ctx.impl._quiet(lambda: (lambda f: [
                        float(f.integral()), float(f.integral((float(xi[0]), float(xi[-1])))), float(f.avrg()),
                        float(f.integral((float(xi[1]), float(xi[3])))), float(f.avrg((float(xi[1]) + 0.5, float(xi[3]) + 0.5))),
                        float(f(float(xi[2]) + 1.0))])(mk(tp)))))
                ctx.check()
                ctx.nontrivial(("c10dtype", kind, dt.__name__))
                if not feq(res[0], res[1], 1e-9):
                    ctx.violate("%s built from %s arrays answers differently from its float64 twin" % (kind, dt.__name__), kind,
                                [repr(xi), repr(v1), repr(v2)], expected=res[1], got=res[0])


# ---------------------------------------------------------------------------
@prop("C11")
def c11(ctx):
    r = ctx.rng
    n = ctx.n(1500 if ctx.tier == "quick" else 20000)
    ivs = gen.intervals(16)
    cases, quads = [], []
    for _ in range(n):
        d1 = gen.rand_df(r, 4, 8)
        d2 = gen.rand_df(r, 4, 8)
        a22 = list(d1) + list(d2)
        if len(d1[0]) + len(d2[0]) >= 6:
            ctx.nontrivial(("c11", core.enc(a22)))
        cases.append((22, a22))
        quads.append((130, a22, 22, a22))
        iv = list(r.choice(ivs))
        many = [list(x) for x in r.sample(ivs, 2)]
        for spec in (None, iv, many):
            cases += [(33, list(d1) + [spec]), (34, list(d1) + [spec, True])]
            quads += [(131, list(d1) + [spec], 33, list(d1) + [spec])]
        cases.append((34, list(d1) + [iv, False]))
        for k in (0, 1, 2, 3):
            cases.append((35, list(d1) + [Nat(k)]))
        # oracle: additivity of integral under add on every open interval
        s = ctx.call(22, a22)
        ctx.check()
        if isinstance(s, core.Err):
            ctx.violate("DiscreteFunc.add raises", "df.add", a22, got=s)
            continue
        sF = [[Fr(v).limit_denominator(10 ** 9) for v in arr] for arr in s]
        for spec in (None, iv):
            i1 = ctx.call(33, list(d1) + [spec])
            i2 = ctx.call(33, list(d2) + [spec])
            i3 = ctx.call(33, sF + [spec])
            if not (isinstance(i1, list) and isinstance(i2, list) and isinstance(i3, list)
                    and feq([i1[0] + i2[0], i1[1] + i2[1]], i3)):
                ctx.violate("integral of sum != sum of integrals on %r" % (spec,), "df.add/integral", a22,
                            expected=[i1, i2], got=i3)
    # queries interleaved with add / mul_scalar on the SAME object: integral, average and the (smoothed) plottable
    # arrays always describe the current profile - compared with a fresh object built from the current arrays
    import numpy as np
    DF = ctx.ps.DiscreteFunc
    qq = ctx.impl._quiet
    for _ in range(ctx.n(150 if ctx.tier == "quick" else 2000)):
        d0 = [gen.rand_df(r, 4, 8, edge_events=False) for _ in range(3)]
        f = DF(*[np.array(core.fl(a), dtype=float) for a in d0[0]])
        others = [DF(*[np.array(core.fl(a), dtype=float) for a in d]) for d in d0[1:]]
        log = []
        for step in range(r.randint(2, 5)):
            kq = r.choice([0, 1, 2])
            for phase in (0, 1):
                fresh = DF(np.array(f.x), np.array(f.y), np.array(f.mp))
                for what, g_ in (("integral", lambda h: [float(v) for v in h.integral()]),
                                 ("avrg", lambda h: float(h.avrg())),
                                 ("integral(iv)", lambda h: [float(v) for v in h.integral((0.25, 0.75))]),
                                 ("plottable(k=%d)" % kq, lambda h: [a.tolist() for a in h.get_plottable_data(averaging_window_size=kq)])):
                    a_ = core.call_impl(lambda: qq(lambda: g_(f)))
                    b_ = core.call_impl(lambda: qq(lambda: g_(fresh)))
                    ctx.check()
                    if not feq(a_, b_, 1e-12):
                        ctx.violate("DiscreteFunc.%s after %r does not describe the current profile" % (what, log), "df query sequence",
                                    [[list(a) for a in d] for d in d0], expected=b_, got=a_)
                if phase == 0:
                    op = r.choice(["add", "add", "mul"])
                    if op == "add":
                        f.add(r.choice(others))
                    else:
                        f.mul_scalar(r.choice([2.0, 0.5]))
                    log.append(op)
        ctx.nontrivial(("c11seq", repr(log), core.enc([[list(a) for a in d] for d in d0])))
    # integer-typed event times (sample indices, ms ticks) with fractional values (a profile that was scaled):
    # every operation gives what the float-typed twin gives
    for _ in range(ctx.n(100 if ctx.tier == "quick" else 1000)):
        def mkdf(tp):
            k_ = r.randint(1, 4)
            xi = [0] + sorted(r.sample(range(1, 12), k_)) + [12]
            mp = [r.choice([1, 2, 3]) for _ in range(k_)]
            y = [r.choice([0.5, 1.5, 0.25, 2.0, 0.75]) for _ in range(k_)]
            return xi, [y[0]] + y + [y[-1]], [mp[0]] + mp + [mp[-1]]
        a_, b_ = mkdf(0), mkdf(1)
        res = []
        for tp in (int, float):
            fa = DF(np.array(a_[0], dtype=tp), np.array(a_[1]), np.array(a_[2], dtype=float))
            fb = DF(np.array(b_[0], dtype=tp), np.array(b_[1]), np.array(b_[2], dtype=float))
            res.append(core.call_impl(lambda: qq(lambda: (fa.add(fb), [fa.x.tolist(), fa.y.tolist(), fa.mp.tolist(),
                                                                      [float(v) for v in fa.integral()], float(fa.avrg()),
                                                                      [a.tolist() for a in fa.get_plottable_data()]])[1])))
        ctx.check()
        ctx.nontrivial(("c11int", repr(a_), repr(b_)))
        if not feq(res[0], res[1], 1e-12):
            ctx.violate("DiscreteFunc.add with integer-typed event times differs from the float-typed twin", "df.add",
                        [repr(a_), repr(b_)], expected=res[1], got=res[0])
    # histories over several objects: add / mul_scalar / copy in any order; after EVERY step every live object (the
    # receivers, the operands that were added, the copies and the originals they were taken from) still holds exactly
    # its own events - the reference keeps one dictionary time -> (value, multiplicity) per object
    for _ in range(ctx.n(80 if ctx.tier == "quick" else 1000)):
        def mkobj():
            k_ = r.randint(0, 4)
            ts_ = sorted(r.sample(range(1, 16), k_))
            ev = {Fr(t_, 16): [Fr(r.choice([0, 1, 1, 2, 3]), 1), Fr(r.choice([1, 2, 3]))] for t_ in ts_}
            xs_ = [0.0] + [float(t_) for t_ in sorted(ev)] + [1.0]
            ys_ = [float(ev[t_][0]) for t_ in sorted(ev)]
            ms_ = [float(ev[t_][1]) for t_ in sorted(ev)]
            ys_ = ([ys_[0]] + ys_ + [ys_[-1]]) if ys_ else [0.0, 0.0]
            ms_ = ([ms_[0]] + ms_ + [ms_[-1]]) if ms_ else [1.0, 1.0]
            return DF(np.array(xs_), np.array(ys_), np.array(ms_)), ev
        objs = [mkobj() for _ in range(r.randint(2, 3))]
        log = []
        for step in range(r.randint(3, 7)):
            op = r.choice(["add", "add", "mul", "copy", "copy"])
            i_ = r.randrange(len(objs))
            if op == "add":
                j_ = r.randrange(len(objs))
                if j_ == i_:
                    continue
                err = core.call_impl(lambda: qq(lambda: objs[i_][0].add(objs[j_][0])))
                for t_, (v_, m_) in objs[j_][1].items():
                    cur = objs[i_][1].setdefault(t_, [Fr(0), Fr(0)])
                    objs[i_][1][t_] = [cur[0] + v_, cur[1] + m_]
                log.append("%d.add(%d)" % (i_, j_))
            elif op == "mul":
                fac = r.choice([2.0, 0.5, 3.0])
                err = core.call_impl(lambda: qq(lambda: objs[i_][0].mul_scalar(fac)))
                for t_ in objs[i_][1]:
                    objs[i_][1][t_][0] *= Fr(fac)
                log.append("%d.mul_scalar(%r)" % (i_, fac))
            else:
                err = None
                objs.append((objs[i_][0].copy(), {t_: list(v_) for t_, v_ in objs[i_][1].items()}))
                log.append("%d = %d.copy()" % (len(objs) - 1, i_))
            ctx.check()
            bad = None
            if isinstance(err, core.Err):
                bad = ("raises", err)
            for q_, (o_, ev) in enumerate(objs):
                want = [[float(t_) for t_ in sorted(ev)], [float(ev[t_][0]) for t_ in sorted(ev)],
                        [float(ev[t_][1]) for t_ in sorted(ev)]]
                got = core.call_impl(lambda: [o_.x[1:-1].tolist(), o_.y[1:-1].tolist(), o_.mp[1:-1].tolist()])
                integ = core.call_impl(lambda: qq(lambda: [float(v) for v in o_.integral()]))
                if not feq(got, want, 1e-12) or not feq(integ, [sum(want[1]), sum(want[2])], 1e-12):
                    bad = bad or ("object %d" % q_, [got, integ], want)
            if bad:
                ctx.violate("DiscreteFunc history %r: %s no longer holds its own events" % (log, bad[0]), "df history",
                            [repr(log)], expected=bad[2] if len(bad) > 2 else None, got=bad[1])
                break
        ctx.nontrivial(("c11hist", repr(log)))
    # nearly equal event times (2^-20 apart, same number of entries): one entry per distinct time
    for _ in range(ctx.n(300 if ctx.tier == "quick" else 3000)):
        k = r.randint(1, 4)
        x1 = [Z] + [Fr(i, 8) for i in sorted(r.sample(range(1, 8), k))] + [ONE]

        def ent():
            mp = [Fr(r.choice([1, 1, 2, 3])) for _ in range(k)]
            y = [Fr(r.randint(0, int(m_))) for m_ in mp]
            return [y[0]] + y + [y[-1]], [mp[0]] + mp + [mp[-1]]
        (y1, m1), (y2, m2) = ent(), ent()
        a22 = [x1, y1, m1, jitter(x1, r), y2, m2]
        cases.append((22, a22))
        quads.append((130, a22, 22, a22))
    spec_vs_impl(ctx, [q for q in quads if q[0] == 130], "discrete add == event-wise merge-sum",
                 proj=lambda v: [x[1:-1] for x in v])
    spec_vs_impl(ctx, [q for q in quads if q[0] != 130], "discrete integral == sum over events strictly inside")
    ctx.corr(cases, lambda rid, a: len(a[0]) >= 4)
    # LARGE inputs (large.py): long discrete functions - smoothing with non-uniform multiplicities (the first event carries
    # the largest), sums with 500+ / 1000+ points and events exactly on the edges
    if large_on(ctx):
        lc = []
        for nev, edges in ((300, (False, False)), (300, (True, True)), (600, (True, False)), (1100, (False, True))):
            d1 = large.long_df(ctx.seed, nev, edges=edges)
            d2 = large.long_df(ctx.seed + 3, nev + 17, edges=(edges[1], edges[0]))
            d3 = large.long_df(ctx.seed + 5, 3, edges=(True, True))
            lc += [(22, list(d1) + list(d2)), (22, list(d2) + list(d1)), (22, list(d1) + list(d3)), (22, list(d3) + list(d1))]
            for k_ in (0, 1, 2):
                lc.append((35, list(d1) + [Nat(k_)]))
            du = large.long_df(ctx.seed + 9, nev, edges=edges, uniform=True)
            lc += [(35, list(du) + [Nat(1)]), (33, list(d1) + [None]), (33, list(d1) + [[Fr(1, 8), Fr(7, 8)]]),
                   (34, list(d1) + [[[Fr(1, 8), Fr(5, 8)], [Fr(1, 2), Fr(7, 8)]], True])]
        ctx.bump("large_func_cases", len(lc))
        ctx.corr(lc, lambda rid, a: True, affine_copies=False)


# ---------------------------------------------------------------------------
@prop("C12")
def c12(ctx):
    # correspondence of every routine of both backends with the model
    # (the .pyx variants are modelled separately where the text differs)
    r = ctx.rng
    for pairs, g in pairs_for(ctx, limit_ex=4096, n_rand=1200):
        cases = []
        for a, b in pairs:
            m = r.choice(mrts_grid(g)[:3])
            mt = r.choice(maxtau_grid(g))
            ri = r.random() < 0.5
            cases += [(1, [eff(a), eff(b), Z, ONE, m]), (2, [eff(a), eff(b), Z, ONE, m, ri])]
            cases += [(rid, [a, b, Z, ONE, mt, m]) for rid in (6, 7, 8, 9, 12, 13, 14)]
            cases += [(10, [eff(a), eff(b), Z, ONE, m]), (11, [eff(a), eff(b), Z, ONE, m, ri])]
            # the public scalar functions choose between the compiled single-pass routine and the fall-back
            # themselves: every keyword must reach whichever branch is taken
            mt2 = r.choice(maxtau_grid(g)[1:])
            cases += [(54, [False, m, None, T(a), T(b)]), (55, [False, m, ri, None, T(a), T(b)]),
                      (56, [False, mt2, m, None, T(a), T(b)]), (71, [False, ri, mt2, m, T(a), T(b)]),
                      (74, [False, ri, mt2, m, T(a), T(b)])]
        ctx.corr(cases, pair_nt)
        if not ctx.cy:
            continue
        # oracle: the two implementations on identical arguments
        pyimpl = _py_impl(ctx)
        for a, b in pairs:
            m = r.choice(mrts_grid(g))
            mt = r.choice(maxtau_grid(g))
            ri = r.random() < 0.5
            if nontrivial_pair(a, b):
                ctx.nontrivial(("c12", core.enc([a, b]), m, mt, ri))
            todo = [(1, [eff(a), eff(b), Z, ONE, m]), (2, [eff(a), eff(b), Z, ONE, m, ri])] + \
                   [(rid, [a, b, Z, ONE, mt, m]) for rid in (6, 7, 8, 9)]
            for rid, args in todo:
                x = ctx.call(rid, args)
                y = core.call_impl(pyimpl.call, rid, args)
                ctx.check()
                if not feq(x, y):
                    ctx.violate("compiled source and fall-back differ", str(rid), args, expected=y, got=x, rid=rid)
            # single-pass distances vs averaging the profile of the fall-back
            A, B = eff(a), eff(b)
            for rid, args, prof in ((10, [A, B, Z, ONE, m], (1, [A, B, Z, ONE, m])),
                                    (11, [A, B, Z, ONE, m, ri], (2, [A, B, Z, ONE, m, ri]))):
                x = ctx.call(rid, args)
                p = core.call_impl(pyimpl.call, *prof)
                ctx.check()
                if isinstance(p, core.Err):
                    continue
                av = (int_pwc(p) if rid == 10 else int_pwl(p)) / (p[0][-1] - p[0][0])
                if not (isinstance(x, float) and core.close(x, av)):
                    ctx.violate("single-pass distance != average of fall-back profile", str(rid), args,
                                expected=av, got=x, rid=rid)
            for rid, prid in ((12, 6), (13, 8)):
                x = ctx.call(rid, [a, b, Z, ONE, mt, m])
                p = core.call_impl(pyimpl.call, prid, [a, b, Z, ONE, mt, m])
                ctx.check()
                exp = [sum(p[1][1:-1]), sum(p[2][1:-1])]
                if not feq(x, exp):
                    ctx.violate("single-pass (c, mp) != sums over fall-back profile", str(rid),
                                [a, b, Z, ONE, mt, m], expected=exp, got=x, rid=rid)
            x = ctx.call(14, [a, b, Z, ONE, mt, m])
            p = core.call_impl(pyimpl.call, 9, [a, b, Z, ONE, mt, m])
            if not feq(x, float(sum(p[0]))):
                ctx.violate("single-pass directionality != sum of fall-back values", "14", [a, b, Z, ONE, mt, m],
                            expected=sum(p[0]), got=x, rid=14)
    bigc = big_tau_pairs(ctx)
    ctx.corr([(rid, [a, b, Z, ONE, mt, m]) for a, b, mt, m in bigc for rid in (6, 7, 8, 9, 12, 13, 14)], pair_nt)
    # both backends describe the CURRENT content of objects that were used before (no state kept between calls)
    stale_state_oracle(ctx, ["spike_sync_profile", "spike_sync", "spike_directionality_values", "spike_train_order",
                             "isi_distance", "spike_distance", "filter_by_spike_sync"], 25, 300)
    # get_tau and the add routines
    cases = []
    for _ in range(ctx.n(1500 if ctx.tier == "quick" else 20000)):
        def mk():
            if r.random() < 0.1:
                return None
            x = Fr(r.randint(2, 14), 16)
            p = x - Fr(r.randint(1, 4), 16) if r.random() < 0.7 else None
            n = x + Fr(r.randint(1, 4), 16) if r.random() < 0.7 else None
            return [p, x, n]
        cases.append((5, [mk(), mk(), Fr(r.choice([2, 4, 8, 16]), 16), Fr(r.randint(0, 16), 16)]))
        f, g_ = gen.rand_pwc(r), gen.rand_pwc(r)
        cases.append((20, [f[0], f[1], g_[0], g_[1]]))
        cases.append((21, list(gen.rand_pwl(r)) + list(gen.rand_pwl(r))))
        cases.append((22, list(gen.rand_df(r)) + list(gen.rand_df(r))))
    ctx.corr(cases, lambda rid, a: True)
    if ctx.cy:
        pyimpl = _py_impl(ctx)
        for rid, args in cases:
            x = ctx.call(rid, args)
            if rid in (20, 21, 22):
                y = core.call_impl(_py_add, ctx, rid, args)
            else:
                y = core.call_impl(pyimpl.call, rid, args)
            ctx.check()
            if not feq(x, y):
                ctx.violate("compiled source and fall-back differ", str(rid), args, expected=y, got=x, rid=rid)
    # LARGE inputs (large.py): both backends against the model on long trains
    ctx.corr(large_pair_cases(ctx, (1, 2, 6, 7, 8, 9, 10, 11, 12, 13, 14)), lambda rid, a: True, affine_copies=False)
    large_spike_oracle(ctx, 'c12')


def _py_impl(ctx):
    import adapters
    return adapters.Impl(ctx.ps, ctx.mods, "py")


def _py_add(ctx, rid, args):
    import adapters
    pb = ctx.impl.pb
    a = [adapters.arr(x) for x in args]
    if rid == 20:
        return pb.add_piece_wise_const_python(*a)
    if rid == 21:
        return pb.add_piece_wise_lin_python(*a)
    return pb.add_discrete_function_python(*a)


# ---------------------------------------------------------------------------
def messy(r, t, g):
    """unsorted spike times with repeats"""
    s = list(t)
    for _ in range(r.randint(0, 2)):
        if s:
            s.append(r.choice(s))
    r.shuffle(s)
    return s


@prop("C13")
def c13(ctx):
    r = ctx.rng
    import numpy as np
    cases, quads = [], []
    n = ctx.n(600 if ctx.tier == "quick" else 8000)
    for _ in range(n):
        l = [Fr(r.randint(0, 8), 8) for _ in range(r.randint(0, 6))]
        cases.append((40, [l]))
        trs = [[[Fr(r.randint(-2, 10), 8) for _ in range(r.randint(0, 5))],
                Fr(r.choice([0, 0, 1, -1]), 8), Fr(r.choice([8, 8, 7, 9]), 8)] for _ in range(r.randint(1, 4))]
        if r.random() < 0.5:
            # spikes on, just inside and just outside the common edges: 2^-21 is inside the filter's
            # tolerance of 1e-6, 2^-19 is outside it
            gs, ge = min(t[1] for t in trs), max(t[2] for t in trs)
            for t in trs:
                for _k in range(r.randint(0, 3)):
                    t[0].append(r.choice([gs, ge]) + r.choice([0, 1, -1, 4, -4]) * Fr(1, 2 ** 21))
        cases.append((41, [trs]))
        quads.append((140, [trs], 41, [trs]))
        ctx.nontrivial(("c13", core.enc(trs)))
        # idempotence on the implementation
        once = ctx.call(41, [trs])
        ctx.check()
        if isinstance(once, core.Err):
            ctx.violate("reconcile raises", "reconcile_spike_trains", [trs], got=once)
            continue
        onceF = [[[Fr(x) for x in t[0]], Fr(t[1]), Fr(t[2])] for t in once]      # binary64 values are exact rationals
        twice = ctx.call(41, [onceF])
        if not feq(once, twice):
            ctx.violate("reconcile is not idempotent", "reconcile_spike_trains", [trs], expected=once, got=twice)
    ctx.corr(cases, lambda rid, a: True)
    spec_vs_impl(ctx, quads, "reconcile == declarative specification")
    # trains recorded over different intervals: every list entry point reconciles the WHOLE list (common
    # edges = smallest start, largest end), every two-train entry point the pair
    hl, g = ctx.space.random_lists(n=200 if ctx.tier == "quick" else 2500)
    cases = []
    for L in ctx.part(hl):
        m = r.choice(mrts_grid(g)[:3])
        mt = r.choice(maxtau_grid(g))
        ri = r.random() < 0.5
        HL = []
        for t in L:
            lo = min(t + [Fr(1, 4)]) - Fr(r.choice([0, 0, 1, 2, 8]), 8)
            hi = max(t + [Fr(3, 4)]) + Fr(r.choice([0, 0, 1, 2, 8]), 8)
            HL.append([messy(r, t, g), lo, hi])
        A, B = HL[0], HL[1]
        cases += [(50, [True, m, A, B]), (51, [True, m, ri, A, B]), (52, [True, mt, m, A, B]), (53, [True, mt, m, A, B]),
                  (54, [True, m, None, A, B]), (55, [True, m, ri, None, A, B]), (56, [True, mt, m, None, A, B]),
                  (71, [True, True, mt, m, A, B]), (74, [True, True, mt, m, A, B]),
                  (60, [True, m, HL, None]), (61, [True, m, ri, HL, None]), (62, [True, mt, m, HL, None]),
                  (63, [True, mt, m, HL, None]), (64, [True, m, None, HL, None]), (65, [True, m, ri, None, HL, None]),
                  (66, [True, mt, m, None, HL, None]), (67, [True, m, None, HL, None]), (68, [True, m, ri, None, HL, None]),
                  (69, [True, mt, m, None, HL, None]), (72, [True, True, mt, m, HL, None]), (73, [True, mt, m, HL, None]),
                  (75, [True, True, mt, m, HL, None]), (70, [True, mt, m, Fr(1, 2), HL])]
        # ... also when `indices` selects a sub-list: the common edges are still those of the WHOLE list
        if len(HL) >= 3:
            ix = [Nat(i) for i in r.sample(range(len(HL)), r.randint(2, len(HL) - 1))]
            cases += [(60, [True, m, HL, ix]), (61, [True, m, ri, HL, ix]), (62, [True, mt, m, HL, ix]), (63, [True, mt, m, HL, ix]),
                      (64, [True, m, None, HL, ix]), (65, [True, m, ri, None, HL, ix]), (66, [True, mt, m, None, HL, ix]),
                      (67, [True, m, None, HL, ix]), (68, [True, m, ri, None, HL, ix]), (69, [True, mt, m, None, HL, ix]),
                      (72, [True, True, mt, m, HL, ix]), (73, [True, mt, m, HL, ix]), (75, [True, True, mt, m, HL, ix])]
    # targeted: few-spike trains on a narrow interval selected out of a list whose unselected member has much wider
    # edges (the coincidence window of a spike without neighbours is half the COMMON interval)
    for _ in range(ctx.n(60 if ctx.tier == "quick" else 600)):
        lo, hi = Fr(r.randint(2, 3), 8), Fr(r.randint(5, 6), 8)
        def few():
            return sorted(set(Fr(r.randint(int(lo * 8), int(hi * 8)), 8) for _ in range(r.randint(1, 2))))
        HL = [[few(), lo, hi], [few(), lo, hi], [few(), Fr(-r.randint(0, 2)), Fr(r.randint(1, 3))]]
        r.shuffle(HL)
        wide = [k_ for k_, t in enumerate(HL) if t[2] - t[1] >= 1][0]
        ix = [Nat(k_) for k_ in range(3) if k_ != wide]
        mt, m = Z, Z
        cases += [(62, [True, mt, m, HL, ix]), (66, [True, mt, m, None, HL, ix]), (69, [True, mt, m, None, HL, ix]),
                  (63, [True, mt, m, HL, ix]), (72, [True, True, mt, m, HL, ix]), (73, [True, mt, m, HL, ix]),
                  (64, [True, m, None, HL, ix]), (65, [True, m, False, None, HL, ix])]
    ctx.corr(cases, lambda rid, a: True)
    # a list may hold the same train OBJECT several times: with reconciliation off the objects are used as given
    # and the result must equal that for equal copies and the default (reconciled) result
    sl, g = ctx.space.random_lists(n=100 if ctx.tier == "quick" else 1200)
    psa = ctx.ps
    qa = ctx.impl._quiet
    for L in ctx.part(sl):
        sts = ctx.impl.trains([T(t) for t in L])
        same = [sts[0], sts[0]] + sts[1:]
        copy = [sts[0], sts[0].copy()] + sts[1:]
        mt = float(r.choice(maxtau_grid(g)))
        m = float(r.choice(mrts_grid(g)[:3]))
        ctx.nontrivial(("c13same", core.enc(L), mt, m))
        for name, fn, kwa in (("isi_profile", psa.isi_profile, {}), ("spike_profile", psa.spike_profile, {}),
                              ("spike_sync_profile", psa.spike_sync_profile, {"max_tau": mt}),
                              ("spike_train_order_profile", psa.spike_train_order_profile, {"max_tau": mt}),
                              ("isi_distance", psa.isi_distance, {}), ("spike_distance", psa.spike_distance, {}),
                              ("spike_sync", psa.spike_sync, {"max_tau": mt}), ("spike_train_order", psa.spike_train_order, {"max_tau": mt}),
                              ("isi_distance_matrix", psa.isi_distance_matrix, {}), ("spike_sync_matrix", psa.spike_sync_matrix, {"max_tau": mt}),
                              ("spike_directionality_values", psa.spike_directionality_values, {"max_tau": mt}),
                              ("spike_directionality_matrix", psa.spike_directionality_matrix, {"max_tau": mt}),
                              ("filter_by_spike_sync", lambda s_, **k: psa.filter_by_spike_sync(s_, 0.5, **k), {"max_tau": mt})):
            x = core.call_impl(lambda: qa(lambda: fn(same, MRTS=m, Reconcile=False, **kwa)))
            y = core.call_impl(lambda: qa(lambda: fn(copy, MRTS=m, Reconcile=False, **kwa)))
            z = core.call_impl(lambda: qa(lambda: fn(same, MRTS=m, **kwa)))
            ctx.check()
            if not feq(x, y, 0.0) or not feq(x, z):
                ctx.violate("a train object entered twice: Reconcile=False result differs from that for an equal copy / from the default",
                            name, [[T(t) for t in L], Fr(mt), Fr(m)], expected=[y, z], got=x)
    # every entry point: messy input == reconciled input with Reconcile=False; inputs untouched
    lists, g = ctx.space.random_lists(n=250 if ctx.tier == "quick" else 3000)
    lists = ctx.part(lists)
    for L in lists:
        nL = len(L)
        m = r.choice(mrts_grid(g)[:3])
        mt = r.choice(maxtau_grid(g))
        ri = r.random() < 0.5
        ML = [[messy(r, t, g), Z, ONE] for t in L]
        CL = [T(t) for t in L]
        # calls that raise (an unsupported keyword combination, an index out of range) must leave nothing behind
        # that changes what later calls do
        bad_sts = ctx.impl.trains(CL)
        core.call_impl(lambda: ctx.ps.spike_train_order(bad_sts, interval=(0.25, 0.75)))
        core.call_impl(lambda: ctx.ps.isi_distance(bad_sts, indices=[0, 99]))
        core.call_impl(lambda: ctx.ps.spike_sync_profile(bad_sts, indices=[-1, 0]))
        A, B, Am, Bm = CL[0], CL[1], ML[0], ML[1]
        thr = Fr(r.randint(0, nL - 1), nL - 1)
        checks = [(50, [m], 2), (51, [m, ri], 2), (52, [mt, m], 2), (53, [mt, m], 2),
                  (54, [m, None], 2), (55, [m, ri, None], 2), (56, [mt, m, None], 2),
                  (71, [True, mt, m], 2), (74, [True, mt, m], 2),
                  (60, [m], 0), (61, [m, ri], 0), (62, [mt, m], 0), (63, [mt, m], 0),
                  (64, [m, None], 0), (65, [m, ri, None], 0), (66, [mt, m, None], 0),
                  (67, [m, None], 0), (68, [m, ri, None], 0), (69, [mt, m, None], 0),
                  (72, [True, mt, m], 0), (73, [mt, m], 0), (75, [True, mt, m], 0)]
        ctx.nontrivial(("c13api", core.enc(ML)))
        for rid, kw, ar in checks:
            if ar == 2:
                a_messy = [True] + kw + [Am, Bm]
                a_clean = [False] + kw + [A, B]
                a_clean_rc = [True] + kw + [A, B]
            else:
                a_messy = [True] + kw + [ML, None]
                a_clean = [False] + kw + [CL, None]
                a_clean_rc = [True] + kw + [CL, None]
            x, y, z = ctx.call(rid, a_messy), ctx.call(rid, a_clean), ctx.call(rid, a_clean_rc)
            ctx.check()
            if not feq(x, y):
                ctx.violate("messy input (default reconcile) != clean input with Reconcile=False", str(rid),
                            a_messy, expected=y, got=x, rid=rid)
            elif not feq(z, y):
                ctx.violate("valid input: Reconcile default != Reconcile=False", str(rid), a_clean_rc,
                            expected=y, got=z, rid=rid)
        x = ctx.call(70, [True, mt, m, thr, ML])
        y = ctx.call(70, [False, mt, m, thr, CL])
        ctx.check()
        if not feq(x, y):
            ctx.violate("filter: messy input != clean input", "70", [True, mt, m, thr, ML], expected=y, got=x, rid=70)
        # the same with MRTS='auto' (the threshold must be computed from the reconciled trains)
        m_sts, c_sts = ctx.impl.trains(ML), ctx.impl.trains(CL)
        psa = ctx.ps
        qa = ctx.impl._quiet
        for name, fn, kwa in (("isi_profile", psa.isi_profile, {}), ("spike_profile", psa.spike_profile, {"RI": ri}),
                              ("spike_sync_profile", psa.spike_sync_profile, {"max_tau": float(mt)}),
                              ("isi_distance", psa.isi_distance, {}), ("spike_distance", psa.spike_distance, {"RI": ri}),
                              ("spike_sync", psa.spike_sync, {"max_tau": float(mt)}),
                              ("isi_distance_matrix", psa.isi_distance_matrix, {}),
                              ("spike_distance_matrix", psa.spike_distance_matrix, {"RI": ri}),
                              ("spike_sync_matrix", psa.spike_sync_matrix, {"max_tau": float(mt)}),
                              ("spike_train_order", psa.spike_train_order, {}),
                              ("spike_train_order_profile", psa.spike_train_order_profile, {}),
                              ("spike_directionality_values", psa.spike_directionality_values, {}),
                              ("spike_directionality_matrix", psa.spike_directionality_matrix, {}),
                              ("filter_by_spike_sync", lambda s, **k: psa.filter_by_spike_sync(s, float(thr), **k), {})):
            forms = [((m_sts,), (c_sts,))]
            if "matrix" not in name and "values" not in name and "filter" not in name:
                forms.append(((m_sts[0], m_sts[1]), (c_sts[0], c_sts[1])))
            for fm, fc in forms:
                x = core.call_impl(lambda: qa(lambda: fn(*fm, MRTS='auto', **kwa)))
                y = core.call_impl(lambda: qa(lambda: fn(*fc, MRTS='auto', Reconcile=False, **kwa)))
                ctx.check()
                if not feq(x, y):
                    ctx.violate("MRTS='auto': messy input (default reconcile) != clean input with Reconcile=False",
                                name, [ML, len(fm)], expected=y, got=x)
        # non-mutation monitor over the public API
        sts = ctx.impl.trains(ML)
        snap = [(s.spikes.copy(), s.t_start, s.t_end) for s in sts]
        ps = ctx.ps
        kw = dict(MRTS=float(m))
        calls = [lambda: ps.isi_profile(sts, **kw), lambda: ps.spike_profile(sts, RI=ri, **kw),
                 lambda: ps.spike_sync_profile(sts, max_tau=float(mt), **kw),
                 lambda: ps.isi_distance(sts, **kw), lambda: ps.spike_distance(sts, **kw),
                 lambda: ps.spike_sync(sts, max_tau=float(mt), **kw),
                 lambda: ps.isi_distance_matrix(sts, **kw), lambda: ps.spike_sync_matrix(sts, **kw),
                 lambda: ps.spike_train_order(sts, **kw), lambda: ps.spike_train_order_profile(sts, **kw),
                 lambda: ps.spike_directionality_values(sts, **kw), lambda: ps.spike_directionality_matrix(sts, **kw),
                 lambda: ps.filter_by_spike_sync(sts, float(thr), **kw), lambda: ps.merge_spike_trains(sts),
                 lambda: ps.psth(sts, 0.25), lambda: ps.isi_distance(sts[0], sts[1], MRTS='auto'),
                 lambda: ps.spike_sync(sts[0], sts[1], interval=(0.25, 0.75))]
        # ... also with lists of one / two trains and in the two-argument form
        one, two = [sts[0]], sts[:2]
        calls += [lambda: ps.merge_spike_trains(one), lambda: ps.psth(one, 0.25), lambda: ps.merge_spike_trains(two),
                  lambda: ps.isi_profile(two, **kw), lambda: ps.spike_profile(sts[0], sts[1], **kw),
                  lambda: ps.spike_sync_profile(sts[0], sts[1], **kw), lambda: ps.spike_distance(two, **kw),
                  lambda: ps.spike_train_order(sts[0], sts[1], **kw), lambda: ps.spike_directionality(sts[0], sts[1], **kw),
                  lambda: ps.spike_train_order_profile(sts[0], sts[1], **kw),
                  lambda: ps.filter_by_spike_sync(two, float(thr), **kw),
                  lambda: ps.spikes.reconcile_spike_trains(sts), lambda: ps.spikes.reconcile_spike_trains(one),
                  lambda: ps.isi_lengths.default_thresh(sts), lambda: sts[0].get_spikes_non_empty(),
                  lambda: ps.isi_distance_matrix(sts, MRTS='auto'), lambda: ps.spike_sync_matrix(sts, MRTS='auto')]
        ids = [id(s.spikes) for s in sts]
        members = list(sts)
        for k, c in enumerate(calls):
            core.call_impl(c)
            ctx.check()
            if len(sts) != len(members) or any(a_ is not b_ for a_, b_ in zip(sts, members)):
                ctx.violate("call #%d replaced members of the caller's list of trains" % k, "api", [ML, Nat(k)])
                sts[:] = members
            for s, (sp, a, b), i0 in zip(sts, snap, ids):
                if not (np.array_equal(s.spikes, sp) and s.t_start == a and s.t_end == b):
                    ctx.violate("call #%d modified its input trains" % k, "api", [ML, Nat(k)])
                    # restore so that later calls are judged on their own
                    s.spikes = sp.copy()
                    break
                if id(s.spikes) != i0 or not isinstance(s.spikes, np.ndarray) or s.spikes.dtype != np.float64:
                    ctx.violate("call #%d replaced the spike array of an input train (now %s)" % (k, type(s.spikes).__name__),
                                "api", [ML, Nat(k)])
                    s.spikes = sp.copy()
                    ids = [id(x.spikes) for x in sts]
                    break
    # LARGE inputs: long, already sorted float64 trains with spikes outside the common interval - the reconciled copies
    # are right (model) AND the caller's trains still hold every spike afterwards, for reconcile itself and for the
    # measures that reconcile by default; lists / integer-typed / float32 arrays in `.spikes` of SEVERAL trains
    if large_on(ctx):
        import numpy as np
        from pyspike.spikes import reconcile_spike_trains
        for nlong in (150, 201, 260, 600):
            a = [Fr(i, 1024) for i in sorted(r.sample(range(-100, 1124), nlong))]
            b = [Fr(i, 1024) for i in sorted(r.sample(range(0, 1025), 40))]
            trs = [[a, Fr(-100, 1024), Fr(1124, 1024)], [b, Z, ONE], [[Fr(1, 2)], Fr(1, 4), Fr(3, 4)]]
            trs2 = [[a, Z, ONE], [b, Fr(1, 4), Fr(3, 4)]]
            ctx.corr([(41, [trs]), (41, [trs2])], lambda rid, a: True, affine_copies=False)
            sts = [ctx.ps.SpikeTrain(np.array([float(x) for x in t[0]]), (float(t[1]), float(t[2]))) for t in trs]
            narrow = [ctx.ps.SpikeTrain(np.array([float(x) for x in a]), (0.0, 1.0)),        # spikes outside its own edges
                      ctx.ps.SpikeTrain(np.array([float(x) for x in b]), (0.25, 0.75))]
            for nm, call in (("reconcile_spike_trains", lambda: reconcile_spike_trains(narrow)),
                             ("isi_distance", lambda: ctx.ps.isi_distance(narrow[0], narrow[1])),
                             ("spike_sync", lambda: ctx.ps.spike_sync(narrow)),
                             ("spike_profile", lambda: ctx.ps.spike_profile(narrow[0], narrow[1]))):
                snap = [(s_.spikes.copy(), s_.t_start, s_.t_end) for s_ in narrow]
                res = core.call_impl(lambda: (ctx.impl._quiet(call), 0)[1])
                ctx.check()
                ctx.nontrivial(("c13long", nm, nlong))
                if isinstance(res, core.Err) or any(not (np.array_equal(s_.spikes, sp_) and s_.t_start == a_ and s_.t_end == b_)
                                                    for s_, (sp_, a_, b_) in zip(narrow, snap)):
                    ctx.violate("%s changed (or failed on) a caller's long sorted train that has spikes outside the common "
                                "interval" % nm, nm, [Nat(nlong)], got=res if isinstance(res, core.Err) else
                                [len(s_.spikes) for s_ in narrow], expected=[len(sp_) for sp_, _, _ in snap])
                    break
        for mkarr, what in ((lambda v: np.array(v, dtype=np.int64), "int64"), (lambda v: np.array(v, dtype=np.float32), "float32"),
                            (lambda v: list(v), "list"), (lambda v: np.array(v, dtype=float)[::-1][::-1], "view")):
            raw = [[1.0, 2.0, 3.0, 7.0], [5.0, 6.0, 8.0], [4.0], [2.0, 9.0]]
            stx = [ctx.ps.SpikeTrain([0.5], (0.0, 10.0)) for _ in raw]
            for s_, v_ in zip(stx, raw):
                s_.spikes = mkarr(v_)
            got = core.call_impl(lambda: [[float(x) for x in t_.spikes] for t_ in reconcile_spike_trains(stx)])
            ctx.check()
            ctx.nontrivial(("c13flavour", what))
            if got != raw:
                ctx.violate("reconcile_spike_trains of trains whose .spikes is a %s mixes up / changes the spike times" % what,
                            "reconcile_spike_trains", [what], expected=raw, got=got)


# ---------------------------------------------------------------------------
@prop("C14")
def c14(ctx):
    r = ctx.rng
    ps = ctx.ps
    lists, g = ctx.space.random_lists(n=250 if ctx.tier == "quick" else 3000, maxtr=5)
    lists = ctx.part(lists)
    for L in lists:
        n = len(L)
        m = r.choice(mrts_grid(g))
        mt = r.choice(maxtau_grid(g))
        ri = r.random() < 0.5
        # spikes exactly on the recording edges, and the whole recording given as an explicit interval (list or
        # tuple): "interval=[t_start, t_end]" is an interval like any other (open: edge spikes do not count)
        L = [sorted(set(t + ([Z] if r.random() < 0.2 else []) + ([ONE] if r.random() < 0.2 else []))) for t in L]
        if r.random() < 0.15:
            L = [[], []] + L[2:]                   # two trains without spikes at the front (they may get selected)
        iv = r.choice(intervals_for(r, g, 1) + [[Z, ONE]])
        # ... on recordings anywhere on the time axis (negative, ending at or below 0, far from 0, tiny unit)
        kk, cc = r.choice([(Fr(1), Fr(0)), (Fr(1), Fr(0)), (Fr(1), Fr(-16)), (Fr(2), Fr(-2)), (Fr(1), Fr(-1)),
                           (Fr(1), Fr(2 ** 20)), (Fr(1, 2 ** 24), Fr(0))])
        L = [[kk * x + cc for x in t] for t in L]
        m, mt = m * kk, mt * kk
        if iv is not None:
            iv = [kk * iv[0] + cc, kk * iv[1] + cc]
        ivf = None if iv is None else ((float(iv[0]), float(iv[1])) if r.random() < 0.5 else [float(iv[0]), float(iv[1])])
        sts = ctx.impl.trains([T(t, cc, kk + cc) for t in L])
        ctx.nontrivial(("c14", core.enc(L), m, mt, ri))
        k2 = dict(MRTS=float(m))
        kS = dict(MRTS=float(m), RI=ri)
        kT = dict(MRTS=float(m), max_tau=float(mt))
        fns = [("isi_profile", ps.isi_profile, k2, False), ("spike_profile", ps.spike_profile, kS, False),
               ("spike_sync_profile", ps.spike_sync_profile, kT, False),
               ("spike_train_order_profile", ps.spike_train_order_profile, kT, False),
               ("isi_distance", ps.isi_distance, k2, True), ("spike_distance", ps.spike_distance, kS, True),
               ("spike_sync", ps.spike_sync, kT, True), ("spike_train_order", ps.spike_train_order, kT, False),
               ("spike_train_order(normalize=False)", lambda *a_, **k_: ps.spike_train_order(*a_, normalize=False, **k_), kT, False),
               ("spike_directionality_values", ps.spike_directionality_values, kT, False)]
        mats = [("isi_distance_matrix", ps.isi_distance_matrix, k2, True),
                ("spike_distance_matrix", ps.spike_distance_matrix, kS, True),
                ("spike_sync_matrix", ps.spike_sync_matrix, kT, True),
                ("spike_directionality_matrix", ps.spike_directionality_matrix, kT, False)]
        i, j = r.sample(range(n), 2)
        sel = r.sample(range(n), r.randint(2, n))
        for name, fn, kw, has_iv in fns:
            kw = dict(kw)
            if has_iv and ivf is not None:
                kw["interval"] = ivf
            q = ctx.impl._quiet
            two = core.call_impl(lambda: q(lambda: fn(sts[i], sts[j], **kw)))
            lst = core.call_impl(lambda: q(lambda: fn([sts[i], sts[j]], **kw)))
            idx = core.call_impl(lambda: q(lambda: fn(sts, indices=[i, j], **kw)))
            var = core.call_impl(lambda: q(lambda: fn(*sts, **kw)))
            full = core.call_impl(lambda: q(lambda: fn(sts, **kw)))
            sub = core.call_impl(lambda: q(lambda: fn([sts[x] for x in sel], **kw)))
            sid = core.call_impl(lambda: q(lambda: fn(sts, indices=list(sel), **kw)))
            ctx.check(3)
            desc = [name, L, Nat(i), Nat(j), [Nat(x) for x in sel], m, mt, ri, iv]
            if not (feq(two, lst) and feq(two, idx)):
                ctx.violate("two trains / [two] / indices=[i,j] differ", name, desc, expected=two, got=[lst, idx])
            if n > 2 and not feq(var, full):
                ctx.violate("separate arguments != list", name, desc, expected=full, got=var)
            if not feq(sub, sid):
                ctx.violate("indices selection != sub-list", name, desc, expected=sub, got=sid)
        for name, fn, kw, has_iv in mats:
            kw = dict(kw)
            if has_iv and ivf is not None:
                kw["interval"] = ivf
            q = ctx.impl._quiet
            sub = core.call_impl(lambda: q(lambda: fn([sts[x] for x in sel], **kw)))
            sid = core.call_impl(lambda: q(lambda: fn(sts, indices=list(sel), **kw)))
            ctx.check()
            if not feq(sub, sid):
                ctx.violate("matrix: indices selection != sub-list", name,
                            [name, L, [Nat(x) for x in sel], m, mt, ri, iv], expected=sub, got=sid)
            # the matrix form and the two-train form must honour the keywords identically
            bi = {"isi_distance_matrix": ps.isi_distance, "spike_distance_matrix": ps.spike_distance,
                  "spike_sync_matrix": ps.spike_sync, "spike_directionality_matrix": ps.spike_directionality}[name]
            if not isinstance(sid, core.Err) and len(sel) >= 2:
                a_, b_ = 0, 1
                kwb = dict(kw)
                if name == "spike_directionality_matrix":
                    kwb["normalize"] = True
                d = core.call_impl(lambda: q(lambda: bi(sts[sel[a_]], sts[sel[b_]], **kwb)))
                mm = core.call_impl(lambda: q(lambda: fn(sts, indices=list(sel), **kwb)))
                ctx.check()
                if isinstance(mm, core.Err) or not feq(mm[a_][b_], d):
                    ctx.violate("matrix entry != two-train call with the same keywords", name,
                                [name, L, [Nat(x) for x in sel], m, mt, ri, iv], expected=d,
                                got=None if isinstance(mm, core.Err) else mm[a_][b_])
        # keyword combinations reach every call form: MRTS='auto' together with RI / max_tau (no index selection here: F10)
        for name, fn, kwa in (("spike_profile", ps.spike_profile, dict(MRTS='auto', RI=True)),
                              ("spike_distance", ps.spike_distance, dict(MRTS='auto', RI=True)),
                              ("spike_sync_profile", ps.spike_sync_profile, dict(MRTS='auto', max_tau=float(mt))),
                              ("spike_train_order_profile", ps.spike_train_order_profile, dict(MRTS='auto', max_tau=float(mt)))):
            q = ctx.impl._quiet
            two = core.call_impl(lambda: q(lambda: fn(sts[i], sts[j], **kwa)))
            lst = core.call_impl(lambda: q(lambda: fn([sts[i], sts[j]], **kwa)))
            tup = core.call_impl(lambda: q(lambda: fn((sts[i], sts[j]), **kwa)))
            ctx.check()
            if not (feq(two, lst) and feq(two, tup)):
                ctx.violate("two trains / [two] / (two) differ with %r" % (sorted(kwa),), name,
                            [name, L, Nat(i), Nat(j), mt, repr(sorted(kwa))], expected=two, got=[lst, tup])
        # a sequence of three averaging windows is honoured by every call form
        pts_ = sorted(r.sample(range(0, 17), 6))
        wins = [(float(kk * Fr(pts_[2 * w_], 16) + cc), float(kk * Fr(pts_[2 * w_ + 1], 16) + cc)) for w_ in range(3)]
        for name, fn, fp, kw in (("isi_distance", ps.isi_distance, ps.isi_profile, k2), ("spike_distance", ps.spike_distance, ps.spike_profile, kS),
                                 ("spike_sync", ps.spike_sync, ps.spike_sync_profile, kT)):
            q = ctx.impl._quiet
            two = core.call_impl(lambda: q(lambda: float(fn(sts[i], sts[j], interval=wins, **kw))))
            lst = core.call_impl(lambda: q(lambda: float(fn([sts[i], sts[j]], interval=wins, **kw))))
            idx = core.call_impl(lambda: q(lambda: float(fn(sts, indices=[i, j], interval=wins, **kw))))
            prf = core.call_impl(lambda: q(lambda: float(fp(sts[i], sts[j], **kw).avrg(wins))))
            full = core.call_impl(lambda: q(lambda: float(fn(sts, interval=wins, **kw))))
            pfull = core.call_impl(lambda: q(lambda: float(fp(sts, **kw).avrg(wins))))
            ctx.check(2)
            if not (feq(two, lst) and feq(two, idx) and feq(two, prf) and feq(full, pfull)):
                ctx.violate("a list of three averaging windows is not honoured identically by all call forms / the profile",
                            name, [name, L, Nat(i), Nat(j), repr(wins), m, mt, ri], expected=[prf, pfull], got=[two, lst, idx, full])
        # MRTS='auto' through index selections
        for name, fn in (("isi_distance", ps.isi_distance), ("spike_sync", ps.spike_sync)):
            sub = core.call_impl(lambda: fn([sts[x] for x in sel], MRTS='auto'))
            sid = core.call_impl(lambda: fn(sts, indices=list(sel), MRTS='auto'))
            ctx.check()
            if not feq(sub, sid):
                ctx.violate("MRTS='auto': indices selection != sub-list", name,
                            [name, L, [Nat(x) for x in sel]], expected=sub, got=sid,
                            auto_subset=(len(sel) < n))
    # the list form on a list object (and train objects) that were used before must equal the other forms on fresh objects
    stale_state_oracle(ctx, ["isi_profile", "spike_profile", "spike_sync_profile", "spike_train_order_profile", "isi_distance",
                             "spike_distance", "spike_sync", "spike_train_order", "isi_distance_matrix", "spike_sync_matrix",
                             "spike_directionality_values", "spike_directionality_matrix"], 20, 250)
    # model correspondence of pair enumeration via the multi entry points with index lists
    cases = []
    for L in lists[:150]:
        n = len(L)
        TL = [T(x) for x in L]
        ix = [Nat(i) for i in r.sample(range(n), r.randint(2, n))]
        m = r.choice(mrts_grid(g)[:3])
        mt = r.choice(maxtau_grid(g))
        cases += [(60, [False, m, TL, ix]), (62, [False, mt, m, TL, ix]), (64, [False, m, None, TL, ix]),
                  (66, [False, mt, m, None, TL, ix]), (67, [False, m, None, TL, ix]),
                  (72, [False, True, mt, m, TL, ix]), (73, [False, mt, m, TL, ix]),
                  (75, [False, False, mt, m, TL, ix])]
        # a train may be selected more than once: the selection is a list of positions, not a set
        rx = ix + [r.choice(ix)]
        r.shuffle(rx)
        cases += [(60, [False, m, TL, rx]), (61, [False, m, False, TL, rx]), (62, [False, mt, m, TL, rx]),
                  (64, [False, m, None, TL, rx]), (65, [False, m, False, None, TL, rx]), (66, [False, mt, m, None, TL, rx]),
                  (67, [False, m, None, TL, rx]), (69, [False, mt, m, None, TL, rx]), (72, [False, True, mt, m, TL, rx]),
                  (73, [False, mt, m, TL, rx]), (75, [False, False, mt, m, TL, rx])]
    ctx.corr(cases, lambda rid, a: True)
    # LARGE inputs (large.py): a list of more than 64 trains - the index-selection forms against the model (which is
    # the sub-list form by theorem), index arrays of narrow integer types included
    ctx.corr(large_list_cases(ctx, (60, 61, 62, 63, 64, 65, 66, 72), sizes=(70,), medium=False), lambda rid, a: True, affine_copies=False)
    if large_on(ctx):
        import numpy as np
        Lb = large.many_trains(ctx.seed, 120)
        stb = ctx.impl.trains([T(x) for x in Lb])
        for dt, sel in ((np.int8, [118, 117]), (np.int8, [100, 3, 119]), (np.uint8, [119, 2]), (np.int16, [100, 101, 5])):
            for nm, f in (("isi_distance", ctx.ps.isi_distance), ("spike_distance", ctx.ps.spike_distance),
                          ("spike_sync", ctx.ps.spike_sync)):
                x = core.call_impl(lambda: ctx.impl._quiet(lambda: float(f(stb, indices=np.array(sel, dtype=dt)))))
                y = core.call_impl(lambda: ctx.impl._quiet(lambda: float(f([stb[i] for i in sel]))))
                ctx.check()
                ctx.nontrivial(("c14dtype", nm, repr(sel), dt.__name__))
                if not (isinstance(x, float) and isinstance(y, float) and core.close(x, y)):
                    ctx.violate("%s(list of 120 trains, indices=%s array %r) != the sub-list form" % (nm, dt.__name__, sel), nm,
                                [repr(sel), dt.__name__], expected=y, got=x)


# ---------------------------------------------------------------------------
def _profile_vals(p):
    return [v for arr in p[1:] for v in arr]


@prop("C15")
def c15(ctx):
    r = ctx.rng
    ps = ctx.ps
    import numpy as np
    from pyspike.isi_lengths import isi_lengths, default_thresh
    # isi_lengths / default_thresh: model and specification
    cases, quads = [], []
    for t in ctx.part(gen.grid_trains(4, 8)):
        cases.append((42, [t, Z, ONE]))
        quads.append((141, [t, Z, ONE], 42, [t, Z, ONE]))
    for _ in range(ctx.n(400 if ctx.tier == "quick" else 5000)):
        trs = gen.rand_trains(r, r.randint(1, 4), 5, 16)
        cases.append((43, [[T(x) for x in trs]]))
        t = gen.rand_train(r, 6, 32)
        sh = [x * 4 - 1 for x in t]
        cases.append((42, [sh, Fr(-1), Fr(3)]))
        quads.append((141, [sh, Fr(-1), Fr(3)], 42, [sh, Fr(-1), Fr(3)]))
    ctx.corr(cases, lambda rid, a: True, functional=True)
    spec_vs_impl(ctx, quads, "isi_lengths == interval lengths of the definition")
    # kernels with MRTS: correspondence
    for pairs, g in pairs_for(ctx, limit_ex=1500, n_rand=500):
        kc = []
        for a, b in pairs:
            m = r.choice(mrts_grid(g))
            mt = r.choice(maxtau_grid(g))
            kc += [(1, [eff(a), eff(b), Z, ONE, m]), (2, [eff(a), eff(b), Z, ONE, m, r.random() < 0.5]),
                   (6, [a, b, Z, ONE, mt, m])]
        ctx.corr(kc, pair_nt)
    for pairs, g in pairs_for(ctx, limit_ex=2500, n_rand=900):
        for a, b in pairs:
            A, B = T(a), T(b)
            sa, sb = ctx.impl.train(A), ctx.impl.train(B)
            ri = r.random() < 0.5
            mt = float(r.choice(maxtau_grid(g)))
            m1, m2 = sorted([r.choice(mrts_grid(g) + [Fr(1, g), Fr(3, g), Fr(1)]) for _ in range(2)])
            if nontrivial_pair(a, b):
                ctx.nontrivial(("c15", core.enc([a, b]), m1, m2, ri, mt))
            q = ctx.impl._quiet
            fns = [("isi_profile", lambda **k: ps.isi_profile(sa, sb, **k)),
                   ("spike_profile", lambda **k: ps.spike_profile(sa, sb, RI=ri, **k)),
                   ("spike_sync_profile", lambda **k: ps.spike_sync_profile(sa, sb, max_tau=mt, **k)),
                   ("spike_train_order_profile", lambda **k: ps.spike_train_order_profile(sa, sb, max_tau=mt, **k)),
                   ("isi_distance", lambda **k: ps.isi_distance(sa, sb, **k)),
                   ("spike_distance", lambda **k: q(lambda: ps.spike_distance(sa, sb, RI=ri, **k))),
                   ("spike_sync", lambda **k: ps.spike_sync(sa, sb, max_tau=mt, **k)),
                   ("spike_directionality", lambda **k: ps.spike_directionality(sa, sb, max_tau=mt, **k))]
            desc = [a, b, m1, m2, ri, Fr(mt)]
            # the threshold below every ISI of the two trains
            lens = isi_lengths([float(x) for x in a], 0.0, 1.0) + isi_lengths([float(x) for x in b], 0.0, 1.0)
            mlow = min(lens) * r.choice([0.5, 0.75, 0.999])
            auto = float(default_thresh([sa, sb]))
            for name, f in fns:
                v_none = core.call_impl(f)
                v_zero = core.call_impl(lambda: f(MRTS=0.))
                v1 = core.call_impl(lambda: f(MRTS=float(m1)))
                v2 = core.call_impl(lambda: f(MRTS=float(m2)))
                v_low = core.call_impl(lambda: f(MRTS=mlow))
                v_auto = core.call_impl(lambda: f(MRTS='auto'))
                v_expl = core.call_impl(lambda: f(MRTS=auto))
                ctx.check(4)
                if not feq(v_none, v_zero, 0.0):
                    ctx.violate("MRTS=0 differs from the non-adaptive measure", name, desc, expected=v_none, got=v_zero)
                if mlow > 0 and not feq(v_none, v_low):
                    ctx.violate("MRTS below every ISI changes the result", name, desc + [Fr(mlow)], expected=v_none, got=v_low)
                if not feq(v_auto, v_expl, 1e-12):
                    ctx.violate("MRTS='auto' != passing the automatic threshold explicitly", name, desc, expected=v_expl, got=v_auto)
                if isinstance(v1, core.Err) or isinstance(v2, core.Err):
                    ctx.violate("raises with MRTS", name, desc, got=[v1, v2])
                    continue
                if name in ("isi_profile", "spike_profile"):
                    if not feq(v1[0], v2[0]) or any(y2 > y1 + 1e-12 for y1, y2 in zip(_profile_vals(v1), _profile_vals(v2))):
                        ctx.violate("raising MRTS increases a profile value", name, desc, expected=v1, got=v2)
                elif name in ("isi_distance", "spike_distance"):
                    if v2 > v1 + 1e-12:
                        ctx.violate("raising MRTS increases the distance", name, desc, expected=v1, got=v2)
                elif name == "spike_sync_profile":
                    if not feq(v1[0], v2[0]) or any(y2 < y1 - 1e-12 for y1, y2 in zip(v1[1], v2[1])):
                        ctx.violate("raising MRTS removes a coincidence", name, desc, expected=v1, got=v2)
                elif name == "spike_train_order_profile":
                    if not feq(v1[0], v2[0]) or any(abs(y2) < abs(y1) - 1e-12 for y1, y2 in zip(v1[1], v2[1])):
                        ctx.violate("raising MRTS removes a coincidence (order profile)", name, desc, expected=v1, got=v2)
                elif name == "spike_sync":
                    if v2 < v1 - 1e-12:
                        ctx.violate("raising MRTS lowers SPIKE-Sync", name, desc, expected=v1, got=v2)
    # multivariate: 'auto' is the pooled threshold of the trains involved; thresh^2 = mean square
    lists, g = ctx.space.random_lists(n=200 if ctx.tier == "quick" else 3000)
    lists = ctx.part(lists)
    for L in lists:
        if r.random() < 0.3:
            L = list(L) + [list(r.choice(L))]          # a repeated trial / two equal channels
        sts = ctx.impl.trains([T(t) for t in L])
        ctx.nontrivial(("c15m", core.enc(L)))
        auto = float(default_thresh(sts))
        pool = []
        for t in L:
            pool += isi_lengths([float(x) for x in t], 0.0, 1.0)
        exp = math.sqrt(sum(x * x for x in pool) / len(pool))
        ctx.check()
        if not core.close(auto, exp, 1e-12):
            ctx.violate("default_thresh != RMS of the pooled ISI lengths", "default_thresh", [L], expected=exp, got=auto)
        m1, m2 = sorted([float(r.choice(mrts_grid(g))) for _ in range(2)])
        q = ctx.impl._quiet
        for name, f in (("isi_profile", ps.isi_profile), ("spike_profile", ps.spike_profile),
                        ("spike_sync_profile", ps.spike_sync_profile),
                        ("isi_distance", ps.isi_distance), ("spike_distance", ps.spike_distance),
                        ("spike_sync", ps.spike_sync), ("isi_distance_matrix", ps.isi_distance_matrix),
                        ("spike_distance_matrix", ps.spike_distance_matrix),
                        ("spike_sync_matrix", ps.spike_sync_matrix),
                        ("spike_train_order", ps.spike_train_order),
                        ("spike_directionality_values", ps.spike_directionality_values),
                        ("spike_directionality_matrix", ps.spike_directionality_matrix)):
            va = core.call_impl(lambda: q(lambda: f(sts, MRTS='auto')))
            ve = core.call_impl(lambda: q(lambda: f(sts, MRTS=auto)))
            v0 = core.call_impl(lambda: q(lambda: f(sts, MRTS=0.)))
            vn = core.call_impl(lambda: q(lambda: f(sts)))
            ctx.check(2)
            if not feq(va, ve, 1e-12):
                ctx.violate("multivariate MRTS='auto' != explicit pooled threshold", name, [L], expected=ve, got=va)
            # ... independently of the other keywords (reconciliation switched off on valid input, an interval)
            kwx = dict(Reconcile=False)
            if name in ("isi_distance", "spike_distance", "spike_sync", "isi_distance_matrix", "spike_distance_matrix",
                        "spike_sync_matrix") and r.random() < 0.5:
                kwx["interval"] = (0.25, 0.875)
            var = core.call_impl(lambda: q(lambda: f(sts, MRTS='auto', **kwx)))
            ver = core.call_impl(lambda: q(lambda: f(sts, MRTS=auto, **kwx)))
            ctx.check()
            if not feq(var, ver, 1e-12):
                ctx.violate("multivariate MRTS='auto' != explicit pooled threshold with %r" % (sorted(kwx),), name, [L],
                            expected=ver, got=var)
            if not feq(v0, vn, 0.0):
                ctx.violate("multivariate MRTS=0 != non-adaptive", name, [L], expected=vn, got=v0)
            # the type of the number does not matter: an integer-typed threshold is that threshold
            for mi in (0, r.choice([1, 2]), np.int64(1)):
                vi = core.call_impl(lambda: q(lambda: f(sts, MRTS=mi)))
                vf = core.call_impl(lambda: q(lambda: f(sts, MRTS=float(mi))))
                ctx.check()
                if not feq(vi, vf, 0.0):
                    ctx.violate("integer-typed MRTS=%r gives a different result than MRTS=%r" % (mi, float(mi)), name, [L],
                                expected=vf, got=vi)
            # with an index selection the code still pools the automatic threshold over the WHOLE list
            # (model: ModelAuto.auto_pool_multi; this is known finding F10 for property C14)
            if len(sts) >= 3 and name not in ("spike_directionality_values", "spike_directionality_matrix"):
                sel = sorted(r.sample(range(len(sts)), 2))
                vai = core.call_impl(lambda: q(lambda: f(sts, indices=sel, MRTS='auto')))
                vei = core.call_impl(lambda: q(lambda: f(sts, indices=sel, MRTS=auto)))
                auto_sel = float(default_thresh([sts[i] for i in sel]))
                ves = core.call_impl(lambda: q(lambda: f(sts, indices=sel, MRTS=auto_sel)))
                ctx.check()
                # accepted: the pool of the selected trains (what the property asks for) or the pool of the whole
                # list (what the code does today, known finding F10 of C14) - anything else is a violation
                if not feq(vai, vei, 1e-12) and not feq(vai, ves, 1e-12):
                    ctx.violate("MRTS='auto' with indices: the threshold is neither the one pooled over the selected trains "
                                "nor the one pooled over the whole list", name, [L, sel], expected=[ves, vei], got=vai)
            if name in ("isi_distance", "spike_distance", "isi_distance_matrix", "spike_distance_matrix"):
                w1 = core.call_impl(lambda: q(lambda: f(sts, MRTS=m1)))
                w2 = core.call_impl(lambda: q(lambda: f(sts, MRTS=m2)))
                a1, a2 = np.array(w1, dtype=float), np.array(w2, dtype=float)
                if isinstance(w1, core.Err) or isinstance(w2, core.Err) or (a2 > a1 + 1e-12).any():
                    ctx.violate("raising MRTS increases a multivariate distance", name, [L, Fr(m1), Fr(m2)], expected=w1, got=w2)
    # LARGE inputs (large.py): the automatic threshold pooled over long recordings / many trains (more than 500 spikes,
    # more than 16 trains with very different spike counts, a one-spike train among long ones), in both list orders
    if large_on(ctx):
        lps = large.long_pairs(ctx.seed)
        big = [
            [T(lps[2][0]), T(lps[2][1]), T([Fr(1200, 4096)])],
            [T(x) for x in large.medium_trains(ctx.seed, 16, k=12)] + [T(x) for x in large.many_trains(ctx.seed, 8, maxk=2)],
            [T(x) for x in large.many_trains(ctx.seed, 20)],
            [T(lps[0][0]), T(lps[0][1])], [T(lps[0][1]), T(lps[0][0])],
            [T(large._fr(sorted(r.sample(range(0, 4097), 600)))), T(large._fr(sorted(r.sample(range(0, 4097), 7))))],
        ]
        big.append(list(reversed(big[1])))
        big.append(list(reversed(big[5])))
        lc = [(43, [L_]) for L_ in big] + [(42, [L_[0][0], Z, ONE]) for L_ in big]
        ctx.bump("large_list_cases", len(lc))
        ctx.corr(lc, lambda rid, a: True, affine_copies=False)


# ---------------------------------------------------------------------------
def _min_other(x, other):
    ds = [abs(x - y) for y in other if y != x]
    return min(ds) if ds else None


@prop("C16")
def c16(ctx):
    r = ctx.rng
    ps = ctx.ps
    for pairs, g in pairs_for(ctx):
        # correspondence of the window routine and the coincidence kernels
        ctx.corr(sync_cases(pairs, g, (6, 7, 8, 9)), pair_nt)
        spec_vs_impl(ctx, [(102, [a, b, Z, ONE, mt, m], 6, [a, b, Z, ONE, mt, m])
                           for a, b in pairs for m in mrts_grid(g)[:2] for mt in maxtau_grid(g)],
                     "coincidence profile == pairwise definition (with max_tau)")
        for a, b in pairs:
            if not a or not b:
                continue
            m = r.choice(mrts_grid(g))
            mts = sorted(set([Fr(r.randint(1, 2 * g), 2 * g) for _ in range(2)]))
            if nontrivial_pair(a, b):
                ctx.nontrivial(("c16", core.enc([a, b]), m, tuple(mts)))
            prev = None
            for mt in mts:
                p = ctx.call(6, [a, b, Z, ONE, mt, m])
                o_ = ctx.call(8, [a, b, Z, ONE, mt, m])
                d = ctx.call(9, [a, b, Z, ONE, mt, m])
                c1 = ctx.call(7, [a, b, Z, ONE, mt, m])
                ctx.check(4)
                if any(isinstance(v, core.Err) for v in (p, o_, d, c1)):
                    ctx.violate("coincidence routine raises", "kernels", [a, b, mt, m], got=[p, o_, d, c1])
                    continue
                # every marked spike needs a partner closer than max_tau
                def bound(x, own_is_1):
                    dm = _min_other(Fr(x).limit_denominator(10 ** 6), b if own_is_1 else a)
                    return dm is not None and dm < mt
                for x, y, mp in list(zip(*p))[1:-1]:
                    if mp == 1 and y != 0:
                        X = Fr(x).limit_denominator(10 ** 6)
                        if not bound(x, X in a):
                            ctx.violate("spike marked coincident although every other spike is >= max_tau away",
                                        "coincidence_profile", [a, b, Z, ONE, mt, m], got=p, rid=6)
                            break
                for x, y, mp in list(zip(*o_))[1:-1]:
                    if mp == 1 and y != 0:
                        X = Fr(x).limit_denominator(10 ** 6)
                        if not bound(x, X in a):
                            ctx.violate("order profile marks a pair >= max_tau apart", "order_profile",
                                        [a, b, Z, ONE, mt, m], got=o_, rid=8)
                            break
                for k, v in enumerate(d[0]):
                    if v != 0 and not (_min_other(a[k], b) is not None and _min_other(a[k], b) < mt):
                        ctx.violate("directionality value for a pair >= max_tau apart", "directionality_profile",
                                    [a, b, Z, ONE, mt, m], got=d, rid=9)
                        break
                for k, v in enumerate(c1):
                    if v != 0 and a[k] not in b and not (_min_other(a[k], b) < mt):
                        ctx.violate("per-spike indicator set for a pair >= max_tau apart", "coincidence_single",
                                    [a, b, Z, ONE, mt, m], got=c1, rid=7)
                        break
                if prev is not None:
                    if any(y2 < y1 - 1e-12 for y1, y2 in zip(prev[1], p[1])):
                        ctx.violate("enlarging max_tau removes a coincidence", "coincidence_profile",
                                    [a, b, Z, ONE, mts, m], expected=prev, got=p, rid=6)
                prev = p
            # no bound: also never fewer coincidences than any bounded run
            p0 = ctx.call(6, [a, b, Z, ONE, Z, m])
            if prev is not None and not isinstance(p0, core.Err) and any(y2 < y1 - 1e-12 for y1, y2 in zip(prev[1], p0[1])):
                ctx.violate("max_tau=0 (no bound) has fewer coincidences than a bounded run", "coincidence_profile",
                            [a, b, Z, ONE, mts, m], expected=prev, got=p0, rid=6)
    big = big_tau_pairs(ctx)
    ctx.corr([(rid, [a, b, Z, ONE, mt, m]) for a, b, mt, m in big for rid in (6, 7, 8, 9)], pair_nt)
    for a, b, mt, m in big:
        # enlarging max_tau never removes a coincidence, also beyond the recording length
        if mt == Fr(3, 4):
            ps_ = [ctx.call(6, [a, b, Z, ONE, t_, m]) for t_ in (Fr(3, 4), Fr(1), Fr(2), Z)]
            cs_ = [ctx.call(7, [a, b, Z, ONE, t_, m]) for t_ in (Fr(3, 4), Fr(1), Fr(2), Z)]
            ctx.check(2)
            for p1, p2 in zip(ps_, ps_[1:]):
                if isinstance(p1, core.Err) or isinstance(p2, core.Err) or any(y2 < y1 - 1e-12 for y1, y2 in zip(p1[1], p2[1])):
                    ctx.violate("enlarging max_tau (beyond half the recording) removes a coincidence", "coincidence_profile",
                                [a, b, Z, ONE, Fr(3, 4), m], expected=p1, got=p2, rid=6)
                    break
            for c1, c2 in zip(cs_, cs_[1:]):
                if isinstance(c1, core.Err) or isinstance(c2, core.Err) or any(y2 < y1 - 1e-12 for y1, y2 in zip(c1, c2)):
                    ctx.violate("enlarging max_tau (beyond half the recording) removes a per-spike coincidence",
                                "coincidence_single", [a, b, Z, ONE, Fr(3, 4), m], expected=c1, got=c2, rid=7)
                    break
    # max_tau must be honoured together with an averaging interval (scalar, multivariate, matrix)
    icases = []
    rnd_, g_ = ctx.space.random_pairs(n=300 if ctx.tier == "quick" else 4000)
    for a, b in ctx.part(rnd_):
        iv = intervals_for(r, g_, 1)[1]
        mt = r.choice([Fr(1, 32), Fr(1, 16), Fr(1, 8)])
        m = r.choice(mrts_grid(g_)[:3])
        icases += [(56, [False, mt, m, iv, T(a), T(b)]), (66, [False, mt, m, iv, [T(a), T(b), T(a)], None]),
                   (69, [False, mt, m, iv, [T(a), T(b), T(a)], None])]
        # the bound itself on the interval value: only spikes inside the interval with a partner < max_tau can count
        v = ctx.call(56, [False, mt, m, iv, T(a), T(b)])
        ctx.check()
        inside = [(x, 0) for x in a if iv[0] < x < iv[1]] + [(x, 1) for x in b if iv[0] < x < iv[1]]
        if inside and isinstance(v, float):
            ok_cnt = sum(1 for x, w in inside if any(abs(x - y) < mt for y in (b if w == 0 else a)))
            if v > ok_cnt / len(inside) + 1e-12:
                ctx.violate("SPIKE-Sync on an interval counts a pair >= max_tau apart", "spike_sync",
                            [False, mt, m, iv, T(a), T(b)], expected="<= %d/%d" % (ok_cnt, len(inside)), got=v, rid=56)
    ctx.corr(icases, lambda rid, a_: True)
    # the bound through every list entry point (one max_tau object serves all pairs of the list; the adapters
    # pass it as float / numpy scalar / int / 0-d array in turn) and repeated calls with the same max_tau object
    lcases = []
    ll, gl = ctx.space.random_lists(n=150 if ctx.tier == "quick" else 2000)
    for L in ctx.part(ll):
        TL = [T(t) for t in L]
        mt = r.choice([Fr(1, 16), Fr(1, 8), Fr(1, 4)])
        m = r.choice(mrts_grid(gl)[:3])
        lcases += [(62, [False, mt, m, TL, None]), (63, [False, mt, m, TL, None]), (66, [False, mt, m, None, TL, None]),
                   (69, [False, mt, m, None, TL, None]), (72, [False, True, mt, m, TL, None]), (73, [False, mt, m, TL, None]),
                   (75, [False, False, mt, m, TL, None]), (70, [False, mt, m, Fr(1, 4), TL])]
        import numpy as np
        sts = ctx.impl.trains(TL)
        for mk in (float, np.float64, np.array):
            mo = mk(float(mt))
            for name, f in (("spike_directionality_values", ps.spike_directionality_values),
                            ("spike_directionality_matrix", ps.spike_directionality_matrix),
                            ("spike_sync", ps.spike_sync), ("spike_train_order", ps.spike_train_order)):
                v1 = core.call_impl(lambda: f(sts, max_tau=mo))
                v2 = core.call_impl(lambda: f(sts, max_tau=mo))
                ctx.check()
                if not feq(v1, v2, 0.0) or float(mo) != float(mt):
                    ctx.violate("two calls with the same max_tau object (%s) differ, or the object was changed" % type(mo).__name__,
                                name, [TL, mt], expected=v1, got=[v2, float(mo)])
    ctx.corr(lcases, lambda rid, a_: True)
    # None == 0 through the public API; the bound through the public API
    lists, g = ctx.space.random_lists(n=200 if ctx.tier == "quick" else 3000)
    lists = ctx.part(lists)
    for L in lists:
        sts = ctx.impl.trains([T(t) for t in L])
        m = float(r.choice(mrts_grid(g)[:3]))
        ctx.nontrivial(("c16api", core.enc(L), m))
        for name, f in (("spike_sync_profile", ps.spike_sync_profile), ("spike_sync", ps.spike_sync),
                        ("spike_sync_matrix", ps.spike_sync_matrix),
                        ("spike_train_order_profile", ps.spike_train_order_profile),
                        ("spike_train_order", ps.spike_train_order),
                        ("spike_directionality_values", ps.spike_directionality_values),
                        ("spike_directionality_matrix", ps.spike_directionality_matrix),
                        ("filter_by_spike_sync", lambda s, **k: ps.filter_by_spike_sync(s, 0.3, **k))):
            vn = core.call_impl(lambda: f(sts, max_tau=None, MRTS=m))
            v0 = core.call_impl(lambda: f(sts, max_tau=0, MRTS=m))
            vd = core.call_impl(lambda: f(sts, MRTS=m))
            ctx.check()
            if not (feq(vn, v0, 0.0) and feq(vn, vd, 0.0)):
                ctx.violate("max_tau=None / 0 / omitted differ", name, [L, Fr(m)], expected=vn, got=[v0, vd])
            # the bound is honoured whatever the other keywords are: 'auto' == the explicit pooled threshold, with max_tau
            from pyspike.isi_lengths import default_thresh as _dt
            au = core.call_impl(lambda: float(_dt(sts)))
            mtq = 0.125
            va = core.call_impl(lambda: ctx.impl._quiet(lambda: f(sts, max_tau=mtq, MRTS='auto')))
            ve = core.call_impl(lambda: ctx.impl._quiet(lambda: f(sts, max_tau=mtq, MRTS=au)))
            ctx.check()
            if not feq(va, ve, 1e-12):
                ctx.violate("with max_tau: MRTS='auto' != the explicit pooled threshold (a keyword is lost)", name, [L, Fr(mtq)],
                            expected=ve, got=va)
        for (name, f) in (("spike_sync_profile", ps.spike_sync_profile), ("spike_train_order_profile", ps.spike_train_order_profile)):
            mt = Fr(r.randint(1, g), 2 * g)
            a, b = L[0], L[1]
            p = core.call_impl(lambda: f(sts[0], sts[1], max_tau=float(mt), MRTS=m))
            ctx.check()
            if isinstance(p, core.Err):
                ctx.violate("raises", name, [a, b, mt], got=p)
                continue
            for x, y, mp in list(zip(*p))[1:-1]:
                X = Fr(x).limit_denominator(10 ** 6)
                if mp == 1 and y != 0:
                    dm = _min_other(X, b if X in a else a)
                    if dm is None or not dm < mt:
                        ctx.violate("API: spike marked coincident with partner >= max_tau away", name,
                                    [a, b, mt, Fr(m)], got=p)
                        break
        # filter: a kept spike at threshold 0 has a partner within max_tau
        mt = Fr(r.randint(1, g), 2 * g)
        kept = core.call_impl(lambda: ps.filter_by_spike_sync(sts, 0.0, max_tau=float(mt), MRTS=m))
        ctx.check()
        if not isinstance(kept, core.Err):
            for i, k in enumerate(kept):
                others = [x for j, t in enumerate(L) if j != i for x in t]
                for x in k[0]:
                    X = Fr(x).limit_denominator(10 ** 6)
                    if not any(abs(X - y) < mt for y in others):
                        ctx.violate("filter keeps a spike with no spike of another train within max_tau",
                                    "filter_by_spike_sync", [L, mt, Fr(m)], got=kept)
                        break
    # LARGE inputs (large.py): long trains and 16+ trains with a bound on the window
    ctx.corr(large_pair_cases(ctx, (6, 8, 9, 52, 53, 56)) + large_list_cases(ctx, (62, 63, 69, 75), sizes=(16, 17), medium=False),
             lambda rid, a: True, affine_copies=False)


# ---------------------------------------------------------------------------
@prop("C17")
def c17(ctx):
    r = ctx.rng
    ps = ctx.ps
    import numpy as np
    lists, g = ctx.space.random_lists(n=400 if ctx.tier == "quick" else 6000)
    small, gs = ctx.space.small_lists(3, 2, 4, limit=500 if ctx.tier == "quick" else 4000)
    todo = [(L, g) for L in ctx.part(lists)] + [(L, gs) for L in ctx.part(small)]
    cases, quads = [], []
    for L, gg in todo:
        n = len(L)
        c0 = r.choice([Z, Z, Fr(-5, 2), Fr(3)])           # recordings that do not start at 0 as well
        L = [[x + c0 for x in t] for t in L]
        TL = [T(x, c0, c0 + 1) for x in L]
        m = r.choice(mrts_grid(gg)[:3])
        mt = r.choice(maxtau_grid(gg) + [Fr(3, 4), Fr(2)])
        thr = Fr(r.randint(0, n - 1), n - 1) if r.random() < 0.7 else Fr(r.randint(0, 16), 16)
        # ... and thresholds a hair (2^-30, 2^-17: far above rounding, far below 1/(N-1)) beside an attainable fraction: the
        # comparison is exact, not "approximately greater"
        hair = r.choice([Z, Z, Fr(1, 2 ** 30), Fr(-1, 2 ** 30), Fr(-1, 2 ** 17), Fr(1, 2 ** 17)])
        if Z <= thr + hair <= ONE:
            thr = thr + hair
        if sum(len(x) for x in L) >= 3:
            ctx.nontrivial(("c17", core.enc(TL), m, mt, thr))
        cases.append((70, [False, mt, m, thr, TL]))
        cases.append((70, [True, mt, m, thr, TL]))               # default reconciliation (valid input: no effect)
        kq = Fr(1, 2 ** 24)                                      # the same list in a time unit of 2^-24
        cases.append((70, [True, mt * kq, m * kq, thr, [[[kq * x for x in t[0]], kq * t[1], kq * t[2]] for t in TL]]))
        quads.append((106, [mt, m, thr, TL], 70, [False, mt, m, thr, TL]))
        for i in range(min(n, 2)):
            cases.append((7, [L[i], L[(i + 1) % n], c0, c0 + 1, mt, m]))
            quads.append((103, [L[i], L[(i + 1) % n], c0, c0 + 1, mt, m], 7, [L[i], L[(i + 1) % n], c0, c0 + 1, mt, m]))
        sts = ctx.impl.trains(TL)
        snap = [(s.spikes.copy(), s.t_start, s.t_end) for s in sts]
        res = core.call_impl(lambda: ps.filter_by_spike_sync(sts, float(thr), max_tau=float(mt), MRTS=float(m),
                                                             return_removed_spikes=True))
        ctx.check()
        if isinstance(res, core.Err):
            ctx.violate("filter raises", "filter_by_spike_sync", [False, mt, m, thr, TL], got=res, rid=70)
            continue
        for s, (sp, a, b) in zip(sts, snap):
            if not (np.array_equal(s.spikes, sp) and s.t_start == a and s.t_end == b):
                ctx.violate("filter modified its input", "filter_by_spike_sync", [False, mt, m, thr, TL], rid=70)
        kept, removed = res
        only = core.call_impl(lambda: ps.filter_by_spike_sync(sts, float(thr), max_tau=float(mt), MRTS=float(m)))
        if not feq(only, kept):
            ctx.violate("kept trains differ between the two return forms", "filter_by_spike_sync",
                        [False, mt, m, thr, TL], expected=kept, got=only, rid=70)
        prof = ctx.call(62, [False, mt, m, TL, None])
        for i in range(n):
            k, rm = kept[i], removed[i]
            # partition in the original order on the original interval
            if sorted(k[0] + rm[0]) != [float(x) for x in L[i]] or k[0] != sorted(k[0]) or rm[0] != sorted(rm[0]) \
                    or k[1:] != [float(c0), float(c0 + 1)] or rm[1:] != [float(c0), float(c0 + 1)] or set(k[0]) & set(rm[0]):
                ctx.violate("kept and removed spikes are not a partition of the input train", "filter_by_spike_sync",
                            [False, mt, m, thr, TL], got=[k, rm], rid=70)
                break
            # link with the multivariate profile for spike times that are unique to this train
            if isinstance(prof, core.Err):
                continue
            for x in L[i]:
                if sum(1 for t in L if x in t) != 1:
                    continue
                idx = [q for q, px in enumerate(prof[0][1:-1], 1) if abs(px - float(x)) < 1e-12]
                if len(idx) != 1:
                    ctx.violate("multivariate profile has no single entry for a unique spike time", "spike_sync_profile",
                                [False, mt, m, TL, None], got=prof, rid=62)
                    break
                frac = prof[1][idx[0]] / prof[2][idx[0]]
                want_kept = frac > float(thr) + 1e-12
                borderline = abs(frac - float(thr)) <= 1e-12
                if not borderline and (float(x) in k[0]) != want_kept:
                    ctx.violate("kept != (profile fraction > threshold)", "filter_by_spike_sync",
                                [False, mt, m, thr, TL], expected="x=%s frac=%r" % (x, frac), got=[k, rm], rid=70)
                    break
                if borderline and float(x) in k[0]:
                    ctx.violate("spike exactly at the threshold is kept (comparison must be strict)",
                                "filter_by_spike_sync", [False, mt, m, thr, TL], expected="x=%s frac=%r" % (x, frac),
                                got=[k, rm], rid=70)
                    break
        # monotone in the threshold
        thr2 = min(Fr(1), thr + Fr(r.randint(0, 4), 8))
        k2 = core.call_impl(lambda: ps.filter_by_spike_sync(sts, float(thr2), max_tau=float(mt), MRTS=float(m)))
        ctx.check()
        if isinstance(k2, core.Err) or any(not set(b_[0]) <= set(a_[0]) for a_, b_ in zip(kept, k2)):
            ctx.violate("a higher threshold keeps a spike the lower one removed", "filter_by_spike_sync",
                        [False, mt, m, [thr, thr2], TL], expected=kept, got=k2)
    stale_state_oracle(ctx, ["filter_by_spike_sync", "spike_sync_profile"], 30, 300)
    # many trains: a spike coincident with k of the N-1 others is removed at threshold k/(N-1) itself (strict), for
    # N-1 = 9, 18, 6 as well (thresholds 1, 1/2 that are attained exactly)
    big = []
    for nn, kk_ in ((10, 9), (19, 9), (7, 3), (7, 6)):
        base = sorted(set(Fr(r.randint(1, 15), 16) for _ in range(3)))
        other = [x + Fr(1, 4) if x < Fr(1, 2) else x - Fr(1, 4) for x in base]
        TLn = [T(base)] * (kk_ + 1) + [T(sorted(set(other)))] * (nn - kk_ - 1)
        for thr in (Fr(kk_, nn - 1), Fr(1, 2), Fr(1)):
            big.append((70, [False, Z, Z, thr, TLn]))
    ctx.corr(big if ctx.shard == 0 else [], lambda rid, a: True)
    # MRTS='auto' in the filter is ONE threshold pooled over the list (as in the multivariate profile it is compared with)
    from pyspike.isi_lengths import default_thresh
    al, g3 = ctx.space.random_lists(n=120 if ctx.tier == "quick" else 1500)
    for L in ctx.part(al):
        sts = ctx.impl.trains([T(t) for t in L])
        thr = float(Fr(r.randint(0, 3), 4))
        auto = core.call_impl(lambda: float(default_thresh(sts)))
        for kwf in (dict(), dict(max_tau=0.5), dict(Reconcile=False)):
            x = core.call_impl(lambda: ps.filter_by_spike_sync(sts, thr, MRTS='auto', return_removed_spikes=True, **kwf))
            y = core.call_impl(lambda: ps.filter_by_spike_sync(sts, thr, MRTS=auto, return_removed_spikes=True, **kwf))
            ctx.check()
            ctx.nontrivial(("c17auto", core.enc(L), thr, repr(sorted(kwf))))
            if isinstance(x, core.Err) or not feq(x, y, 0.0):
                ctx.violate("filter with MRTS='auto' != filter with the threshold pooled over the list", "filter_by_spike_sync",
                            [[T(t) for t in L], Fr(thr), repr(kwf)], expected=y, got=x)
    # the "other N-1 trains" are the other list POSITIONS: the same object entered twice (reconciliation off,
    # so the objects are used as given) counts like an equal copy
    rl, g2 = ctx.space.random_lists(n=80 if ctx.tier == "quick" else 1000)
    for L in ctx.part(rl):
        sts = ctx.impl.trains([T(t) for t in L])
        thr = float(Fr(r.randint(0, 3), 4))
        same = [sts[0], sts[0]] + sts[1:]
        copy = [sts[0], sts[0].copy()] + sts[1:]
        for kwf in (dict(Reconcile=False), dict(Reconcile=False, max_tau=0.25), dict()):
            x = core.call_impl(lambda: ps.filter_by_spike_sync(same, thr, return_removed_spikes=True, **kwf))
            y = core.call_impl(lambda: ps.filter_by_spike_sync(copy, thr, return_removed_spikes=True, **kwf))
            ctx.check()
            ctx.nontrivial(("c17same", core.enc(L), thr, repr(sorted(kwf))))
            if isinstance(x, core.Err) or not feq(x, y, 0.0):
                ctx.violate("a train object entered twice is not treated like an equal copy at another position",
                            "filter_by_spike_sync", [[T(t) for t in L], Fr(thr), repr(kwf)], expected=y, got=x)
    big = big_tau_pairs(ctx)
    cases += [(7, [a, b, Z, ONE, mt, m]) for a, b, mt, m in big]
    quads += [(103, [a, b, Z, ONE, mt, m], 7, [a, b, Z, ONE, mt, m]) for a, b, mt, m in big]
    for a, b, mt, m in big[::3]:
        TLb = [T(a), T(b), T([Fr(1, 2)])]
        cases.append((70, [False, mt, m, Z, TLb]))
        quads.append((106, [mt, m, Z, TLb], 70, [False, mt, m, Z, TLb]))
    ctx.corr(cases, lambda rid, a: True, functional=True)
    spec_vs_impl(ctx, [q for q in quads if q[0] == 106], "filter keeps exactly the spikes with count > thr*(N-1)",
                 proj=lambda v: [[kr[0][0], kr[1][0]] for kr in v])
    spec_vs_impl(ctx, [q for q in quads if q[0] == 103], "per-spike indicator == pairwise definition")
    # LARGE inputs (large.py): a burst of 100 partner spikes between two spikes of the filtered train; 130 trains (a spike
    # coincident with 128 or more partners)
    if large_on(ctx):
        lf = []
        lps = large.long_pairs(ctx.seed)
        for a, b in lps:
            lf.append((7, [a, b, Z, ONE, Fr(1, 16), Z]))
        for a, b in lps[::3]:
            for thr_ in (Z, Fr(1, 2)):
                lf.append((70, [False, Z, Z, thr_, [T(a), T(b), T([Fr(1, 2), Fr(3, 4)])]]))
        base = [Fr(1, 4), Fr(1, 2), Fr(3, 4)]
        TLc = [T(base)] * 129 + [T([Fr(1, 8)])]
        lf += [(70, [False, Z, Z, Z, TLc]), (70, [False, Z, Z, Fr(127, 129), TLc]),
               (70, [False, Z, Z, Fr(1, 2), [T(x) for x in large.many_trains(ctx.seed, 40)]])]
        ctx.corr(lf, lambda rid, a: True, affine_copies=False)


# ---------------------------------------------------------------------------
DEGENERATE = [[], [Z], [ONE], [Fr(1, 2)], [Z, ONE], [Z, Fr(1, 2)], [Fr(1, 2), ONE], [Fr(1, 4), Fr(1, 2)],
              [Z, Fr(1, 4), ONE], [Fr(1, 4)], [Fr(1, 4), Fr(3, 4)]]


def wf_profile(p, kind):
    """None if the canonical profile p is well formed, else a description"""
    if isinstance(p, core.Err):
        return "raises %r" % p
    if not core.all_finite(p):
        return "not finite"
    xs = p[0]
    if not (xs and xs[0] == 0.0 and xs[-1] == 1.0):
        return "time axis does not run from t_start to t_end"
    if kind == "df":
        if len(xs) < 2 or any(xs[k] > xs[k + 1] for k in range(len(xs) - 1)):
            return "discrete time axis decreasing / edge entries missing"
        if not (len(p[1]) == len(xs) and len(p[2]) == len(xs)):
            return "inconsistent lengths"
    else:
        if any(xs[k] >= xs[k + 1] for k in range(len(xs) - 1)):
            return "time axis not strictly increasing"
        if any(len(a) != len(xs) - 1 for a in p[1:]):
            return "inconsistent lengths"
    return None


@prop("C18")
def c18(ctx):
    r = ctx.rng
    ps = ctx.ps
    q = ctx.impl._quiet
    # all pairs and a sample of triples/quadruples of degenerate trains + random lists with degenerate members
    lists = [[a, b] for a in DEGENERATE for b in DEGENERATE]
    rr = __import__("random").Random(ctx.seed + 5)
    for _ in range(300 if ctx.tier == "quick" else 4000):
        n = rr.randint(3, 5)
        lists.append([rr.choice(DEGENERATE + [gen.rand_train(rr, 4, 8)]) for _ in range(n)])
    lists = ctx.part(lists)
    cases = []
    for L in lists:
        n = len(L)
        TL = [T(x) for x in L]
        sts = ctx.impl.trains(TL)
        m = r.choice([Z, Fr(1, 4), Fr(2)])
        mt = r.choice([Z, Fr(1, 4)])
        ri = r.random() < 0.5
        iv = r.choice([None, (0.25, 0.75), (0.0, 0.5), (0.5, 1.0), (0.125, 0.25)])
        ctx.nontrivial(("c18", core.enc(TL), m, mt, ri, iv))
        mv = 'auto' if r.random() < 0.3 else float(m)       # the automatic threshold must be finite as well
        kM = dict(MRTS=mv)
        kS = dict(MRTS=mv, RI=ri)
        kT = dict(MRTS=mv, max_tau=float(mt))
        arg = (sts[0], sts[1]) if n == 2 else (sts,)
        profs = [("isi_profile", ps.isi_profile, kM, "pw"), ("spike_profile", ps.spike_profile, kS, "pw"),
                 ("spike_sync_profile", ps.spike_sync_profile, kT, "df"),
                 ("spike_train_order_profile", ps.spike_train_order_profile, kT, "df")]
        for name, f, kw, kind in profs:
            for form in ((arg,) if n > 2 else (arg, (sts,))):
                p = core.call_impl(lambda: f(*form, **kw))
                ctx.check()
                bad = wf_profile(p, kind)
                if bad:
                    ctx.violate("profile %s" % bad, name, [TL, str(mv), mt, ri], got=p)
        scal = [("isi_distance", ps.isi_distance, kM, True), ("spike_distance", ps.spike_distance, kS, True),
                ("spike_sync", ps.spike_sync, kT, True), ("spike_train_order", ps.spike_train_order, kT, False),
                ("isi_distance_matrix", ps.isi_distance_matrix, kM, True),
                ("spike_distance_matrix", ps.spike_distance_matrix, kS, True),
                ("spike_sync_matrix", ps.spike_sync_matrix, kT, True),
                ("spike_directionality_matrix", ps.spike_directionality_matrix, kT, False),
                ("spike_directionality_values", ps.spike_directionality_values, kT, False),
                ("filter_by_spike_sync", lambda s, **k: ps.filter_by_spike_sync(s, 0.5, **k), kT, False)]
        if n == 2:
            scal.append(("spike_directionality", ps.spike_directionality, kT, False))
        for name, f, kw, has_iv in scal:
            kw = dict(kw)
            if has_iv and iv is not None:
                kw["interval"] = iv
            forms = [(sts,)]
            if n == 2 and "matrix" not in name and "values" not in name and "filter" not in name:
                forms.append((sts[0], sts[1]))
            if name == "spike_directionality":
                forms = [(sts[0], sts[1])]
            for form in forms:
                v = core.call_impl(lambda: q(lambda: f(*form, **kw)))
                ctx.check()
                if isinstance(v, core.Err) or not core.all_finite(v):
                    ctx.violate("scalar/matrix result raises or is not finite", name, [TL, str(mv), mt, ri, repr(iv)], got=v)
        if n >= 3:
            # every multivariate function with an arbitrary admissible index selection
            sel = r.sample(range(n), r.randint(2, n))
            for name, f, kw, kind in [(p_[0], p_[1], p_[2], p_[3]) for p_ in profs] + \
                    [(s_[0], s_[1], s_[2], None) for s_ in scal if s_[0] != "filter_by_spike_sync"]:
                v = core.call_impl(lambda: q(lambda: f(sts, indices=list(sel), **kw)))
                ctx.check()
                bad = wf_profile(v, kind) if kind else (None if (not isinstance(v, core.Err) and core.all_finite(v)) else "raises or is not finite")
                if name == "spike_directionality_values" and not bad:
                    if [len(x) for x in v] != [len(L[i]) for i in sel]:
                        bad = "value arrays do not have the lengths of the selected trains"
                if bad:
                    ctx.violate("with indices=%r: %s" % (sel, bad), name, [TL, str(mv), mt, ri], got=v)
        # psth is a public profile function as well: axis from t_start to t_end, strictly increasing, finite counts
        for bsz in (0.25, 0.3, 1.0):
            hp = core.call_impl(lambda: ps.psth(sts, bsz))
            ctx.check()
            okh = (not isinstance(hp, core.Err)) and len(hp[0]) == len(hp[1]) + 1 and hp[0][0] == float(TL[0][1]) and \
                hp[0][-1] == float(TL[0][2]) and all(hp[0][k_] < hp[0][k_ + 1] for k_ in range(len(hp[1]))) and core.all_finite(hp)
            if not okh:
                ctx.violate("psth does not return a well-formed profile from t_start to t_end", "psth", [TL, repr(bsz)], got=hp)
        # several calls in a row on the SAME objects, the later ones with reconciliation off (the objects are used as
        # given) and MRTS='auto': still no exception, still finite
        for name, f, kw, has_iv in scal:
            for kw2 in (dict(Reconcile=False, MRTS='auto'), dict(Reconcile=False)):
                form = (sts[0], sts[1]) if name == "spike_directionality" else (sts,)
                kk = {k_: v_ for k_, v_ in kw.items() if k_ != "MRTS"}
                kk.update(kw2)
                v = core.call_impl(lambda: q(lambda: f(*form, **kk)))
                ctx.check()
                if isinstance(v, core.Err) or not core.all_finite(v):
                    ctx.violate("a later call on the same train objects (%r) raises or is not finite" % (sorted(kw2),), name,
                                [TL, mt, ri], got=v)
        if n == 2:
            A, B = TL
            cases += [(50, [False, m, A, B]), (51, [False, m, ri, A, B]), (52, [False, mt, m, A, B]),
                      (53, [False, mt, m, A, B]), (54, [False, m, None, A, B]), (55, [False, m, ri, None, A, B]),
                      (56, [False, mt, m, None, A, B]), (71, [False, True, mt, m, A, B]), (74, [False, True, mt, m, A, B])]
        else:
            cases += [(60, [False, m, TL, None]), (61, [False, m, ri, TL, None]), (62, [False, mt, m, TL, None]),
                      (63, [False, mt, m, TL, None]), (64, [False, m, None, TL, None]),
                      (66, [False, mt, m, None, TL, None]), (72, [False, True, mt, m, TL, None]),
                      (73, [False, mt, m, TL, None]), (75, [False, True, mt, m, TL, None])]
    ctx.corr(cases, lambda rid, a: True)
    # LARGE inputs (large.py): nothing raises, every profile is well-formed (against the model)
    ctx.corr(large_pair_cases(ctx, (50, 51, 52, 53, 55)) + large_list_cases(ctx, (60, 61, 62, 63, 68), sizes=(31, 34), medium=False),
             lambda rid, a: True, affine_copies=False)
    large_spike_oracle(ctx, 'c18')


# ---------------------------------------------------------------------------
def _sig_equal(x, y, p):
    """y must be x correctly rounded to p+1 significant decimal digits (what
    '%.<p>e' denotes), read back as a double"""
    from decimal import Decimal, ROUND_HALF_EVEN
    if x == y:
        return True
    d = Decimal(x)
    if d.is_zero():
        return y == 0.0
    q = Decimal(1).scaleb(d.adjusted() - p)
    return float(d.quantize(q, rounding=ROUND_HALF_EVEN)) == y


@prop("C19")
def c19(ctx):
    import os
    import tempfile
    import numpy as np
    r = ctx.rng
    ps = ctx.ps
    tmp = tempfile.mkdtemp(prefix="c19_")
    fn = os.path.join(tmp, "t.txt")
    io_items = []
    try:
        for it in range(ctx.n(500 if ctx.tier == "quick" else 8000)):
            ntr = r.randint(1, 5)
            scale = r.choice([1.0, 1e-3, 1e3, 123.456])
            trains = []
            for _ in range(ntr):
                k = r.choice([0, 0, 1, 2, 5, 9])
                trains.append(sorted(r.uniform(0, 100) * scale for _ in range(k)))
            sep = r.choice([" ", ",", ";", "\t", ", "])
            prec = r.choice([3, 8, 12, 17, 17])
            edges = (0.0, 100.0 * scale)
            sts = [ps.SpikeTrain(np.array(t), edges) for t in trains]
            ctx.nontrivial(("c19", it, ctx.shard))
            ctx.check()
            try:
                ps.save_spike_trains_to_txt(sts, fn, separator=sep, precision=prec)
                # comment lines in between must be skipped
                lines = open(fn).read().split("\n")
                # the marker is a plain string (a prefix test), whatever characters it is made of
                cm = r.choice(["#", "%", "//", "#", ".", "|", "$", "*", "(", "[", "+", "?", "^", "\\", "c", "#!"])
                with open(fn, "w") as f:
                    f.write(cm + " header\n")
                    for ln in lines[:-1]:
                        f.write(ln + "\n")
                        if r.random() < 0.2:
                            f.write(cm + "x 1 2 3\n")
                back = ps.load_spike_trains_from_txt(fn, edges, separator=sep, comment=cm, ignore_empty_lines=False)
                back_ne = ps.load_spike_trains_from_txt(fn, edges, separator=sep, comment=cm)
            except Exception as e:
                ctx.violate("save/load raises %s: %s" % (type(e).__name__, e), "save/load", repr((trains, sep, prec)))
                continue
            desc = repr((trains, sep, prec, cm))
            # token-level model (coq/ModelIO.v): the saved file and the loaded trains
            toks = [["%.*e" % (prec, x) for x in t] for t in trains]
            codes = lambda st: [Nat(ord(c)) for c in st]
            m_save_args = [codes(sep), [[codes(tk) for tk in t] for t in toks]]
            io_items.append((90, m_save_args, [[float(ord(c)) for c in ln] for ln in lines[:-1]],
                             lambda v: [[float(c) for c in ln] for ln in v]))
            flines = open(fn).read().split("\n")[:-1]
            for ie, got in ((False, back), (True, back_ne)):
                io_items.append((91, [codes(sep), codes(cm), ie, [codes(ln) for ln in flines]],
                                 [sorted(b.spikes.tolist()) for b in got],
                                 lambda v: [sorted(float("".join(chr(int(c)) for c in tk)) for tk in t) for t in v]))
            if len(back) != len(trains):
                ctx.violate("number of trains changed by the round trip", "save/load", desc, expected=len(trains), got=len(back))
                continue
            ok = True
            for t, b in zip(trains, back):
                if len(t) != len(b.spikes) or (b.t_start, b.t_end) != edges:
                    ok = False
                elif prec == 17:
                    ok = ok and all(x == y for x, y in zip(t, b.spikes.tolist()))
                else:
                    ok = ok and all(_sig_equal(x, y, prec) for x, y in zip(t, b.spikes.tolist()))
            if not ok:
                ctx.violate("spike times changed by the round trip", "save/load", desc, got=[b.spikes.tolist() for b in back])
            if it % 31 == 3:
                ps.save_spike_trains_to_txt([], fn, separator=sep)
                be = core.call_impl(lambda: len(ps.load_spike_trains_from_txt(fn, edges, separator=sep, ignore_empty_lines=False)))
                if be != 0:
                    ctx.violate("an empty list of trains saved over an existing file does not load as an empty list", "save/load",
                                repr(sep), expected=0, got=be)
            if it % 97 == 5:
                long_t = sorted(r.uniform(0, 100) * scale for _ in range(r.choice([1001, 1500])))
                ps.save_spike_trains_to_txt([ps.SpikeTrain(np.array(long_t), edges)], fn, separator=sep, precision=17)
                bl = core.call_impl(lambda: ps.load_spike_trains_from_txt(fn, edges, separator=sep)[0].spikes.tolist())
                if bl != long_t:
                    ctx.violate("a train with more than 1000 spikes does not survive the text round trip", "save/load",
                                repr((len(long_t), sep)), got=bl if isinstance(bl, core.Err) else len(bl))
            ne = [t for t in trains if t]
            if len(back_ne) != len(ne) or any(len(t) != len(b.spikes) for t, b in zip(ne, back_ne)):
                ctx.violate("ignore_empty_lines=True does not drop exactly the empty trains", "save/load", desc,
                            expected=len(ne), got=len(back_ne))
            # unsorted line is sorted on load; is_sorted=True keeps the order
            if trains and trains[0]:
                sh = list(trains[0])
                r.shuffle(sh)
                s = sep.join("%.17e" % x for x in sh)
                st = core.call_impl(lambda: ps.spike_train_from_string(s, edges, sep=sep))
                ctx.check()
                if isinstance(st, core.Err) or st[0] != trains[0]:
                    ctx.violate("spike_train_from_string does not sort / changes times", "spike_train_from_string",
                                repr((sh, sep)), expected=trains[0], got=st)
                st2 = core.call_impl(lambda: ps.spike_train_from_string(s, edges[1], sep=sep, is_sorted=True))
                if isinstance(st2, core.Err) or st2 != [sh, 0.0, edges[1]]:
                    ctx.violate("from_string with scalar edge / is_sorted", "spike_train_from_string", repr((sh, sep)),
                                expected=[sh, 0.0, edges[1]], got=st2)
            # scalar edge
            e1 = r.uniform(1, 50)
            st3 = ps.SpikeTrain([0.5], e1)
            if (st3.t_start, st3.t_end) != (0.0, e1):
                ctx.violate("scalar edge != [0, edge]", "SpikeTrain", repr(e1), got=(st3.t_start, st3.t_end))
            # ... of any number type (numpy scalars, 0-d arrays, Python ints), also through the text parsers
            e2 = float(r.randint(2, 60))
            for mk in (np.float64, np.int64, np.float32, lambda v: np.array(v), int, lambda v: np.array([1.0, v]).max()):
                ev = mk(e2)
                got = core.call_impl(lambda: [float(x) for x in (lambda t: (t.t_start, t.t_end))(ps.SpikeTrain([0.5], ev))])
                got2 = core.call_impl(lambda: [float(x) for x in (lambda t: (t.t_start, t.t_end))(
                    ps.spike_train_from_string("0.5 1.0", ev))])
                ctx.check()
                if got != [0.0, e2] or got2 != [0.0, e2]:
                    ctx.violate("scalar edge of type %s != [0, edge]" % type(ev).__name__, "SpikeTrain / spike_train_from_string",
                                repr(ev), expected=[0.0, e2], got=[got, got2])
        # time series import
        cases = []
        for it in range(ctx.n(300 if ctx.tier == "quick" else 4000)):
            nrow = r.randint(1, 4)
            ncol = r.randint(1, 9)
            rows = [[r.random() < 0.4 for _ in range(ncol)] for _ in range(nrow)]
            start = Fr(r.randint(-4, 8), 2)
            binw = Fr(1, r.choice([1, 2, 4, 8]))
            cm = r.choice(["#", "%"])
            with open(fn, "w") as f:
                f.write(cm + " c\n")
                for row in rows:
                    f.write(" ".join("1" if b else "0" for b in row) + "\n")
            ctx.check()
            ctx.nontrivial(("c19ts", it, ctx.shard))
            res = core.call_impl(lambda: ps.import_spike_trains_from_time_series(fn, float(start), float(binw), comment=cm))
            exp = [[[float(start + (k + 1) * binw) for k, b in enumerate(row) if b], float(start), float(start + ncol * binw)]
                   for row in rows]
            if not feq(res, exp, 0.0):
                ctx.violate("time series import != start+(k+1)*bin", "import_spike_trains_from_time_series",
                            repr((rows, str(start), str(binw))), expected=exp, got=res)
            cases.append((81, [start, binw, rows[0]]))
        # ... and with start times / bin widths that are not binary fractions: every spike time is start + (k+1)*bin up to
        # a few units in the last place (the unchanged code adds three rounded terms), the trains end on start + n*bin,
        # and nothing raises, for short and for long recordings
        for it in range(ctx.n(60 if ctx.tier == "quick" else 800)):
            ncol = r.choice([1, 2, 3, 3, 5, 7, 10, 25, 100, 1000, 2000])
            startf = r.choice([0.0, 0.0, 1000.0, -3.7, 0.3, 1e6])
            binf = r.choice([0.1, 0.001, 1.0 / 3.0, 0.7, 0.05, 1e-4, 2.5])
            row = [r.random() < 0.5 for _ in range(ncol)]
            row[-1] = row[-1] or it % 2 == 0
            with open(fn, "w") as f:
                f.write(" ".join("1" if b else "0" for b in row) + "\n")
            ctx.check()
            ctx.nontrivial(("c19tsf", it, ctx.shard))
            res = core.call_impl(lambda: ps.import_spike_trains_from_time_series(fn, startf, binf))
            exact = [Fr(startf) + (k + 1) * Fr(binf) for k, b in enumerate(row) if b]
            t_end = Fr(startf) + ncol * Fr(binf)
            ulp = 2.0 ** -52 * max(1.0, abs(startf), abs(float(t_end)))
            ok = (not isinstance(res, core.Err)) and len(res) == 1 and len(res[0][0]) == len(exact) \
                and all(abs(Fr(x) - e) <= 6 * Fr(ulp) for x, e in zip(res[0][0], exact)) \
                and abs(Fr(res[0][1]) - Fr(startf)) <= Fr(ulp) and abs(Fr(res[0][2]) - t_end) <= 6 * Fr(ulp)
            if not ok:
                ctx.violate("time series import (non-binary start / bin): times != start+(k+1)*bin within 6 ulp",
                            "import_spike_trains_from_time_series", repr((ncol, startf, binf, [k for k, b in enumerate(row) if b][:5])),
                            expected=[float(e) for e in exact[:5]] + [float(t_end)],
                            got=res if isinstance(res, core.Err) else [res[0][0][:5], res[0][1], res[0][2]])
        ctx.corr(cases, lambda rid, a: True, functional=True)
        ctx.corr_values("save_lines", 90, [(a, iv, d) for r_, a, iv, d in io_items if r_ == 90], functional=True)
        ctx.corr_values("load_lines", 91, [(a, iv, d) for r_, a, iv, d in io_items if r_ == 91], functional=True)
        # LARGE inputs: a file of several MiB (read buffers, size hints), tens of thousands of trains; the trains given as a
        # generator / iterator / tuple / deque (consumed once) - same file, same trains back
        if large_on(ctx):
            import collections
            rr = r
            bigsets = [
                [sorted(rr.uniform(0, 100) for _ in range(2000)) for _ in range(40)] + [[], [50.0]],
                [[rr.uniform(0, 100)] for _ in range(30000)],
            ]
            for trains in bigsets:
                sts = [ps.SpikeTrain(np.array(t), (0.0, 100.0)) for t in trains]
                ps.save_spike_trains_to_txt(sts, fn, precision=17)
                sz = os.path.getsize(fn)
                back = core.call_impl(lambda: [b.spikes.tolist() for b in
                                               ps.load_spike_trains_from_txt(fn, (0.0, 100.0), ignore_empty_lines=False)])
                ctx.check()
                ctx.nontrivial(("c19big", len(trains), sz))
                if back != trains:
                    ctx.violate("a large file (%d bytes, %d trains) does not survive the text round trip" % (sz, len(trains)),
                                "save/load", repr((len(trains), sz)),
                                got=back if isinstance(back, core.Err) else [len(back), sum(len(b_) for b_ in back)],
                                expected=[len(trains), sum(len(t_) for t_ in trains)])
            small = [[1.5, 2.25], [], [3.0], [0.125, 4.5, 99.0]]
            sts = [ps.SpikeTrain(np.array(t), (0.0, 100.0)) for t in small]
            for what, mkc in (("list", list), ("tuple", tuple), ("iterator", iter), ("generator", lambda v: (x_ for x_ in v)),
                              ("deque", collections.deque), ("map", lambda v: map(lambda x_: x_, v))):
                with open(fn, "w") as f:
                    f.write("stale content\n")
                back = core.call_impl(lambda: (ps.save_spike_trains_to_txt(mkc(sts), fn, precision=17),
                                               [b.spikes.tolist() for b in
                                                ps.load_spike_trains_from_txt(fn, (0.0, 100.0), ignore_empty_lines=False)])[1])
                ctx.check()
                ctx.nontrivial(("c19container", what))
                if back != small:
                    ctx.violate("trains given to save_spike_trains_to_txt as a %s do not come back" % what, "save/load", what,
                                expected=small, got=back)
    finally:
        import shutil
        shutil.rmtree(tmp, ignore_errors=True)


# ---------------------------------------------------------------------------
@prop("C20")
def c20(ctx):
    import numpy as np
    r = ctx.rng
    ps = ctx.ps
    cases = []
    psth_items = []
    lists, g = ctx.space.random_lists(n=600 if ctx.tier == "quick" else 8000, maxtr=5, maxn=6, g=16)
    lists = ctx.part(lists)
    for L in lists:
        TL = [T(x) for x in L]
        TL[0] = [TL[0][0], Z, ONE]
        if r.random() < 0.3 and len(TL) > 1:
            TL[1] = [TL[1][0], Fr(-1), Fr(2)]      # only the first train's interval counts
        ctx.nontrivial(("c20", core.enc(TL)))
        cases.append((80, [TL]))
        mg = ctx.call(80, [TL])
        ctx.check()
        allsp = sorted(float(x) for t in L for x in t)
        if isinstance(mg, core.Err) or mg[0] != allsp or mg[1:] != [0.0, 1.0]:
            ctx.violate("merge is not the sorted multiset union on the first train's interval", "merge_spike_trains",
                        [TL], expected=[allsp, 0.0, 1.0], got=mg, rid=80)
        # psth
        sts = ctx.impl.trains([T(x) for x in L])
        nb = r.choice([1, 2, 3, 4, 5, 8, 16])
        bs = 1.0 / nb if r.random() < 0.7 else r.choice([0.3, 0.7, 0.26, 1.0, 0.124])
        p = core.call_impl(lambda: ps.psth(sts, bs))
        ctx.check()
        if isinstance(p, core.Err):
            ctx.violate("psth raises", "psth", [L, Fr(bs)], got=p)
            continue
        xs, ys = p
        nbin = int(1.0 / bs)
        widths = [xs[k + 1] - xs[k] for k in range(len(xs) - 1)]
        bad = None
        if len(xs) != nbin + 1 or len(ys) != nbin or xs[0] != 0.0 or xs[-1] != 1.0:
            bad = "bins do not span the recording / wrong number of bins"
        elif any(abs(w - widths[0]) > 1e-12 for w in widths):
            bad = "bins are not equally wide"
        elif sum(ys) != len(allsp):
            bad = "bin counts do not sum to the number of spikes"
        else:
            for k in range(nbin):
                lo, hi = xs[k], xs[k + 1]
                c = sum(1 for x in allsp if lo <= x and (x < hi or (k == nbin - 1 and x <= hi)))
                if c != ys[k]:
                    bad = "bin %d holds %r, expected %d" % (k, ys[k], c)
                    break
        if bad:
            ctx.violate("psth: " + bad, "psth", [L, Fr(bs)], got=p)
        cases.append((82, [[Fr(i, nb) for i in range(nb + 1)], sorted(Fr(x) for t in L for x in t)]))
        if bs == 1.0 / nb:
            psth_items.append(([Z, ONE, Nat(nb), sorted(Fr(x) for t in L for x in t)], [xs, ys], None))
    # psth of a single train, and of trains recorded over different intervals (the bins are those of the FIRST
    # train's interval; every spike inside it is counted once)
    for L in lists[:ctx.n(150 if ctx.tier == "quick" else 1500)]:
        for TLx in ([T(L[0])], [[L[0], Fr(1, 4), Fr(3, 4) + 1], [L[1], Fr(-1), Fr(3)]] if L[0] and min(L[0]) >= Fr(1, 4) else None):
            if TLx is None:
                continue
            stx = ctx.impl.trains(TLx)
            ts, te = float(TLx[0][1]), float(TLx[0][2])
            nb = r.choice([1, 2, 4, 8])
            p = core.call_impl(lambda: ps.psth(stx, (te - ts) / nb))
            ctx.check()
            ctx.nontrivial(("c20psth1", core.enc(TLx), nb))
            inside = sorted(float(x) for t in TLx for x in t[0] if ts <= float(x) <= te)
            if isinstance(p, core.Err) or len(p[0]) != nb + 1 or p[0][0] != ts or p[0][-1] != te or sum(p[1]) != len(inside):
                ctx.violate("psth: bins are not those of the first train's interval / a spike inside it is lost", "psth",
                            [TLx, Nat(nb)], expected=[ts, te, len(inside)], got=p)
    # spikes exactly ON the bin edges (as psth computes them, for bin sizes that are not binary fractions): an edge
    # belongs to the bin it opens, the last edge to the last bin
    for _ in range(ctx.n(60 if ctx.tier == "quick" else 600)):
        ts_, te_ = r.choice([(0.0, 7.0), (1.0, 2.0), (0.0, 10.0), (-3.0, 4.0)])
        bs = r.choice([0.7, 0.2, 0.1, 0.35, 1.4])
        nbq = int((te_ - ts_) / bs)
        if nbq < 1:
            continue
        eds = np.linspace(ts_, te_, nbq + 1)
        on = sorted(set(float(eds[k_]) for k_ in r.sample(range(nbq + 1), min(nbq + 1, r.randint(1, 6)))))
        stq = [ps.SpikeTrain(np.array(on), (ts_, te_)), ps.SpikeTrain(np.array(on[:1]), (ts_, te_))]
        p = core.call_impl(lambda: ps.psth(stq, bs))
        ctx.check()
        ctx.nontrivial(("c20edge", ts_, te_, bs, repr(on)))
        allq = on + on[:1]
        if isinstance(p, core.Err):
            ctx.violate("psth raises", "psth", repr((ts_, te_, bs, on)), got=p)
            continue
        xs, ys = p
        want = [sum(1 for x in allq if xs[k_] <= x and (x < xs[k_ + 1] or (k_ == len(ys) - 1 and x <= xs[k_ + 1])))
                for k_ in range(len(ys))]
        if list(ys) != [float(w_) for w_ in want]:
            ctx.violate("psth: a spike exactly on a bin edge is counted in the wrong bin", "psth", repr((ts_, te_, bs, on)),
                        expected=want, got=ys)
    # every bin count from 1 to 200 on three recordings, spikes exactly on both edges: the last bin edge IS t_end (an edge
    # computed as t_start + n*width can come out one unit in the last place below it and lose the spike on t_end)
    if ctx.shard == 0:
        for ts_, te_ in ((0.0, 1.0), (0.0, 10.0), (-1.0, 2.0)):
            stq = [ps.SpikeTrain(np.array([ts_, 0.5 * (ts_ + te_), te_]), (ts_, te_)), ps.SpikeTrain(np.array([te_]), (ts_, te_))]
            for nbq in range(1, 201):
                p = core.call_impl(lambda: ps.psth(stq, (te_ - ts_) / nbq))
                ctx.check()
                if isinstance(p, core.Err) or len(p[0]) < 2 or p[0][0] != ts_ or p[0][-1] != te_ or sum(p[1]) != 4 \
                        or p[1][-1] < 2 or p[1][0] < 1:
                    ctx.violate("psth with %d bins on [%r, %r]: the bins do not span the recording exactly / a spike on an edge "
                                "is lost" % (nbq, ts_, te_), "psth", repr((ts_, te_, nbq)),
                                got=p if isinstance(p, core.Err) else [p[0][0], p[0][-1], sum(p[1])], expected=[ts_, te_, 4])
                    break
        ctx.nontrivial(("c20bins",))
    ctx.corr(cases, lambda rid, a: True, functional=True)
    ctx.corr_values("psth", 92, psth_items, functional=True)
    # Poisson generator with recorded draws against the model (cumulative sums below T_end)
    import pyspike.spikes as spk_mod
    pitems = []
    real_exp = np.random.exponential
    for it in range(ctx.n(200 if ctx.tier == "quick" else 3000)):
        pool = [Fr(r.randint(1, 64), 64) for _ in range(400)]
        used = []

        def fake_exp(scale, size, _pool=pool, _used=used):
            k = len(_used)
            chunk = _pool[k:k + int(size)]
            _used.extend(chunk)
            return np.array([float(x) for x in chunk])
        rate = r.choice([0.5, 1.0, 2.0, 4.0])
        t0 = Fr(r.randint(-8, 8), 4)
        t1 = t0 + Fr(r.randint(1, 40), 4)
        np.random.exponential = fake_exp
        try:
            st = core.call_impl(lambda: spk_mod.generate_poisson_spikes(rate, (float(t0), float(t1))))
        finally:
            np.random.exponential = real_exp
        ctx.check()
        if isinstance(st, core.Err):
            ctx.violate("generate_poisson_spikes raises", "generate_poisson_spikes", [t0, t1, used[:20]], got=st)
            continue
        pitems.append(([t0, t1, list(used)], st[0], None))
    ctx.corr_values("poisson_spikes", 93, pitems, functional=True)
    for it in range(ctx.n(300 if ctx.tier == "quick" else 4000)):
        np.random.seed((ctx.seed + 7919 * it + ctx.shard) % (2 ** 31))
        rate = r.choice([0.05, 0.5, 1.0, 5.0, 20.0])
        iv = r.choice([(0.0, 10.0), (5.0, 6.0), 10.0, (-3.0, 3.0), (100.0, 100.5), np.float64(10.0), np.int64(7), [2.0, 4.0],
                       np.array([1.0, 9.0]), np.array(10.0).max()])
        st = core.call_impl(lambda: ps.generate_poisson_spikes(rate, iv))
        ctx.check()
        ctx.nontrivial(("c20p", it, ctx.shard))
        t0, t1 = (0.0, float(iv)) if np.ndim(iv) == 0 else (float(iv[0]), float(iv[1]))
        if isinstance(st, core.Err) or st[1:] != [t0, t1] or st[0] != sorted(st[0]) or \
                any(not (t0 <= x < t1) for x in st[0]):
            ctx.violate("Poisson train not sorted / outside the interval / wrong edges", "generate_poisson_spikes",
                        repr((rate, iv)), got=st)
    # LARGE inputs: 64+ trains (merge trees, block-wise pooling: 65, 72, 100, 130 trains), 4096+ pooled spikes (chunked
    # histograms)
    if large_on(ctx):
        lc = []
        for n_ in (64, 65, 72, 100, 130):
            Lm = large.many_trains(ctx.seed, n_, maxk=6)
            TLm = [T(x) for x in Lm]
            lc.append((80, [TLm]))
            allsp = sorted(Fr(x) for t in Lm for x in t)
            for nb in (4, 16):
                xs_ys = core.call_impl(lambda: ps.psth(ctx.impl.trains(TLm), 1.0 / nb))
                ctx.corr_values("psth", 92, [([Z, ONE, Nat(nb), allsp], xs_ys, None)], functional=True)
        rr = r
        for n_, k_ in ((64, 70), (3, 3000), (130, 40)):
            Lp = [sorted(set(Fr(rr.randint(0, 8192), 8192) for _ in range(k_))) for _ in range(n_)]
            allsp = sorted(x for t in Lp for x in t)
            for nb in (8, 5):
                xs_ys = core.call_impl(lambda: ps.psth(ctx.impl.trains([T(x) for x in Lp]), 1.0 / nb))
                ctx.check()
                ctx.nontrivial(("c20big", n_, k_, nb))
                ok = not isinstance(xs_ys, core.Err) and len(xs_ys[1]) == nb and sum(xs_ys[1]) == len(allsp)
                if ok:
                    xs, ys = xs_ys
                    ok = all(ys[q] == sum(1 for x in allsp if xs[q] <= float(x) and (float(x) < xs[q + 1] or (q == nb - 1 and float(x) <= xs[q + 1])))
                             for q in range(nb))
                if not ok:
                    ctx.violate("psth of %d pooled spikes: bin values are not the spike counts" % len(allsp), "psth",
                                repr((n_, k_, nb)), expected=len(allsp),
                                got=xs_ys if isinstance(xs_ys, core.Err) else [sum(xs_ys[1]), xs_ys[1]])
            lc.append((80, [[T(x) for x in Lp]]))
        ctx.bump("large_list_cases", len(lc))
        ctx.corr(lc, lambda rid, a: True, affine_copies=False)


# ---------------------------------------------------------------------------
def replay(ctx, rp):
    """re-execute a replay record: model vs implementation for a routine call,
    specification vs implementation for an oracle record, otherwise re-run the
    whole property check at the recorded seed."""
    if rp.get("kind") == "obligation" and rp.get("mismatch"):
        rp = rp["mismatch"]
    if rp.get("backend") and rp["backend"] != ctx.backend:
        return
    rid = rp.get("rid")
    args = rp.get("args")
    if isinstance(rid, int) and isinstance(args, str):
        a = core.parse_out(args)
        if rp.get("spec_rid"):
            spec_vs_impl(ctx, [(rp["spec_rid"], core.parse_out(rp["spec_args"]), rid, a)], rp.get("what", "replay"))
        elif rp.get("kind") == "correspondence" or rp.get("functional"):
            ctx.corr([(rid, a)], lambda r_, a_: True)
        else:
            PROPS[ctx.prop](ctx)
    else:
        PROPS[ctx.prop](ctx)
