import sys, os, random, time
sys.path.insert(0, os.path.dirname(os.path.abspath(__file__)))
import backend, core, gen, adapters
from fractions import Fraction as Fr
be = sys.argv[1] if len(sys.argv) > 1 else "py"
ps, mods = backend.load(be)
impl = adapters.Impl(ps, mods, be)
# VERIF_EXACT=1: run the library on exact rationals and compare with == (harness/exact.py)
EXACT = os.environ.get("VERIF_EXACT") == "1"
if EXACT:
    import exact
    exact.install(ps, mods)
    xstats = exact.Stats()
cy = be == "cy"
trains = gen.grid_trains(3, 8)
ne = [t for t in trains]
cases = []
def eff(t): return t if t else [Fr(0), Fr(1)]
rng = random.Random(1)
pairs = [(a, b) for a in trains for b in trains]
rng.shuffle(pairs); pairs = pairs[:3000]
for a, b in pairs:
    for m in (Fr(0), Fr(1,4)):
        cases.append((1, [eff(a), eff(b), Fr(0), Fr(1), m]))
        cases.append((2, [eff(a), eff(b), Fr(0), Fr(1), m, False]))
        cases.append((2, [eff(a), eff(b), Fr(0), Fr(1), m, True]))
        for mt in (Fr(0), Fr(1,8)):
            for rid in (6,7,8,9):
                cases.append((rid, [a, b, Fr(0), Fr(1), mt, m]))
            if cy:
                for rid in (12,13,14):
                    cases.append((rid, [a, b, Fr(0), Fr(1), mt, m]))
        if cy:
            cases.append((10, [eff(a), eff(b), Fr(0), Fr(1), m]))
            cases.append((11, [eff(a), eff(b), Fr(0), Fr(1), m, False]))
t0=time.time()
mcases = [(rid, ([cy] if adapters.ROUTINES[rid][1] else []) + args) for rid, args in cases]
mout = core.run_model(mcases)
t1=time.time()
bad = {}
for (rid, args), mv in zip(cases, mout):
    if EXACT:
        d, iv, _ = exact.compare(impl, rid, args, mv, core.TOL, xstats)
    else:
        iv = core.call_impl(impl.call, rid, args)
        d = core.agree(mv, iv)
    if d:
        bad.setdefault(rid, []).append((args, d))
t2=time.time()
print(be, len(cases), "cases; model %.1fs impl %.1fs" % (t1-t0, t2-t1))
for rid, l in sorted(bad.items()):
    print("RID", rid, adapters.ROUTINES[rid][0], len(l), "mismatches; first:")
    for args, d in l[:3]:
        print("   ", core.enc(args), "->", d)
if EXACT:
    print("exact mode:", " ".join("%s=%s" % kv for kv in xstats.as_dict().items() if kv[0] != "exact_fallback_samples"))
    for m in xstats.fallback_samples:
        print("   fallback:", m)
