(* DispatchSpec.v — dispatcher over the executable specifications (ids >= 100)
   and the combined entry point used by the extracted driver. *)
From Coq Require Import List Bool ZArith QArith Arith.
Import ListNotations.
From PS Require Import Num ModelKernels ModelFuncs ModelAPI Spec Val Dispatch.
Local Open Scope nat_scope.

Definition encOpt (v : option Q) : val :=
  match v with Some q => VQ q | None => VE AssertionError end.

Definition spec_dispatch (id : nat) (args : list val) : val :=
  match id, args with
  | 100, [a; b; VQ ts; VQ te; VQ m] =>
      match asQs a, asQs b with
      | Some s1, Some s2 => encPwc (isi_spec o s1 s2 ts te m)
      | _, _ => bad end
  | 101, [a; b; VQ ts; VQ te; VQ m; VB ri] =>
      match asQs a, asQs b with
      | Some s1, Some s2 => encPwl (spike_spec o s1 s2 ts te m ri)
      | _, _ => bad end
  | 102, [a; b; VQ ts; VQ te; VQ mt; VQ m] =>
      match asQs a, asQs b with
      | Some s1, Some s2 => encDf (sync_spec o s1 s2 ts te mt m)
      | _, _ => bad end
  | 103, [a; b; VQ ts; VQ te; VQ mt; VQ m] =>
      match asQs a, asQs b with
      | Some s1, Some s2 => encQs (single_spec o s1 s2 ts te mt m)
      | _, _ => bad end
  | 104, [a; b; VQ ts; VQ te; VQ mt; VQ m] =>
      match asQs a, asQs b with
      | Some s1, Some s2 => encDf (order_spec o s1 s2 ts te mt m)
      | _, _ => bad end
  | 105, [a; b; VQ ts; VQ te; VQ mt; VQ m] =>
      match asQs a, asQs b with
      | Some s1, Some s2 =>
          let d := dir_spec o s1 s2 ts te mt m in VL [encQs (fst d); encQs (snd d)]
      | _, _ => bad end
  | 106, [VQ mt; VQ m; VQ thr; l] =>
      match asTrains l with
      | Some ts => VL (map (fun kr => VL [encQs (fst kr); encQs (snd kr)]) (filter_spec o mt m thr ts))
      | None => bad end
  | 110, [x; y; VL [VQ a; VQ b]] =>
      match asQs x, asQs y with
      | Some xs, Some ys => VQ (pwc_overlap o xs ys a b)
      | _, _ => bad end
  | 111, [x; y1; y2; VL [VQ a; VQ b]] =>
      match asQs x, asQs y1, asQs y2 with
      | Some xs, Some p, Some q => VQ (pwl_overlap o xs p q a b)
      | _, _, _ => bad end
  | 112, [x; y; VQ t] =>
      match asQs x, asQs y with
      | Some xs, Some ys => encOpt (pwc_eval o (xs, ys) t)
      | _, _ => bad end
  | 113, [x; y1; y2; VQ t] =>
      match asQs x, asQs y1, asQs y2 with
      | Some xs, Some p, Some q => encOpt (pwl_eval o (xs, p, q) t)
      | _, _, _ => bad end
  | 120, [x1; y1; x2; y2] =>
      match asQs x1, asQs y1, asQs x2, asQs y2 with
      | Some a, Some b, Some c, Some d => encPwc (pwc_add_spec o (a, b) (c, d))
      | _, _, _, _ => bad end
  | 121, [x1; y11; y12; x2; y21; y22] =>
      match asQs x1, asQs y11, asQs y12, asQs x2, asQs y21, asQs y22 with
      | Some a, Some b, Some c, Some d, Some e, Some f => encPwl (pwl_add_spec o (a, b, c) (d, e, f))
      | _, _, _, _, _, _ => bad end
  | 130, [x1; y1; m1; x2; y2; m2] =>
      match asEntries x1 y1 m1, asEntries x2 y2 m2 with
      | Some f, Some g => encDf (df_add_spec o f g)
      | _, _ => bad end
  | 131, [x; y; mp; iv] =>
      match asEntries x y mp, asIvspec iv with
      | Some f, Some i => encPairQ (df_integral_spec o f i)
      | _, _ => bad end
  | 140, [l] =>
      match asTrains l with Some ts => VL (map encTrain (reconcile_spec o eps ts)) | None => bad end
  | 141, [l; VQ ts; VQ te] =>
      match asQs l with Some s => encQs (isi_lengths_spec o s ts te) | None => bad end
  | _, _ => bad
  end.

Definition dispatch_all (id : nat) (args : list val) : val :=
  if id <? 100 then dispatch id args else spec_dispatch id args.
