(* DispatchSpec.v — dispatcher over the executable specifications (ids >= 100)
   and the combined entry point used by the extracted driver. *)
From Coq Require Import List Bool ZArith QArith Arith.
Import ListNotations.
From PS Require Import Num ModelKernels ModelFuncs ModelAPI Val Dispatch.
Local Open Scope nat_scope.

Definition spec_dispatch (id : nat) (args : list val) : val :=
  match id, args with
  | _, _ => bad
  end.

Definition dispatch_all (id : nat) (args : list val) : val :=
  if id <? 100 then dispatch id args else spec_dispatch id args.
