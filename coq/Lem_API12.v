(* Lem_API12.v — property C06 for the SPIKE profile as REPRESENTATION equality:
   the multivariate SPIKE profile (the triple breakpoints / right limits / left
   limits that the library returns) does not depend on the order of the trains,
   nor on the order of an index selection. *)

From Coq Require Import List Bool Arith ZArith Reals Lra Lia Sorted Permutation.
Import ListNotations.
From PS Require Import Num RLemmas Valid ModelKernels ModelFuncs ModelAPI Spec SyncDefs.
From PS Require Import Lem_Pwc Lem_Multi.
From PS Require Lem_Pwl Lem_History Lem_WF Lem_API Lem_API2 Lem_MultiAPI Lem_MultiAPI2 Lem_Lists.
Local Open Scope R_scope.

Local Notation trainR := (@train R).

(* ------------------------------------------------------------------ *)
(* 1. canonical form of a well-formed piecewise linear function         *)

Lemma lin_at_a a b ya yb : a < b -> lin ROps a b ya yb a = ya.
Proof. intros H. unfold lin. cbn [nadd nsub nmul ndiv ROps]. field. lra. Qed.
Lemma lin_at_b a b ya yb : a < b -> lin ROps a b ya yb b = yb.
Proof. intros H. unfold lin. cbn [nadd nsub nmul ndiv ROps]. field. lra. Qed.

Lemma pwl_right_head a b r ya y1 yb y2 : a < b ->
  pwl_right ROps (a :: b :: r) (ya :: y1) (yb :: y2) a = Some ya.
Proof.
  intros H. cbn [pwl_right].
  rewrite (proj2 (nleb_true a a)) by lra. rewrite R_nltb, (proj2 (Rltb_true a b)) by lra.
  cbn [andb]. rewrite lin_at_a by exact H. reflexivity.
Qed.

Lemma pwl_left_head a b r ya y1 yb y2 : a < b ->
  pwl_left ROps (a :: b :: r) (ya :: y1) (yb :: y2) b = Some yb.
Proof.
  intros H. cbn [pwl_left].
  rewrite (proj2 (nleb_true b b)) by lra. rewrite R_nltb, (proj2 (Rltb_true a b)) by lra.
  cbn [andb]. rewrite lin_at_b by exact H. reflexivity.
Qed.

Lemma pwl_right_skip a b r ya y1 yb y2 t : b <= t ->
  pwl_right ROps (a :: b :: r) (ya :: y1) (yb :: y2) t = pwl_right ROps (b :: r) y1 y2 t.
Proof.
  intros H. cbn [pwl_right]. rewrite (R_nltb t b), (proj2 (Rltb_false t b)) by lra.
  rewrite andb_false_r. reflexivity.
Qed.

Lemma pwl_left_skip a b r ya y1 yb y2 t : b < t ->
  pwl_left ROps (a :: b :: r) (ya :: y1) (yb :: y2) t = pwl_left ROps (b :: r) y1 y2 t.
Proof.
  intros H. cbn [pwl_left]. rewrite (proj2 (nleb_false t b)) by lra.
  rewrite andb_false_r. reflexivity.
Qed.

(* two well-formed piecewise linear functions on the same breakpoints with the
   same right limits at every breakpoint but the last and the same left limits
   at every breakpoint but the first are the same triple *)
Lemma pwl_canonical_lists : forall xs y1 y2 y1' y2',
  ssorted xs ->
  length xs = S (length y1) -> length y1 = length y2 ->
  length xs = S (length y1') -> length y1' = length y2' ->
  (forall t, In t xs -> t < last xs 0 ->
     pwl_right ROps xs y1 y2 t = pwl_right ROps xs y1' y2' t) ->
  (forall t, In t xs -> nth 0 xs 0 < t ->
     pwl_left ROps xs y1 y2 t = pwl_left ROps xs y1' y2' t) ->
  y1 = y1' /\ y2 = y2'.
Proof.
  induction xs as [|a xs IH]; intros y1 y2 y1' y2' Hs L1 L2 L1' L2' HR HL.
  - cbn [length] in L1. lia.
  - destruct xs as [|b r].
    + destruct y1; [|cbn [length] in L1; lia]. destruct y1'; [|cbn [length] in L1'; lia].
      destruct y2; [|cbn [length] in L2; lia]. destruct y2'; [|cbn [length] in L2'; lia].
      split; reflexivity.
    + destruct y1 as [|ya y1]; [cbn [length] in L1; lia|].
      destruct y1' as [|ya' y1']; [cbn [length] in L1'; lia|].
      destruct y2 as [|yb y2]; [cbn [length] in L2; lia|].
      destruct y2' as [|yb' y2']; [cbn [length] in L2'; lia|].
      apply ssorted_cons_inv in Hs as [Hs Fa].
      pose proof Hs as Hs'. apply ssorted_cons_inv in Hs' as [_ Fb].
      rewrite Forall_forall in Fa, Fb.
      assert (Hab : a < b) by (apply Fa; left; reflexivity).
      assert (Hbl : b <= last (b :: r) 0).
      { destruct r as [|c r]; [cbn [last]; lra|].
        assert (In (last (c :: r) 0) (c :: r)).
        { destruct (@exists_last _ (c :: r)) as (q & z & E); [discriminate|].
          rewrite E, last_last. apply in_or_app. right. left. reflexivity. }
        change (last (b :: c :: r) 0) with (last (c :: r) 0). apply Rlt_le, Fb. exact H. }
      change (last (a :: b :: r) 0) with (last (b :: r) 0) in HR.
      change (nth 0 (a :: b :: r) 0) with a in HL.
      assert (Ea : ya = ya').
      { pose proof (HR a (or_introl eq_refl)) as E. rewrite !pwl_right_head in E by exact Hab.
        assert (Some ya = Some ya') by (apply E; lra). congruence. }
      assert (Eb : yb = yb').
      { pose proof (HL b (or_intror (or_introl eq_refl)) Hab) as E.
        rewrite !pwl_left_head in E by exact Hab. congruence. }
      destruct (IH y1 y2 y1' y2' Hs) as [E1 E2].
      * cbn [length] in L1 |- *. lia.
      * cbn [length] in L2. lia.
      * cbn [length] in L1' |- *. lia.
      * cbn [length] in L2'. lia.
      * intros t Ht Hlt.
        assert (Hbt : b <= t) by (destruct Ht as [<-|Ht]; [lra|apply Rlt_le, Fb, Ht]).
        pose proof (HR t (or_intror Ht) Hlt) as E. rewrite !pwl_right_skip in E by exact Hbt. exact E.
      * intros t Ht Hlt. change (nth 0 (b :: r) 0) with b in Hlt.
        assert (Hat : a < t) by lra.
        pose proof (HL t (or_intror Ht) Hat) as E. rewrite !pwl_left_skip in E by exact Hlt. exact E.
      * subst. split; reflexivity.
Qed.

Theorem pwl_canonical : forall f g,
  wf_pwl f -> wf_pwl g -> fst (fst f) = fst (fst g) ->
  (forall t, In t (fst (fst f)) -> t < lastF ROps (fst (fst f)) ->
     pwl_right ROps (fst (fst f)) (snd (fst f)) (snd f) t
     = pwl_right ROps (fst (fst g)) (snd (fst g)) (snd g) t) ->
  (forall t, In t (fst (fst f)) -> nthF ROps (fst (fst f)) 0 < t ->
     pwl_left ROps (fst (fst f)) (snd (fst f)) (snd f) t
     = pwl_left ROps (fst (fst g)) (snd (fst g)) (snd g) t) ->
  f = g.
Proof.
  intros [[xs y1] y2] [[xs' y1'] y2'] ((Ss & _) & L1 & L2) (_ & L1' & L2') E HR HL.
  cbn [fst snd] in *. subst xs'.
  destruct (pwl_canonical_lists xs y1 y2 y1' y2' Ss L1 L2 L1' L2' HR HL) as [-> ->].
  reflexivity.
Qed.

(* ------------------------------------------------------------------ *)
(* 2. the multivariate SPIKE profile of an index selection              *)

Import Lem_MultiAPI2.

Section Core.
  Variables (eps : R) (cy : bool) (m : R) (ri : bool) (ts te : R).

  Definition bip (a b : trainR) : list R * list R * list R :=
    spike_profile_bi ROps eps cy false m ri a b.

  (* the trains an index selection picks, in the order of the selection *)
  Definition sel (l : list trainR) (ix : list nat) : list trainR := map (nth_train ROps l) ix.

  Lemma check_lt n ix : Forall (fun i => (i < n)%nat) ix -> check_indices n ix = true.
  Proof.
    intros H. unfold check_indices. apply forallb_forall. intros i Hi.
    rewrite Forall_forall in H. apply Nat.ltb_lt. auto.
  Qed.

  Lemma sel_wtrain l ix : Forall (wtrain ts te) l -> Forall (fun i => (i < length l)%nat) ix ->
    Forall (wtrain ts te) (sel l ix).
  Proof.
    intros HF HI. rewrite Forall_forall in *. intros t Ht. unfold sel in Ht.
    apply in_map_iff in Ht as (i & <- & Hi). apply HF. unfold nth_train. apply nth_In. auto.
  Qed.

  Lemma sel_all l : sel l (seq 0 (length l)) = l.
  Proof. unfold sel, nth_train. apply map_nth_seq. Qed.

  Lemma pairs_sel l ix :
    map (fun p => (nth_train ROps l (fst p), nth_train ROps l (snd p))) (pairs_of ix) = gpairs (sel l ix).
  Proof. rewrite pairs_of_gpairs. unfold sel. rewrite gpairs_map. reflexivity. Qed.

  Lemma pairs_sel_length l ix : length (pairs_of ix) = length (gpairs (sel l ix)).
  Proof. rewrite <- pairs_sel, map_length. reflexivity. Qed.

  Lemma gpairs_pos {A} (k : list A) : (2 <= length k)%nat -> (0 < length (gpairs k))%nat.
  Proof. intros H. pose proof (gpairs_length k). nia. Qed.

  Lemma gpairs_perm_length {A} (k k' : list A) : Permutation k k' ->
    length (gpairs k) = length (gpairs k').
  Proof.
    intros Hp. pose proof (gpairs_length k) as E. pose proof (gpairs_length k') as E'.
    rewrite <- (Permutation_length Hp) in E'. lia.
  Qed.

  Lemma spike_multi_struct_ix l ix :
    (2 <= length ix)%nat -> Forall (wtrain ts te) l -> Forall (fun i => (i < length l)%nat) ix ->
    exists SP,
      spike_profile_multi ROps eps cy false m ri l (Some ix)
        = Ok (pwl_mul ROps SP (1 / INR (length (gpairs (sel l ix))))) /\
      Lem_WF.good_pwl ts te SP /\
      (forall t, ts <= t < te -> rv SP t = psum (fun a b => rv (bip a b) t) (sel l ix)) /\
      (forall t, ts < t <= te -> lv SP t = psum (fun a b => lv (bip a b) t) (sel l ix)) /\
      (forall x, In x (fst (fst SP)) <->
                 exists a b, In (a, b) (gpairs (sel l ix)) /\ In x (fst (fst (bip a b)))).
  Proof.
    intros H2 HF HI.
    set (prof := sprof eps cy m ri l). set (ps := pairs_of ix).
    assert (Hlen : length ps = length (gpairs (sel l ix))) by apply pairs_sel_length.
    assert (Hne : ps <> []).
    { intros E. assert (0 < length (gpairs (sel l ix)))%nat
        by (apply gpairs_pos; unfold sel; rewrite map_length; exact H2).
      rewrite <- Hlen, E in H. cbn [length] in H. lia. }
    assert (Hg : forall p, In p ps -> Lem_WF.good_pwl ts te (prof p)).
    { intros [i j] Hp. unfold ps in Hp. rewrite pairs_of_gpairs in Hp.
      apply in_gpairs in Hp as [Hi Hj]. rewrite Forall_forall in HF, HI.
      unfold prof, sprof. cbn [fst snd].
      apply Lem_WF.spike_profile_bi_wf; [apply Lem_WF.rc_ok_false| |];
        apply HF; unfold nth_train; apply nth_In; auto. }
    destruct (dc_pwl_sum ts te prof (S (length ps)) ps Hg Hne) as (S0 & ES & GS & RS & LS & _ & BS);
      [lia|].
    exists S0. split; [|split; [exact GS|split; [|split]]].
    - unfold spike_profile_multi, profile_multi_gen. cbn [indices_or_all].
      rewrite (check_lt _ _ HI). cbn [negb]. fold ps.
      change (rmap (fun pn => pwl_mul ROps (fst pn) (ndiv ROps (n1 ROps) (nofnat ROps (snd pn))))
                (rmap (fun p => (p, length ps))
                   (dc (pwl_add ROps) (fun p => Ok (prof p)) (S (length ps)) ps))
              = Ok (pwl_mul ROps S0 (1 / INR (length (gpairs (sel l ix)))))).
      rewrite ES. cbn [rmap fst snd]. rewrite nofnat_INR, Hlen. reflexivity.
    - intros t Ht. rewrite (RS t Ht). rewrite <- psum_gpairs, <- pairs_sel, map_map. reflexivity.
    - intros t Ht. rewrite (LS t Ht). rewrite <- psum_gpairs, <- pairs_sel, map_map. reflexivity.
    - intros x. rewrite BS. rewrite <- pairs_sel. split.
      + intros (p & Hp & Hx). exists (nth_train ROps l (fst p)), (nth_train ROps l (snd p)).
        split; [|exact Hx]. apply in_map_iff. exists p. split; [reflexivity|exact Hp].
      + intros (a & b & Hab & Hx). apply in_map_iff in Hab as (p & E & Hp).
        exists p. split; [exact Hp|]. inversion E; subst a b. exact Hx.
  Qed.
End Core.

(* ------------------------------------------------------------------ *)
(* 3. representation equality                                           *)

Section Perm.
  Variables (eps : R) (cy : bool) (m : R) (ri : bool) (ts te : R).

  Lemma bip_sym a b : wtrain ts te a -> wtrain ts te b -> bip eps cy m ri a b = bip eps cy m ri b a.
  Proof. intros Wa Wb. unfold bip. apply (Lem_API2.spike_profile_symmetric eps cy m ri a b ts te Wa Wb). Qed.

  (* the union of the pair breakpoints only depends on the set of unordered pairs *)
  Lemma breaks_perm_dir (k k' : list trainR) x : Permutation k k' -> Forall (wtrain ts te) k ->
    (exists a b, In (a, b) (gpairs k) /\ In x (fst (fst (bip eps cy m ri a b)))) ->
    (exists a b, In (a, b) (gpairs k') /\ In x (fst (fst (bip eps cy m ri a b)))).
  Proof.
    intros Hp Fk (a & b & Hab & Hx). destruct (in_gpairs _ _ _ Hab) as [Ia Ib].
    rewrite Forall_forall in Fk.
    destruct (Lem_MultiAPI.gpairs_perm_in k k' Hp a b (or_introl Hab)) as [H|H].
    - exists a, b. auto.
    - exists b, a. split; [exact H|]. rewrite <- (bip_sym a b (Fk a Ia) (Fk b Ib)). exact Hx.
  Qed.

  (* the core statement: two selections (possibly from two lists) that pick the
     same trains up to order give the same representation *)
  Theorem spike_multi_profile_sel_perm : forall l l' ix ix',
    (2 <= length ix)%nat ->
    Forall (wtrain ts te) l -> Forall (wtrain ts te) l' ->
    Forall (fun i => (i < length l)%nat) ix -> Forall (fun i => (i < length l')%nat) ix' ->
    Permutation (sel l ix) (sel l' ix') ->
    spike_profile_multi ROps eps cy false m ri l (Some ix)
    = spike_profile_multi ROps eps cy false m ri l' (Some ix').
  Proof.
    intros l l' ix ix' H2 HF HF' HI HI' Hp.
    assert (H2' : (2 <= length ix')%nat).
    { pose proof (Permutation_length Hp) as E. unfold sel in E. rewrite !map_length in E. lia. }
    pose proof (sel_wtrain ts te l ix HF HI) as FK.
    pose proof (sel_wtrain ts te l' ix' HF' HI') as FK'.
    destruct (spike_multi_struct_ix eps cy m ri ts te l ix H2 HF HI) as (SP & ES & GS & RS & LS & BS).
    destruct (spike_multi_struct_ix eps cy m ri ts te l' ix' H2' HF' HI') as (SP' & ES' & GS' & RS' & LS' & BS').
    rewrite ES, ES'. rewrite (gpairs_perm_length _ _ Hp).
    set (K := sel l ix) in *. set (K' := sel l' ix') in *.
    f_equal. f_equal.
    pose proof GS as (WS & S0 & SL). pose proof GS' as (WS' & S0' & SL').
    pose proof WS as ((Ss & _) & _). pose proof WS' as ((Ss' & _) & _).
    assert (EB : fst (fst SP) = fst (fst SP')).
    { apply Lem_Lists.ssorted_ext; [exact Ss|exact Ss'|].
      intros x. rewrite BS, BS'. split.
      - apply (breaks_perm_dir K K' x Hp FK).
      - apply (breaks_perm_dir K' K x (Permutation_sym Hp) FK'). }
    pose proof (Lem_Pwc.ssorted_bounds _ Ss) as HB. rewrite Forall_forall in HB.
    apply pwl_canonical; [exact WS|exact WS'|exact EB| |].
    - intros t Ht Hlt. rewrite SL in Hlt. destruct (HB t Ht) as [Hlo _]. rewrite S0 in Hlo.
      assert (Hr : ts <= t < te) by lra.
      rewrite (good_right ts te SP t GS Hr), (good_right ts te SP' t GS' Hr).
      rewrite (RS t Hr), (RS' t Hr). f_equal.
      apply Lem_MultiAPI.psum_perm_in; [exact Hp|].
      intros a b Ha Hb. rewrite Forall_forall in FK.
      rewrite (bip_sym a b (FK a Ha) (FK b Hb)). reflexivity.
    - intros t Ht Hlt. rewrite S0 in Hlt. destruct (HB t Ht) as [_ Hhi]. rewrite SL in Hhi.
      assert (Hr : ts < t <= te) by lra.
      rewrite (good_left ts te SP t GS Hr), (good_left ts te SP' t GS' Hr).
      rewrite (LS t Hr), (LS' t Hr). f_equal.
      apply Lem_MultiAPI.psum_perm_in; [exact Hp|].
      intros a b Ha Hb. rewrite Forall_forall in FK.
      rewrite (bip_sym a b (FK a Ha) (FK b Hb)). reflexivity.
  Qed.

  (* 1. all trains, permuted list *)
  Theorem spike_multi_profile_perm : forall l l',
    (2 <= length l)%nat -> Forall (wtrain ts te) l -> Permutation l l' ->
    spike_profile_multi ROps eps cy false m ri l None
    = spike_profile_multi ROps eps cy false m ri l' None.
  Proof.
    intros l l' H2 HF Hp.
    assert (HF' : Forall (wtrain ts te) l') by (eapply Permutation_Forall; eauto).
    change (spike_profile_multi ROps eps cy false m ri l (Some (seq 0 (length l)))
            = spike_profile_multi ROps eps cy false m ri l' (Some (seq 0 (length l')))).
    apply spike_multi_profile_sel_perm; auto.
    - rewrite seq_length. exact H2.
    - apply Forall_forall. intros i Hi. apply in_seq in Hi. lia.
    - apply Forall_forall. intros i Hi. apply in_seq in Hi. lia.
    - rewrite !sel_all. exact Hp.
  Qed.

  (* 2. an admissible index selection, permuted *)
  Theorem spike_multi_profile_idx_perm : forall l ix ix',
    (2 <= length ix)%nat -> Forall (wtrain ts te) l ->
    Forall (fun i => (i < length l)%nat) ix -> Permutation ix ix' ->
    spike_profile_multi ROps eps cy false m ri l (Some ix)
    = spike_profile_multi ROps eps cy false m ri l (Some ix').
  Proof.
    intros l ix ix' H2 HF HI Hp.
    apply spike_multi_profile_sel_perm; auto.
    - eapply Permutation_Forall; eauto.
    - unfold sel. apply Permutation_map. exact Hp.
  Qed.

  (* no selection = the selection of all indices, by computation *)
  Corollary spike_multi_profile_idx_all : forall l,
    (2 <= length l)%nat -> Forall (wtrain ts te) l ->
    spike_profile_multi ROps eps cy false m ri l (Some (seq 0 (length l)))
    = spike_profile_multi ROps eps cy false m ri l None.
  Proof. intros. reflexivity. Qed.
End Perm.

(* ------------------------------------------------------------------ *)
(* 4. by-products, named                                                *)

(* breakpoints and both one-sided limits agree (consequences of the equality) *)
Corollary spike_multi_profile_perm_breakpoints : forall eps cy m ri ts te l l' P P',
  (2 <= length l)%nat -> Forall (wtrain ts te) l -> Permutation l l' ->
  spike_profile_multi ROps eps cy false m ri l None = Ok P ->
  spike_profile_multi ROps eps cy false m ri l' None = Ok P' ->
  fst (fst P) = fst (fst P') /\
  (forall t, pwl_right ROps (fst (fst P)) (snd (fst P)) (snd P) t
             = pwl_right ROps (fst (fst P')) (snd (fst P')) (snd P') t) /\
  (forall t, pwl_left ROps (fst (fst P)) (snd (fst P)) (snd P) t
             = pwl_left ROps (fst (fst P')) (snd (fst P')) (snd P') t).
Proof.
  intros eps cy m ri ts te l l' P P' H2 HF Hp E E'.
  rewrite (spike_multi_profile_perm eps cy m ri ts te l l' H2 HF Hp) in E.
  assert (P = P') by congruence. subst P'. repeat split.
Qed.

(* the union of the pair breakpoints is invariant (sort_unique under permutation:
   Lem_Lists.sort_unique_perm_inv; here for the symmetric pair enumeration) *)
Corollary spike_pair_breakpoints_perm : forall eps cy m ri ts te (l l' : list trainR),
  Forall (wtrain ts te) l -> Permutation l l' ->
  sort_unique ROps (concat (map (fun ab => fst (fst (bip eps cy m ri (fst ab) (snd ab)))) (gpairs l)))
  = sort_unique ROps (concat (map (fun ab => fst (fst (bip eps cy m ri (fst ab) (snd ab)))) (gpairs l'))).
Proof.
  intros eps cy m ri ts te l l' HF Hp.
  assert (HF' : Forall (wtrain ts te) l') by (eapply Permutation_Forall; eauto).
  apply Lem_Lists.sort_unique_ext. intros x. rewrite !in_concat.
  assert (D : forall k k', Permutation k k' -> Forall (wtrain ts te) k ->
            (exists xs, In xs (map (fun ab => fst (fst (bip eps cy m ri (fst ab) (snd ab)))) (gpairs k)) /\ In x xs) ->
            (exists xs, In xs (map (fun ab => fst (fst (bip eps cy m ri (fst ab) (snd ab)))) (gpairs k')) /\ In x xs)).
  { intros k k' Hk Fk (xs & Hxs & Hx). apply in_map_iff in Hxs as ([a b] & <- & Hab). cbn [fst snd] in Hx.
    destruct (breaks_perm_dir eps cy m ri ts te k k' x Hk Fk) as (a' & b' & Hab' & Hx'); [eauto|].
    exists (fst (fst (bip eps cy m ri a' b'))). split; [|exact Hx'].
    apply in_map_iff. exists (a', b'). auto. }
  split; [apply (D l l' Hp HF)|apply (D l' l (Permutation_sym Hp) HF')].
Qed.

(* ------------------------------------------------------------------ *)
(* 5. the hypotheses are satisfiable                                    *)

Definition ex_a : trainR := ([1; 4; 7], 0, 10).
Definition ex_b : trainR := ([2; 5], 0, 10).
Definition ex_c : trainR := ([3; 6; 9], 0, 10).

Lemma ex_wtrain : Forall (wtrain 0 10) [ex_a; ex_b; ex_c].
Proof.
  repeat constructor; cbn [tr_spikes tr_start tr_end ex_a ex_b ex_c fst snd]; try lra;
    repeat (apply Forall_cons || apply Forall_nil); try lra.
Qed.

Example spike_multi_profile_perm_ex : forall eps cy m ri,
  spike_profile_multi ROps eps cy false m ri [ex_a; ex_b; ex_c] None
  = spike_profile_multi ROps eps cy false m ri [ex_c; ex_a; ex_b] None.
Proof.
  intros. apply (spike_multi_profile_perm eps cy m ri 0 10).
  - cbn [length]. lia.
  - exact ex_wtrain.
  - apply Permutation_sym. apply (Permutation_cons_append [ex_a; ex_b] ex_c).
Qed.

Example spike_multi_profile_idx_perm_ex : forall eps cy m ri,
  spike_profile_multi ROps eps cy false m ri [ex_a; ex_b; ex_c] (Some [2; 0]%nat)
  = spike_profile_multi ROps eps cy false m ri [ex_a; ex_b; ex_c] (Some [0; 2]%nat).
Proof.
  intros. apply (spike_multi_profile_idx_perm eps cy m ri 0 10).
  - cbn [length]. lia.
  - exact ex_wtrain.
  - repeat constructor; cbn [length]; lia.
  - apply perm_swap.
Qed.

Print Assumptions pwl_canonical.
Print Assumptions spike_multi_profile_sel_perm.
Print Assumptions spike_multi_profile_perm.
Print Assumptions spike_multi_profile_idx_perm.
