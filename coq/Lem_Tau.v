(* Lem_Tau.v — properties of the coincidence window [get_tau] / [tau_spec],
   of [interp], of [lim_of] / [true_max] and of the pairwise coincidence
   predicate [coinc], all for the R instance. *)

From Coq Require Import List Bool Arith ZArith Reals Lra Lia Sorted Permutation.
Import ListNotations.
From PS Require Import Num RLemmas Valid ModelKernels ModelFuncs ModelAPI Spec SyncDefs.
Local Open Scope R_scope.

(* the neighbours of a spike in a strictly sorted train *)
Definition ctx_pos (c : @ctx R) : Prop :=
  (forall p, c_prev c = Some p -> p < c_cur c) /\
  (forall n, c_next c = Some n -> c_cur c < n).

(* ------------------------------------------------------------------ *)
(* interp                                                              *)

(* [interp] on R, with Rmin and real comparisons exposed *)
Lemma interp_R a b t :
  interp ROps a b t =
  if Rltb t (Rmin a b) then Rmin a b else if Rltb b t then b else t.
Proof. unfold interp. rops. reflexivity. Qed.

Lemma interp_le_b : forall a b t, interp ROps a b t <= b.
Proof.
  intros a b t. rewrite interp_R.
  pose proof (Rmin_r a b) as Hr.
  destruct (Rltb_spec t (Rmin a b)) as [H1|H1]; [lra|].
  destruct (Rltb_spec b t) as [H2|H2]; lra.
Qed.

Lemma interp_ge_min : forall a b t, Rmin a b <= interp ROps a b t.
Proof.
  intros a b t. rewrite interp_R.
  pose proof (Rmin_r a b) as Hr.
  destruct (Rltb_spec t (Rmin a b)) as [H1|H1]; [lra|].
  destruct (Rltb_spec b t) as [H2|H2]; lra.
Qed.

Lemma interp_mono_t : forall a b t t', t <= t' -> interp ROps a b t <= interp ROps a b t'.
Proof.
  intros a b t t' Ht. rewrite !interp_R.
  pose proof (Rmin_r a b) as Hr.
  destruct (Rltb_spec t (Rmin a b)) as [H1|H1];
  destruct (Rltb_spec t' (Rmin a b)) as [H3|H3]; try lra.
  - destruct (Rltb_spec b t') as [H4|H4]; lra.
  - destruct (Rltb_spec b t) as [H2|H2];
    destruct (Rltb_spec b t') as [H4|H4]; lra.
Qed.

Lemma interp_mono_ab : forall a a' b b' t, a <= a' -> b <= b' ->
  interp ROps a b t <= interp ROps a' b' t.
Proof.
  intros a a' b b' t Ha Hb. rewrite !interp_R.
  assert (Hm : Rmin a b <= Rmin a' b').
  { apply Rmin_glb; [pose proof (Rmin_l a b) | pose proof (Rmin_r a b)]; lra. }
  pose proof (Rmin_r a b) as Hr. pose proof (Rmin_r a' b') as Hr'.
  destruct (Rltb_spec t (Rmin a b)) as [H1|H1];
  destruct (Rltb_spec t (Rmin a' b')) as [H3|H3]; try lra.
  - destruct (Rltb_spec b t) as [H2|H2]; lra.
  - destruct (Rltb_spec b t) as [H2|H2];
    destruct (Rltb_spec b' t) as [H4|H4]; lra.
Qed.

Lemma interp_small : forall a b t, t <= Rmin a b -> interp ROps a b t = Rmin a b.
Proof.
  intros a b t Ht. rewrite interp_R.
  pose proof (Rmin_r a b) as Hr.
  destruct (Rltb_spec t (Rmin a b)) as [H1|H1]; [reflexivity|].
  destruct (Rltb_spec b t) as [H2|H2]; lra.
Qed.

(* slightly more general than requested: non-negative is enough *)
Lemma interp_zero_nonneg : forall a b, 0 <= a -> 0 <= b -> interp ROps a b 0 = Rmin a b.
Proof. intros a b Ha Hb. apply interp_small. apply Rmin_glb; lra. Qed.

Lemma interp_zero : forall a b, 0 < a -> 0 < b -> interp ROps a b 0 = Rmin a b.
Proof. intros a b Ha Hb. apply interp_zero_nonneg; lra. Qed.

Lemma interp_cy_eq : forall a b t, interp_cy ROps a b t = interp ROps a b t.
Proof.
  intros a b t. rewrite interp_R. unfold interp_cy, nleb.
  cbn [nadd nsub nmul ndiv n0 n1 nltb neqb ROps].
  unfold Rmin. destruct (Rle_dec a b) as [Hab|Hab].
  - destruct (Rltb_spec t a) as [H1|H1]; destruct (Rltb_spec a b) as [H2|H2];
    destruct (Rltb_spec t b) as [H3|H3]; destruct (Rltb_spec b t) as [H4|H4];
    cbn [andb negb]; lra.
  - destruct (Rltb_spec t a) as [H1|H1]; destruct (Rltb_spec a b) as [H2|H2];
    destruct (Rltb_spec t b) as [H3|H3]; destruct (Rltb_spec b t) as [H4|H4];
    cbn [andb negb]; lra.
Qed.

(* ------------------------------------------------------------------ *)
(* get_tau                                                             *)

Lemma get_tau_cy_eq : forall c1 c2 lim m,
  get_tau_cy ROps c1 c2 lim m = get_tau ROps c1 c2 lim m.
Proof.
  intros c1 c2 lim m. unfold get_tau_cy, get_tau, get_tau_gen.
  rewrite !interp_cy_eq. reflexivity.
Qed.

Lemma get_tau_spec : forall c1 c2 lim m,
  get_tau ROps (Some c1) (Some c2) lim m = tau_spec ROps lim m c1 c2.
Proof.
  intros c1 c2 lim m. unfold get_tau, get_tau_gen, tau_spec, first_le.
  destruct (nleb ROps (c_cur c1) (c_cur c2)).
  - reflexivity.
  - rewrite !R_nmin. f_equal. apply Rmin_comm.
Qed.

Lemma get_tau_le_half : forall c1 c2 lim m, get_tau ROps c1 c2 lim m <= lim / 2.
Proof.
  intros c1 c2 lim m. unfold get_tau, get_tau_gen.
  rewrite (R_nmin _ (ndiv ROps lim (n2 ROps))). rewrite R_n2.
  cbn [ndiv ROps]. apply Rmin_r.
Qed.

(* ------------------------------------------------------------------ *)
(* tau_spec: a readable normal form                                    *)

(* the window when [e] is the earlier and [l] the later spike *)
Definition tau_el (lim m : R) (e l : @ctx R) : R :=
  Rmin (Rmin (interp ROps (gapP ROps lim (Some e) / 2) (gapF ROps lim (Some e) / 2) (m / 4))
             (interp ROps (gapF ROps lim (Some l) / 2) (gapP ROps lim (Some l) / 2) (m / 4)))
       (lim / 2).

Lemma tau_spec_R lim m c1 c2 :
  tau_spec ROps lim m c1 c2 =
  if Rltb (c_cur c2) (c_cur c1) then tau_el lim m c2 c1 else tau_el lim m c1 c2.
Proof.
  unfold tau_spec, tau_el, nleb. cbn [nltb ROps].
  destruct (Rltb (c_cur c2) (c_cur c1)); cbn [negb];
    rewrite !R_nmin, R_n2, R_n4; reflexivity.
Qed.

Lemma tau_spec_le_half lim m c1 c2 : tau_spec ROps lim m c1 c2 <= lim / 2.
Proof.
  rewrite tau_spec_R.
  destruct (Rltb (c_cur c2) (c_cur c1)); unfold tau_el; apply Rmin_r.
Qed.

Lemma tau_spec_sym : forall lim m c1 c2, c_cur c1 <> c_cur c2 ->
  tau_spec ROps lim m c1 c2 = tau_spec ROps lim m c2 c1.
Proof.
  intros lim m c1 c2 Hne. rewrite !tau_spec_R.
  destruct (Rltb_spec (c_cur c2) (c_cur c1)) as [H1|H1];
  destruct (Rltb_spec (c_cur c1) (c_cur c2)) as [H2|H2]; try reflexivity.
  - lra.
  - exfalso. apply Hne. lra.
Qed.

Lemma coinc_sym : forall lim m c1 c2, coinc ROps lim m c1 c2 = coinc ROps lim m c2 c1.
Proof.
  intros lim m c1 c2. unfold coinc. rewrite !R_nabs.
  cbn [nadd nsub nmul ndiv n0 n1 nltb neqb ROps].
  destruct (Reqb_spec (c_cur c1) (c_cur c2)) as [E|E];
  destruct (Reqb_spec (c_cur c2) (c_cur c1)) as [E'|E']; cbn [negb andb]; try reflexivity.
  - exfalso; apply E'; auto.
  - exfalso; apply E; auto.
  - rewrite (tau_spec_sym lim m c1 c2 E).
    rewrite (Rabs_minus_sym (c_cur c1) (c_cur c2)). reflexivity.
Qed.

(* what [coinc = true] means *)
Lemma coinc_true lim m c1 c2 :
  coinc ROps lim m c1 c2 = true <->
  c_cur c1 <> c_cur c2 /\ Rabs (c_cur c1 - c_cur c2) < tau_spec ROps lim m c1 c2.
Proof.
  unfold coinc. rewrite R_nabs. cbn [nadd nsub nmul ndiv n0 n1 nltb neqb ROps].
  destruct (Reqb_spec (c_cur c1) (c_cur c2)) as [E|E]; cbn [negb andb].
  - split; [discriminate | intros [H _]; contradiction].
  - rewrite Rltb_true. tauto.
Qed.

(* ------------------------------------------------------------------ *)
(* lim_of / true_max                                                   *)

Lemma true_max_eq_lim_of : forall ts te mt, true_max ROps ts te mt = lim_of ROps ts te mt.
Proof. intros; reflexivity. Qed.

Lemma lim_of_R ts te mt :
  lim_of ROps ts te mt = if Rltb 0 mt then Rmin (te - ts) (2 * mt) else te - ts.
Proof. unfold lim_of. rewrite R_nmin, R_n2. reflexivity. Qed.

Lemma lim_of_le_2mt : forall ts te mt, 0 < mt -> lim_of ROps ts te mt <= 2 * mt.
Proof.
  intros ts te mt Hmt. rewrite lim_of_R.
  destruct (Rltb_spec 0 mt) as [H|H]; [apply Rmin_r | lra].
Qed.

Lemma C16_bound : forall ts te mt m c1 c2, 0 < mt ->
  coinc ROps (lim_of ROps ts te mt) m c1 c2 = true ->
  Rabs (c_cur c1 - c_cur c2) < mt.
Proof.
  intros ts te mt m c1 c2 Hmt Hc. apply coinc_true in Hc as [_ Hc].
  pose proof (tau_spec_le_half (lim_of ROps ts te mt) m c1 c2) as H1.
  pose proof (lim_of_le_2mt ts te mt Hmt) as H2. lra.
Qed.

(* ------------------------------------------------------------------ *)
(* monotonicity                                                        *)

Lemma gapP_mono lim lim' c : lim <= lim' -> gapP ROps lim c <= gapP ROps lim' c.
Proof.
  intros H. destruct c as [[[p|] x n]|]; cbn [gapP]; lra.
Qed.
Lemma gapF_mono lim lim' c : lim <= lim' -> gapF ROps lim c <= gapF ROps lim' c.
Proof.
  intros H. destruct c as [[p x [n|]]|]; cbn [gapF]; lra.
Qed.

Lemma Rmin_mono a a' b b' : a <= a' -> b <= b' -> Rmin a b <= Rmin a' b'.
Proof.
  intros Ha Hb. apply Rmin_glb; [pose proof (Rmin_l a b) | pose proof (Rmin_r a b)]; lra.
Qed.

Lemma tau_el_mono_lim lim lim' m e l : lim <= lim' -> tau_el lim m e l <= tau_el lim' m e l.
Proof.
  intros H. unfold tau_el.
  pose proof (gapP_mono lim lim' (Some e) H). pose proof (gapF_mono lim lim' (Some e) H).
  pose proof (gapP_mono lim lim' (Some l) H). pose proof (gapF_mono lim lim' (Some l) H).
  apply Rmin_mono; [apply Rmin_mono | lra]; apply interp_mono_ab; lra.
Qed.

Lemma tau_spec_mono_lim : forall lim lim' m c1 c2, lim <= lim' ->
  tau_spec ROps lim m c1 c2 <= tau_spec ROps lim' m c1 c2.
Proof.
  intros lim lim' m c1 c2 H. rewrite !tau_spec_R.
  destruct (Rltb (c_cur c2) (c_cur c1)); apply tau_el_mono_lim; exact H.
Qed.

Lemma lim_of_mono : forall ts te mt mt', ts < te -> 0 < mt -> mt <= mt' ->
  lim_of ROps ts te mt <= lim_of ROps ts te mt'.
Proof.
  intros ts te mt mt' _ Hmt Hle. rewrite !lim_of_R.
  destruct (Rltb_spec 0 mt) as [H|H]; [|lra].
  destruct (Rltb_spec 0 mt') as [H'|H']; [|lra].
  apply Rmin_mono; lra.
Qed.

Lemma lim_of_le_none : forall ts te mt, ts < te ->
  lim_of ROps ts te mt <= lim_of ROps ts te 0.
Proof.
  intros ts te mt _. rewrite !lim_of_R.
  destruct (Rltb_spec 0 0) as [H0|H0]; [lra|].
  destruct (Rltb_spec 0 mt) as [H|H]; [apply Rmin_l | lra].
Qed.

Lemma coinc_mono_lim lim lim' m c1 c2 : lim <= lim' ->
  coinc ROps lim m c1 c2 = true -> coinc ROps lim' m c1 c2 = true.
Proof.
  intros H Hc. apply coinc_true in Hc as [Hne Hc]. apply coinc_true. split; [exact Hne|].
  pose proof (tau_spec_mono_lim lim lim' m c1 c2 H). lra.
Qed.

Lemma C16_mono : forall ts te mt mt' m c1 c2, ts < te -> 0 < mt -> mt <= mt' ->
  coinc ROps (lim_of ROps ts te mt) m c1 c2 = true ->
  coinc ROps (lim_of ROps ts te mt') m c1 c2 = true.
Proof.
  intros ts te mt mt' m c1 c2 Hts Hmt Hle. apply coinc_mono_lim.
  apply lim_of_mono; assumption.
Qed.

Lemma C16_none : forall ts te mt m c1 c2, ts < te -> 0 < mt ->
  coinc ROps (lim_of ROps ts te mt) m c1 c2 = true ->
  coinc ROps (lim_of ROps ts te 0) m c1 c2 = true.
Proof.
  intros ts te mt m c1 c2 Hts _. apply coinc_mono_lim.
  apply lim_of_le_none; assumption.
Qed.

Lemma tau_el_mono_mrts lim m m' e l : m <= m' -> tau_el lim m e l <= tau_el lim m' e l.
Proof.
  intros H. unfold tau_el.
  apply Rmin_mono; [apply Rmin_mono | lra]; apply interp_mono_t; lra.
Qed.

Lemma tau_spec_mono_mrts : forall lim m m' c1 c2, m <= m' ->
  tau_spec ROps lim m c1 c2 <= tau_spec ROps lim m' c1 c2.
Proof.
  intros lim m m' c1 c2 H. rewrite !tau_spec_R.
  destruct (Rltb (c_cur c2) (c_cur c1)); apply tau_el_mono_mrts; exact H.
Qed.

Lemma C15_sync_mono : forall lim m m' c1 c2, m <= m' ->
  coinc ROps lim m c1 c2 = true -> coinc ROps lim m' c1 c2 = true.
Proof.
  intros lim m m' c1 c2 H Hc. apply coinc_true in Hc as [Hne Hc]. apply coinc_true.
  split; [exact Hne|]. pose proof (tau_spec_mono_mrts lim m m' c1 c2 H). lra.
Qed.

(* ------------------------------------------------------------------ *)
(* MRTS below every existing gap changes nothing                       *)

(* every existing gap of [c] is at least [m] *)
Definition gaps_ge (m : R) (c : @ctx R) : Prop :=
  (forall p, c_prev c = Some p -> m <= c_cur c - p) /\
  (forall n, c_next c = Some n -> m <= n - c_cur c).

Lemma gapP_cases lim m c : gaps_ge m c ->
  gapP ROps lim (Some c) = lim \/ m <= gapP ROps lim (Some c).
Proof.
  intros [HP _]. destruct c as [[p|] x n]; cbn [gapP c_prev c_cur nsub ROps] in *.
  - right. apply HP. reflexivity.
  - left. reflexivity.
Qed.
Lemma gapF_cases lim m c : gaps_ge m c ->
  gapF ROps lim (Some c) = lim \/ m <= gapF ROps lim (Some c).
Proof.
  intros [_ HF]. destruct c as [p x [n|]]; cbn [gapF c_next c_cur nsub ROps] in *.
  - right. apply HF. reflexivity.
  - left. reflexivity.
Qed.

(* the threshold only acts where an argument is the cap L itself *)
Lemma interp_cap a b t L : (a = L \/ t <= a) -> (b = L \/ t <= b) ->
  Rmin (interp ROps a b t) L = Rmin (Rmin a b) L.
Proof.
  intros Ha Hb. rewrite interp_R.
  destruct (Rltb_spec t (Rmin a b)) as [H1|H1]; [reflexivity|].
  destruct (Rltb_spec b t) as [H2|H2].
  - (* t > b: b = L *)
    destruct Hb as [Hb|Hb]; [|lra]. subst L.
    pose proof (Rmin_r a b) as Hr. rewrite (Rmin_left (Rmin a b) b Hr).
    apply (Rmin_case_strong' a b); intros Hab;
    apply (Rmin_case_strong' b b); intros Hbb; lra.
  - (* Rmin a b <= t <= b *)
    unfold Rmin in *. destruct (Rle_dec a b) as [Hab|Hab].
    + destruct Ha as [Ha|Ha].
      * subst L. destruct (Rle_dec t a); destruct (Rle_dec a a); lra.
      * assert (t = a) by lra. subst t. reflexivity.
    + assert (t = b) by lra. subst t. reflexivity.
Qed.

Lemma Rmin3_cap x y L : Rmin (Rmin x y) L = Rmin (Rmin x L) (Rmin y L).
Proof.
  apply (Rmin_case_strong' x y); intros Hxy;
  apply (Rmin_case_strong' x L); intros HxL;
  apply (Rmin_case_strong' y L); intros HyL;
  match goal with |- _ = Rmin ?u ?v => apply (Rmin_case_strong' u v); intros Huv end;
  lra.
Qed.

Definition ctx_nonneg (c : @ctx R) : Prop :=
  (forall p, c_prev c = Some p -> p <= c_cur c) /\
  (forall n, c_next c = Some n -> c_cur c <= n).

Lemma ctx_pos_nonneg c : ctx_pos c -> ctx_nonneg c.
Proof.
  intros [H1 H2]; split; intros q Hq; [apply H1 in Hq | apply H2 in Hq]; lra.
Qed.

Lemma gapP_nonneg lim c : 0 <= lim -> ctx_nonneg c -> 0 <= gapP ROps lim (Some c).
Proof.
  intros Hl [HP _]. destruct c as [[p|] x n]; cbn [gapP c_prev c_cur nsub ROps] in *; [|lra].
  specialize (HP p eq_refl). lra.
Qed.
Lemma gapF_nonneg lim c : 0 <= lim -> ctx_nonneg c -> 0 <= gapF ROps lim (Some c).
Proof.
  intros Hl [_ HF]. destruct c as [p x [n|]]; cbn [gapF c_next c_cur nsub ROps] in *; [|lra].
  specialize (HF n eq_refl). lra.
Qed.
Lemma gapP_pos lim c : 0 < lim -> ctx_pos c -> 0 < gapP ROps lim (Some c).
Proof.
  intros Hl [HP _]. destruct c as [[p|] x n]; cbn [gapP c_prev c_cur nsub ROps] in *; [|lra].
  specialize (HP p eq_refl). lra.
Qed.
Lemma gapF_pos lim c : 0 < lim -> ctx_pos c -> 0 < gapF ROps lim (Some c).
Proof.
  intros Hl [_ HF]. destruct c as [p x [n|]]; cbn [gapF c_next c_cur nsub ROps] in *; [|lra].
  specialize (HF n eq_refl). lra.
Qed.

Lemma tau_el_noop lim m e l : 0 <= lim -> ctx_nonneg e -> ctx_nonneg l -> 0 <= m ->
  gaps_ge m e -> gaps_ge m l -> tau_el lim m e l = tau_el lim 0 e l.
Proof.
  intros Hl Pe Pl Hm Ge Gl. unfold tau_el.
  pose proof (gapP_nonneg lim e Hl Pe) as NPe. pose proof (gapF_nonneg lim e Hl Pe) as NFe.
  pose proof (gapP_nonneg lim l Hl Pl) as NPl. pose proof (gapF_nonneg lim l Hl Pl) as NFl.
  replace (0 / 4) with 0 by lra.
  rewrite (interp_zero_nonneg (gapP ROps lim (Some e) / 2) (gapF ROps lim (Some e) / 2)) by lra.
  rewrite (interp_zero_nonneg (gapF ROps lim (Some l) / 2) (gapP ROps lim (Some l) / 2)) by lra.
  rewrite (Rmin3_cap (interp ROps (gapP ROps lim (Some e) / 2) (gapF ROps lim (Some e) / 2) (m / 4))
                     (interp ROps (gapF ROps lim (Some l) / 2) (gapP ROps lim (Some l) / 2) (m / 4))
                     (lim / 2)).
  rewrite (Rmin3_cap (Rmin (gapP ROps lim (Some e) / 2) (gapF ROps lim (Some e) / 2))
                     (Rmin (gapF ROps lim (Some l) / 2) (gapP ROps lim (Some l) / 2))
                     (lim / 2)).
  rewrite (interp_cap (gapP ROps lim (Some e) / 2) (gapF ROps lim (Some e) / 2) (m / 4) (lim / 2)).
  rewrite (interp_cap (gapF ROps lim (Some l) / 2) (gapP ROps lim (Some l) / 2) (m / 4) (lim / 2)).
  - reflexivity.
  - destruct (gapF_cases lim m l Gl) as [E|E]; [left; rewrite E; reflexivity | right; lra].
  - destruct (gapP_cases lim m l Gl) as [E|E]; [left; rewrite E; reflexivity | right; lra].
  - destruct (gapP_cases lim m e Ge) as [E|E]; [left; rewrite E; reflexivity | right; lra].
  - destruct (gapF_cases lim m e Ge) as [E|E]; [left; rewrite E; reflexivity | right; lra].
Qed.

(* general form: non-negative cap and gaps suffice *)
Lemma tau_spec_noop_gen : forall lim m c1 c2, 0 <= lim -> ctx_nonneg c1 -> ctx_nonneg c2 ->
  0 <= m -> gaps_ge m c1 -> gaps_ge m c2 ->
  tau_spec ROps lim m c1 c2 = tau_spec ROps lim 0 c1 c2.
Proof.
  intros lim m c1 c2 Hl P1 P2 Hm G1 G2. rewrite !tau_spec_R.
  destruct (Rltb (c_cur c2) (c_cur c1)); apply tau_el_noop; assumption.
Qed.

Lemma tau_spec_noop : forall lim m c1 c2, 0 < lim -> ctx_pos c1 -> ctx_pos c2 -> 0 <= m ->
  ((forall p, c_prev c1 = Some p -> m <= c_cur c1 - p) /\
   (forall n, c_next c1 = Some n -> m <= n - c_cur c1)) ->
  ((forall p, c_prev c2 = Some p -> m <= c_cur c2 - p) /\
   (forall n, c_next c2 = Some n -> m <= n - c_cur c2)) ->
  tau_spec ROps lim m c1 c2 = tau_spec ROps lim 0 c1 c2.
Proof.
  intros lim m c1 c2 Hl P1 P2 Hm G1 G2.
  apply tau_spec_noop_gen; auto using ctx_pos_nonneg. lra.
Qed.

(* ------------------------------------------------------------------ *)
(* coincident spikes are neighbours in the merged sequence             *)

(* does not need ctx_pos *)
Lemma adjacent_gen : forall lim m c1 c2, c_cur c2 < c_cur c1 ->
  c_cur c1 - c_cur c2 < tau_spec ROps lim m c1 c2 ->
  (forall p, c_prev c1 = Some p -> p < c_cur c2) /\
  (forall n, c_next c2 = Some n -> c_cur c1 < n).
Proof.
  intros lim m c1 c2 Hlt Htau. rewrite tau_spec_R in Htau.
  destruct (Rltb_spec (c_cur c2) (c_cur c1)) as [H|H]; [|lra].
  unfold tau_el in Htau.
  set (I2 := interp ROps (gapP ROps lim (Some c2) / 2) (gapF ROps lim (Some c2) / 2) (m / 4)) in *.
  set (I1 := interp ROps (gapF ROps lim (Some c1) / 2) (gapP ROps lim (Some c1) / 2) (m / 4)) in *.
  pose proof (interp_le_b (gapP ROps lim (Some c2) / 2) (gapF ROps lim (Some c2) / 2) (m / 4)) as B2.
  pose proof (interp_le_b (gapF ROps lim (Some c1) / 2) (gapP ROps lim (Some c1) / 2) (m / 4)) as B1.
  fold I2 in B2. fold I1 in B1.
  pose proof (Rmin_l (Rmin I2 I1) (lim / 2)) as M0.
  pose proof (Rmin_l I2 I1) as M2. pose proof (Rmin_r I2 I1) as M1.
  split.
  - intros p Hp. destruct c1 as [p1 x1 n1]. cbn [c_prev c_cur] in *. subst p1.
    cbn [gapP nsub ROps] in B1. lra.
  - intros n Hn. destruct c2 as [p2 x2 n2]. cbn [c_next c_cur] in *. subst n2.
    cbn [gapF nsub ROps] in B2. lra.
Qed.

Lemma adjacent : forall lim m c1 c2, ctx_pos c1 -> ctx_pos c2 -> c_cur c2 < c_cur c1 ->
  c_cur c1 - c_cur c2 < tau_spec ROps lim m c1 c2 ->
  (forall p, c_prev c1 = Some p -> p < c_cur c2) /\
  (forall n, c_next c2 = Some n -> c_cur c1 < n).
Proof. intros lim m c1 c2 _ _. apply adjacent_gen. Qed.

(* ------------------------------------------------------------------ *)
(* the window is positive                                              *)

Lemma tau_el_pos lim m e l : 0 < lim -> ctx_pos e -> ctx_pos l -> 0 < tau_el lim m e l.
Proof.
  intros Hl Pe Pl. unfold tau_el.
  pose proof (gapP_pos lim e Hl Pe) as NPe. pose proof (gapF_pos lim e Hl Pe) as NFe.
  pose proof (gapP_pos lim l Hl Pl) as NPl. pose proof (gapF_pos lim l Hl Pl) as NFl.
  pose proof (interp_ge_min (gapP ROps lim (Some e) / 2) (gapF ROps lim (Some e) / 2) (m / 4)) as G1.
  pose proof (interp_ge_min (gapF ROps lim (Some l) / 2) (gapP ROps lim (Some l) / 2) (m / 4)) as G2.
  assert (0 < Rmin (gapP ROps lim (Some e) / 2) (gapF ROps lim (Some e) / 2)) as Q1
    by (apply Rmin_glb_lt; lra).
  assert (0 < Rmin (gapF ROps lim (Some l) / 2) (gapP ROps lim (Some l) / 2)) as Q2
    by (apply Rmin_glb_lt; lra).
  apply Rmin_glb_lt; [apply Rmin_glb_lt|]; lra.
Qed.

Lemma tau_spec_pos : forall lim m c1 c2, 0 < lim -> ctx_pos c1 -> ctx_pos c2 ->
  0 < tau_spec ROps lim m c1 c2.
Proof.
  intros lim m c1 c2 Hl P1 P2. rewrite tau_spec_R.
  destruct (Rltb (c_cur c2) (c_cur c1)); apply tau_el_pos; assumption.
Qed.

Print Assumptions get_tau_spec.
Print Assumptions C16_bound.
Print Assumptions C16_mono.
Print Assumptions C15_sync_mono.
Print Assumptions adjacent.
