(* Lem_MinDist.v — the incremental nearest-spike search [get_min_dist] against
   the declarative [nearest]; auxiliary spikes; algebra of [dist_at_t]. *)
From Coq Require Import List Bool Arith ZArith Reals Lra Lia Sorted Permutation.
Import ListNotations.
From PS Require Import Num RLemmas Valid ModelKernels ModelFuncs ModelAPI Spec SyncDefs.
Local Open Scope R_scope.

(* ------------------------------------------------------------------ *)
(* the fold behind [nearest], in plain real-number vocabulary          *)

Definition fmin (x : R) (l : list R) (d : R) : R :=
  fold_left (fun d c => Rmin d (Rabs (x - c))) l d.

Lemma fold_left_ext_R (f g : R -> R -> R) (l : list R) (d : R) :
  (forall a b, f a b = g a b) -> fold_left f l d = fold_left g l d.
Proof.
  intros E; revert d; induction l as [|c l IH]; intros d; cbn [fold_left]; auto.
  rewrite E; apply IH.
Qed.

Lemma nearest_R a0 a1 w x :
  nearest ROps (a0, a1) w x = fmin x (w ++ [a1]) (Rabs (x - a0)).
Proof.
  unfold nearest, fmin; cbn [fst snd]. rewrite R_nabs.
  apply fold_left_ext_R; intros a b. rewrite R_nmin, R_nabs. reflexivity.
Qed.

Lemma fmin_nil x d : fmin x [] d = d.
Proof. reflexivity. Qed.
Lemma fmin_cons x c l d : fmin x (c :: l) d = fmin x l (Rmin d (Rabs (x - c))).
Proof. reflexivity. Qed.
Lemma fmin_app x l1 l2 d : fmin x (l1 ++ l2) d = fmin x l2 (fmin x l1 d).
Proof. unfold fmin; apply fold_left_app. Qed.

Lemma fmin_min x l d e : fmin x l (Rmin d e) = Rmin (fmin x l d) e.
Proof.
  revert d; induction l as [|c l IH]; intros d; [reflexivity|].
  rewrite !fmin_cons, <- IH. f_equal.
  rewrite <- !Rmin_assoc. f_equal. apply Rmin_comm.
Qed.

Lemma fmin_le_start x l d : fmin x l d <= d.
Proof.
  revert d; induction l as [|c l IH]; intros d; [rewrite fmin_nil; lra|].
  rewrite fmin_cons. eapply Rle_trans; [apply IH|apply Rmin_l].
Qed.

Lemma fmin_le_elem x l d c : In c l -> fmin x l d <= Rabs (x - c).
Proof.
  revert d; induction l as [|c' l IH]; intros d Hin; [destruct Hin|].
  destruct Hin as [->|Hin]; rewrite fmin_cons.
  - eapply Rle_trans; [apply fmin_le_start|apply Rmin_r].
  - apply IH; auto.
Qed.

Lemma fmin_glb x l d e :
  e <= d -> (forall c, In c l -> e <= Rabs (x - c)) -> e <= fmin x l d.
Proof.
  revert d; induction l as [|c l IH]; intros d Hd Hl; [rewrite fmin_nil; auto|].
  rewrite fmin_cons. apply IH.
  - apply Rmin_glb; auto. apply Hl; left; auto.
  - intros c' Hc'; apply Hl; right; auto.
Qed.

(* nothing in the list is nearer than the start value *)
Lemma fmin_keep x l d :
  (forall c, In c l -> d <= Rabs (x - c)) -> fmin x l d = d.
Proof.
  intros Hl. apply Rle_antisym; [apply fmin_le_start|].
  apply fmin_glb; auto; lra.
Qed.

Lemma fmin_nonneg x l d : 0 <= d -> 0 <= fmin x l d.
Proof. intros Hd; apply fmin_glb; auto. intros; apply Rabs_pos. Qed.

(* ------------------------------------------------------------------ *)
(* 1. the early-exit search computes the global minimum                *)

Definition gmd_finish (x a1 : R) (r : bool * R) : R :=
  let '(early, d') := r in
  if early then d'
  else if Rltb d' (Rabs (a1 - x)) then d' else Rabs (a1 - x).

Lemma get_min_dist_R x l a0 a1 :
  get_min_dist ROps x l a0 a1 = gmd_finish x a1 (gmd_loop ROps x l (Rabs (x - a0))).
Proof.
  unfold get_min_dist, gmd_finish. rewrite !R_nabs. cbn [nsub nltb ROps].
  destruct (gmd_loop ROps x l (Rabs (x - a0))) as [early d']. reflexivity.
Qed.

Lemma gmd_loop_cons x y l d :
  gmd_loop ROps x (y :: l) d =
  if Rltb d (Rabs (x - y)) then (true, d) else gmd_loop ROps x l (Rabs (x - y)).
Proof. cbn [gmd_loop]. rewrite R_nabs. reflexivity. Qed.

(* invariant: the running value is the distance to the last visited spike [p],
   which is <= everything still to come *)
Lemma gmd_loop_fmin x a1 : forall l p,
  ssorted l -> Forall (fun y => p <= y <= a1) l -> p <= a1 ->
  gmd_finish x a1 (gmd_loop ROps x l (Rabs (x - p))) = fmin x (l ++ [a1]) (Rabs (x - p)).
Proof.
  induction l as [|y l IH]; intros p Hs Hb Hp.
  - cbn [gmd_loop gmd_finish app]. rewrite fmin_cons, fmin_nil.
    rewrite (Rabs_minus_sym a1 x).
    destruct (Rltb_spec (Rabs (x - p)) (Rabs (x - a1))) as [H|H].
    + rewrite Rmin_left; lra.
    + rewrite Rmin_right; lra.
  - apply ssorted_cons_inv in Hs as [Hs Hlt].
    inversion Hb as [|? ? Hy Hb']; subst.
    rewrite gmd_loop_cons.
    destruct (Rltb_spec (Rabs (x - p)) (Rabs (x - y))) as [H|H].
    + (* early exit: x is left of the midpoint of p and y *)
      cbn [gmd_finish]. symmetry. apply fmin_keep.
      assert (Hxy : x < y) by (revert H; rmm; lra).
      assert (Hd : Rabs (x - p) < y - x) by (revert H; rmm; lra).
      intros c Hc. assert (Hyc : y <= c).
      { cbn [app] in Hc. destruct Hc as [->|Hc]; [lra|].
        apply in_app_or in Hc as [Hc|[->|[]]]; [|lra].
        rewrite Forall_forall in Hlt. apply Hlt in Hc. lra. }
      rewrite (Rabs_left1 (x - c)) by lra. lra.
    + cbn [app]. rewrite fmin_cons, Rmin_right by lra.
      apply IH; auto; [|lra].
      rewrite Forall_forall in *. intros z Hz.
      specialize (Hlt z Hz). specialize (Hb' z Hz). lra.
Qed.

Theorem get_min_dist_nearest : forall x l a0 a1,
  ssorted l -> Forall (fun y => a0 <= y <= a1) l -> a0 <= a1 ->
  get_min_dist ROps x l a0 a1 = nearest ROps (a0, a1) l x.
Proof.
  intros x l a0 a1 Hs Hb Ha.
  rewrite get_min_dist_R, nearest_R. apply gmd_loop_fmin; auto.
Qed.

(* ------------------------------------------------------------------ *)
(* 2. starting at a cursor whose spike is <= x loses nothing           *)

Lemma fmin_absorb x s0 l d :
  Rabs (x - s0) <= d -> fmin x (s0 :: l) d = fmin x l (Rabs (x - s0)).
Proof. intros H. rewrite fmin_cons, Rmin_right; auto. Qed.

Theorem nearest_suffix : forall a0 a1 pre suf x,
  ssorted (pre ++ suf) -> Forall (fun y => a0 <= y) (pre ++ suf) ->
  (exists s0, hd_error suf = Some s0 /\ s0 <= x) ->
  nearest ROps (a0, a1) (pre ++ suf) x = nearest ROps (a0, a1) suf x.
Proof.
  intros a0 a1 pre suf x Hs Hb (s0 & Hhd & Hx).
  destruct suf as [|s suf']; [discriminate|]. cbn in Hhd. injection Hhd as ->.
  rewrite !nearest_R. rewrite <- app_assoc, fmin_app. cbn [app].
  apply ssorted_app_inv in Hs as (_ & _ & Hlt).
  rewrite Forall_forall in Hb.
  assert (Ha0 : a0 <= s0) by (apply Hb, in_or_app; right; left; auto).
  assert (Hs0 : Rabs (x - s0) <= Rabs (x - a0)) by (rewrite !Rabs_right; lra).
  rewrite !fmin_absorb; auto.
  apply fmin_glb; auto.
  intros c Hc. assert (c < s0) by (apply Hlt; [auto|left; auto]).
  rewrite !Rabs_right; lra.
Qed.

(* the cursor is behind the last spike: only the last spike and the trailing
   auxiliary spike matter *)
Theorem nearest_all_before : forall a0 a1 pre x,
  ssorted pre -> Forall (fun y => a0 <= y <= x) pre ->
  nearest ROps (a0, a1) pre x = Rmin (Rabs (x - last pre a0)) (Rabs (x - a1)).
Proof.
  intros a0 a1 pre x Hs Hb.
  destruct pre as [|p0 pre0]; [rewrite nearest_R; reflexivity|].
  destruct (@exists_last _ (p0 :: pre0)) as (pre' & s0 & E); [discriminate|].
  rewrite E in *. clear E p0 pre0.
  rewrite last_last.
  assert (Hs0 : a0 <= s0 <= x).
  { rewrite Forall_forall in Hb. apply Hb, in_or_app; right; left; auto. }
  rewrite (nearest_suffix a0 a1 pre' [s0] x); auto.
  - rewrite nearest_R. cbn [app]. rewrite fmin_absorb, fmin_cons, fmin_nil; auto.
    rewrite !Rabs_right; lra.
  - eapply Forall_impl; [|apply Hb]. cbn; intros; lra.
  - exists s0; split; auto. lra.
Qed.

(* ------------------------------------------------------------------ *)
(* 3. the search on the suffix gives the nearest spike of the whole train *)

Theorem get_min_dist_suffix : forall a0 a1 pre suf x,
  ssorted (pre ++ suf) -> Forall (fun y => a0 <= y <= a1) (pre ++ suf) -> a0 <= a1 ->
  (exists s0, hd_error suf = Some s0 /\ s0 <= x) ->
  get_min_dist ROps x suf a0 a1 = nearest ROps (a0, a1) (pre ++ suf) x.
Proof.
  intros a0 a1 pre suf x Hs Hb Ha Hhd.
  rewrite nearest_suffix; auto.
  - apply get_min_dist_nearest; auto.
    + apply ssorted_app_inv in Hs; tauto.
    + apply Forall_app in Hb; tauto.
  - eapply Forall_impl; [|apply Hb]. cbn; intros; lra.
Qed.

(* the same in the zipper vocabulary of the model: the train is
   [rev past ++ fut], the search runs over [from_cursor past fut] *)
Corollary get_min_dist_from_cursor : forall a0 a1 past fut x,
  ssorted (rev past ++ fut) -> Forall (fun y => a0 <= y <= a1) (rev past ++ fut) -> a0 <= a1 ->
  (forall p, hd_error past = Some p -> p <= x) ->
  get_min_dist ROps x (from_cursor past fut) a0 a1 = nearest ROps (a0, a1) (rev past ++ fut) x.
Proof.
  intros a0 a1 past fut x Hs Hb Ha Hp.
  destruct past as [|p past']; cbn [from_cursor rev app] in *.
  - apply get_min_dist_nearest; auto.
  - rewrite <- app_assoc in *. cbn [app] in *.
    apply get_min_dist_suffix; auto.
    exists p; split; auto.
Qed.

(* ------------------------------------------------------------------ *)
(* 4./5. sign, and the value at a spike of the other train             *)

Theorem nearest_nonneg : forall aux w x, 0 <= nearest ROps aux w x.
Proof.
  intros [a0 a1] w x. rewrite nearest_R. apply fmin_nonneg, Rabs_pos.
Qed.

Theorem nearest_zero_at_spike : forall aux w x, In x w -> nearest ROps aux w x = 0.
Proof.
  intros [a0 a1] w x Hin. apply Rle_antisym; [|apply nearest_nonneg].
  rewrite nearest_R.
  replace 0 with (Rabs (x - x)) by (rewrite Rminus_diag_eq, Rabs_R0; auto).
  apply fmin_le_elem, in_or_app; auto.
Qed.

(* every spike (and both auxiliary spikes) is at least [nearest] away *)
Lemma nearest_le_elem : forall a0 a1 w x c,
  c = a0 \/ In c w \/ c = a1 -> nearest ROps (a0, a1) w x <= Rabs (x - c).
Proof.
  intros a0 a1 w x c H. rewrite nearest_R.
  destruct H as [->|[H| ->]].
  - apply fmin_le_start.
  - apply fmin_le_elem, in_or_app; auto.
  - apply fmin_le_elem, in_or_app; right; left; auto.
Qed.

(* ------------------------------------------------------------------ *)
(* 6. translation and scaling                                          *)

Lemma fmin_shift x c l d :
  fmin (x + c) (map (fun y => y + c) l) d = fmin x l d.
Proof.
  revert d; induction l as [|y l IH]; intros d; [reflexivity|].
  cbn [map]. rewrite !fmin_cons, IH.
  replace (x + c - (y + c)) with (x - y) by lra. reflexivity.
Qed.

Lemma Rmin_scale k a b : 0 <= k -> Rmin (k * a) (k * b) = k * Rmin a b.
Proof. intros Hk. unfold Rmin. destruct (Rle_dec a b), (Rle_dec (k * a) (k * b)); nra. Qed.

Lemma fmin_scale k x l d : 0 <= k ->
  fmin (k * x) (map (fun y => k * y) l) (k * d) = k * fmin x l d.
Proof.
  intros Hk. revert d; induction l as [|y l IH]; intros d; [reflexivity|].
  cbn [map]. rewrite !fmin_cons, <- IH. f_equal.
  rewrite <- Rmin_scale by auto. f_equal.
  rewrite <- Rmult_minus_distr_l, Rabs_mult, (Rabs_right k); lra.
Qed.

Theorem nearest_shift : forall a0 a1 w x c,
  nearest ROps (a0 + c, a1 + c) (map (fun y => y + c) w) (x + c) = nearest ROps (a0, a1) w x.
Proof.
  intros. rewrite !nearest_R.
  change [a1 + c] with (map (fun y => y + c) [a1]). rewrite <- map_app, fmin_shift.
  replace (x + c - (a0 + c)) with (x - a0) by lra. reflexivity.
Qed.

Theorem nearest_scale : forall a0 a1 w x k, 0 < k ->
  nearest ROps (k * a0, k * a1) (map (fun y => k * y) w) (k * x) = k * nearest ROps (a0, a1) w x.
Proof.
  intros a0 a1 w x k Hk. rewrite !nearest_R.
  change [k * a1] with (map (fun y => k * y) [a1]). rewrite <- map_app.
  rewrite <- fmin_scale by lra. f_equal.
  rewrite <- Rmult_minus_distr_l, Rabs_mult, (Rabs_right k); lra.
Qed.

(* ------------------------------------------------------------------ *)
(* 7.-9. auxiliary spikes                                              *)

Theorem t_aux_cy_eq : forall ts te s, t_aux_cy ROps ts te s = t_aux_py ROps ts te s.
Proof.
  intros ts te s. unfold t_aux_cy, t_aux_py.
  destruct s as [|x0 [|x1 s']]; try reflexivity.
  destruct (last2 (x0 :: x1 :: s')) as [[a b]|]; [|reflexivity].
  rops. f_equal; f_equal; lra.
Qed.

Theorem t_aux_py_spec : forall ts te s, t_aux_py ROps ts te s = aux_of ROps ts te s.
Proof.
  intros ts te s. unfold t_aux_py, aux_of, last2.
  destruct s as [|x0 [|x1 s']]; try reflexivity.
  destruct (rev (x0 :: x1 :: s')) as [|a [|b r]]; reflexivity.
Qed.

Corollary t_aux_cy_spec : forall ts te s, t_aux_cy ROps ts te s = aux_of ROps ts te s.
Proof. intros. rewrite t_aux_cy_eq. apply t_aux_py_spec. Qed.

Lemma aux_of_outside ts te s :
  fst (aux_of ROps ts te s) <= ts /\ te <= snd (aux_of ROps ts te s).
Proof.
  unfold aux_of.
  destruct s as [|x0 [|x1 s']]; cbn [fst snd]; try lra.
  destruct (rev (x0 :: x1 :: s')) as [|a [|b r]]; cbn [fst snd]; try lra.
  rops. split; [apply Rmin_l|apply Rmax_l].
Qed.

Theorem aux_bounds : forall ts te s, valid ts te s ->
  fst (aux_of ROps ts te s) <= ts /\ te <= snd (aux_of ROps ts te s) /\
  Forall (fun y => fst (aux_of ROps ts te s) <= y <= snd (aux_of ROps ts te s)) s.
Proof.
  intros ts te s (Hlt & Hs & Hb).
  destruct (aux_of_outside ts te s) as [H0 H1].
  repeat split; auto.
  eapply Forall_impl; [|apply Hb]. cbn; intros; lra.
Qed.

Corollary aux_ordered : forall ts te s, ts <= te ->
  fst (aux_of ROps ts te s) <= snd (aux_of ROps ts te s).
Proof. intros ts te s H. destruct (aux_of_outside ts te s); lra. Qed.

(* ------------------------------------------------------------------ *)
(* 10.-16. the instantaneous value [dist_at_t]                          *)

Lemma dist_at_t_R i1 i2 s1 s2 m ri :
  dist_at_t ROps i1 i2 s1 s2 m ri =
  if ri then ((s1 + s2) / 2) / Rmax m ((i1 + i2) / 2)
  else ((s1 * i2 + s2 * i1) / 2) / ((i1 + i2) / 2 * Rmax m ((i1 + i2) / 2)).
Proof. unfold dist_at_t, nhalfmul. rops. reflexivity. Qed.

Lemma Rdiv_le_anti a b b' : 0 <= a -> 0 < b -> b <= b' -> a / b' <= a / b.
Proof.
  intros Ha Hb Hbb. unfold Rdiv. apply Rmult_le_compat_l; auto.
  apply Rinv_le_contravar; auto.
Qed.

Lemma Rdiv_nonneg a b : 0 <= a -> 0 < b -> 0 <= a / b.
Proof. intros; apply Rle_mult_inv_pos; auto. Qed.

(* holds also for b = 0 because / 0 = 0 is a theorem of Coq >= 8.16 *)
Lemma Rdiv_scale k a b : k <> 0 -> (k * a) / (k * b) = a / b.
Proof.
  intros Hk. unfold Rdiv. rewrite Rinv_mult.
  replace (k * a * (/ k * / b)) with ((k * / k) * (a * / b)) by ring.
  rewrite Rinv_r by auto. ring.
Qed.

Theorem dist_at_t_nonneg : forall i1 i2 s1 s2 m ri,
  0 < i1 -> 0 < i2 -> 0 <= s1 -> 0 <= s2 -> 0 <= m ->
  0 <= dist_at_t ROps i1 i2 s1 s2 m ri.
Proof.
  intros i1 i2 s1 s2 m ri H1 H2 Hs1 Hs2 _. rewrite dist_at_t_R.
  assert (Hmean : 0 < (i1 + i2) / 2) by lra.
  assert (Hlim : 0 < Rmax m ((i1 + i2) / 2))
    by (eapply Rlt_le_trans; [apply Hmean|apply Rmax_r]).
  destruct ri; apply Rdiv_nonneg; try nra.
Qed.

Theorem dist_at_t_sym : forall i1 i2 s1 s2 m ri,
  dist_at_t ROps i1 i2 s1 s2 m ri = dist_at_t ROps i2 i1 s2 s1 m ri.
Proof.
  intros. rewrite !dist_at_t_R.
  replace (i2 + i1) with (i1 + i2) by lra.
  replace (s2 + s1) with (s1 + s2) by lra.
  replace (s2 * i1 + s1 * i2) with (s1 * i2 + s2 * i1) by lra.
  reflexivity.
Qed.

Theorem dist_at_t_mono_m : forall i1 i2 s1 s2 m m' ri,
  0 < i1 -> 0 < i2 -> 0 <= s1 -> 0 <= s2 -> 0 <= m -> m <= m' ->
  dist_at_t ROps i1 i2 s1 s2 m' ri <= dist_at_t ROps i1 i2 s1 s2 m ri.
Proof.
  intros i1 i2 s1 s2 m m' ri H1 H2 Hs1 Hs2 _ Hmm. rewrite !dist_at_t_R.
  assert (Hmean : 0 < (i1 + i2) / 2) by lra.
  set (mean := (i1 + i2) / 2) in *.
  assert (Hlim : 0 < Rmax m mean)
    by (eapply Rlt_le_trans; [apply Hmean|apply Rmax_r]).
  assert (Hle : Rmax m mean <= Rmax m' mean) by (apply Rle_max_compat_r; auto).
  destruct ri; apply Rdiv_le_anti; try nra.
Qed.

(* Without [0 <= i1 + i2] the statement is false (x / 0 = 0):
   i1 = i2 = -1, s1 = s2 = 1, m = -1 gives -1 on the left and 0 on the right. *)
Theorem dist_at_t_noop : forall i1 i2 s1 s2 m ri,
  0 <= i1 + i2 -> m <= (i1 + i2) / 2 ->
  dist_at_t ROps i1 i2 s1 s2 m ri = dist_at_t ROps i1 i2 s1 s2 0 ri.
Proof.
  intros i1 i2 s1 s2 m ri H Hm. rewrite !dist_at_t_R.
  rewrite !(Rmax_right _ ((i1 + i2) / 2)) by lra. reflexivity.
Qed.

Theorem dist_at_t_plain_false : forall i1 i2 s1 s2,
  0 < i1 -> 0 < i2 ->
  dist_at_t ROps i1 i2 s1 s2 0 false = (s1 * i2 + s2 * i1) / (2 * ((i1 + i2) / 2) ^ 2).
Proof.
  intros i1 i2 s1 s2 H1 H2. rewrite dist_at_t_R.
  rewrite Rmax_right by lra. field. lra.
Qed.

Theorem dist_at_t_plain_true : forall i1 i2 s1 s2,
  0 < i1 -> 0 < i2 ->
  dist_at_t ROps i1 i2 s1 s2 0 true = (s1 + s2) / (i1 + i2).
Proof.
  intros i1 i2 s1 s2 H1 H2. rewrite dist_at_t_R.
  rewrite Rmax_right by lra. field. lra.
Qed.

(* unconditional in i1 i2 m: a zero denominator is zero on both sides *)
Theorem dist_at_t_scale : forall k i1 i2 s1 s2 m ri, 0 < k ->
  dist_at_t ROps (k * i1) (k * i2) (k * s1) (k * s2) (k * m) ri = dist_at_t ROps i1 i2 s1 s2 m ri.
Proof.
  intros k i1 i2 s1 s2 m ri Hk. rewrite !dist_at_t_R.
  replace ((k * i1 + k * i2) / 2) with (k * ((i1 + i2) / 2)) by lra.
  rewrite RmaxRmult by lra.
  set (mean := (i1 + i2) / 2). set (lim := Rmax m mean).
  destruct ri.
  - replace ((k * s1 + k * s2) / 2) with (k * ((s1 + s2) / 2)) by lra.
    apply Rdiv_scale; lra.
  - replace ((k * s1 * (k * i2) + k * s2 * (k * i1)) / 2)
      with ((k * k) * ((s1 * i2 + s2 * i1) / 2)) by lra.
    replace (k * mean * (k * lim)) with ((k * k) * (mean * lim)) by ring.
    apply Rdiv_scale; nra.
Qed.

Theorem dist_at_t_zero : forall i1 i2 m ri, dist_at_t ROps i1 i2 0 0 m ri = 0.
Proof.
  intros. rewrite dist_at_t_R. destruct ri; unfold Rdiv; ring.
Qed.

(* ------------------------------------------------------------------ *)
(* 17. the combination formula of the specification is [dist_at_t]     *)

Theorem spike_at_eq_dist_at_t : forall ts te m ri u1 u2 tm t,
  spike_at ROps ts te m ri u1 u2 tm t =
  (let '(c1, i1) := contrib ROps ts te u1 u2 tm t in
   let '(c2, i2) := contrib ROps ts te u2 u1 tm t in
   dist_at_t ROps i1 i2 c1 c2 m ri).
Proof.
  intros. unfold spike_at.
  destruct (contrib ROps ts te u1 u2 tm t) as [c1 i1].
  destruct (contrib ROps ts te u2 u1 tm t) as [c2 i2].
  reflexivity.
Qed.

Print Assumptions get_min_dist_nearest.
Print Assumptions get_min_dist_suffix.
Print Assumptions dist_at_t_mono_m.
Print Assumptions t_aux_cy_eq.
