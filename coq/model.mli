
val negb : bool -> bool

type nat =
| O
| S of nat

val fst : ('a1 * 'a2) -> 'a1

val snd : ('a1 * 'a2) -> 'a2

val length : 'a1 list -> nat

val app : 'a1 list -> 'a1 list -> 'a1 list

type comparison =
| Eq
| Lt
| Gt

val compOpp : comparison -> comparison

val add : nat -> nat -> nat

val mul : nat -> nat -> nat

val sub : nat -> nat -> nat

module Nat :
 sig
  val sub : nat -> nat -> nat

  val eqb : nat -> nat -> bool

  val leb : nat -> nat -> bool

  val ltb : nat -> nat -> bool

  val divmod : nat -> nat -> nat -> nat -> nat * nat

  val modulo : nat -> nat -> nat

  val div2 : nat -> nat
 end

val hd_error : 'a1 list -> 'a1 option

val tl : 'a1 list -> 'a1 list

val nth : nat -> 'a1 list -> 'a1 -> 'a1

val nth_error : 'a1 list -> nat -> 'a1 option

val last : 'a1 list -> 'a1 -> 'a1

val removelast : 'a1 list -> 'a1 list

val rev : 'a1 list -> 'a1 list

val map : ('a1 -> 'a2) -> 'a1 list -> 'a2 list

val flat_map : ('a1 -> 'a2 list) -> 'a1 list -> 'a2 list

val fold_left : ('a1 -> 'a2 -> 'a1) -> 'a2 list -> 'a1 -> 'a1

val fold_right : ('a2 -> 'a1 -> 'a1) -> 'a1 -> 'a2 list -> 'a1

val existsb : ('a1 -> bool) -> 'a1 list -> bool

val forallb : ('a1 -> bool) -> 'a1 list -> bool

val filter : ('a1 -> bool) -> 'a1 list -> 'a1 list

val find : ('a1 -> bool) -> 'a1 list -> 'a1 option

val combine : 'a1 list -> 'a2 list -> ('a1 * 'a2) list

val firstn : nat -> 'a1 list -> 'a1 list

val skipn : nat -> 'a1 list -> 'a1 list

val seq : nat -> nat -> nat list

val repeat : 'a1 -> nat -> 'a1 list

type positive =
| XI of positive
| XO of positive
| XH

type z =
| Z0
| Zpos of positive
| Zneg of positive

module Pos :
 sig
  type mask =
  | IsNul
  | IsPos of positive
  | IsNeg
 end

module Coq_Pos :
 sig
  val succ : positive -> positive

  val add : positive -> positive -> positive

  val add_carry : positive -> positive -> positive

  val pred_double : positive -> positive

  type mask = Pos.mask =
  | IsNul
  | IsPos of positive
  | IsNeg

  val succ_double_mask : mask -> mask

  val double_mask : mask -> mask

  val double_pred_mask : positive -> mask

  val sub_mask : positive -> positive -> mask

  val sub_mask_carry : positive -> positive -> mask

  val sub : positive -> positive -> positive

  val mul : positive -> positive -> positive

  val size_nat : positive -> nat

  val compare_cont : comparison -> positive -> positive -> comparison

  val compare : positive -> positive -> comparison

  val ggcdn : nat -> positive -> positive -> positive * (positive * positive)

  val ggcd : positive -> positive -> positive * (positive * positive)

  val of_succ_nat : nat -> positive
 end

module Z :
 sig
  val double : z -> z

  val succ_double : z -> z

  val pred_double : z -> z

  val pos_sub : positive -> positive -> z

  val add : z -> z -> z

  val opp : z -> z

  val mul : z -> z -> z

  val compare : z -> z -> comparison

  val sgn : z -> z

  val abs : z -> z

  val of_nat : nat -> z

  val to_pos : z -> positive

  val ggcd : z -> z -> z * (z * z)
 end

type q = { qnum : z; qden : positive }

val inject_Z : z -> q

val qcompare : q -> q -> comparison

val qplus : q -> q -> q

val qmult : q -> q -> q

val qopp : q -> q

val qminus : q -> q -> q

val qinv : q -> q

val qdiv : q -> q -> q

val qred : q -> q

type 'f numOps = { n0 : 'f; n1 : 'f; nadd : ('f -> 'f -> 'f);
                   nsub : ('f -> 'f -> 'f); nmul : ('f -> 'f -> 'f);
                   ndiv : ('f -> 'f -> 'f); nltb : ('f -> 'f -> bool);
                   neqb : ('f -> 'f -> bool); nofZ : (z -> 'f) }

val nleb : 'a1 numOps -> 'a1 -> 'a1 -> bool

val ngtb : 'a1 numOps -> 'a1 -> 'a1 -> bool

val nmax : 'a1 numOps -> 'a1 -> 'a1 -> 'a1

val nmin : 'a1 numOps -> 'a1 -> 'a1 -> 'a1

val nabs : 'a1 numOps -> 'a1 -> 'a1

val n2 : 'a1 numOps -> 'a1

val n4 : 'a1 numOps -> 'a1

val nofnat : 'a1 numOps -> nat -> 'a1

val nsum : 'a1 numOps -> 'a1 list -> 'a1

val qltb : q -> q -> bool

val qeqb : q -> q -> bool

val qOps : q numOps

val isi_ratio : 'a1 numOps -> 'a1 -> 'a1 -> 'a1 -> 'a1

val isi_ratio_cy : 'a1 numOps -> 'a1 -> 'a1 -> 'a1 -> 'a1

val nu_after : 'a1 numOps -> 'a1 -> 'a1 list -> 'a1 list -> 'a1

val isi_init :
  'a1 numOps -> 'a1 -> 'a1 -> 'a1 list -> ('a1 list * 'a1 list) * 'a1

val isi_loop :
  'a1 numOps -> nat -> 'a1 -> 'a1 list -> 'a1 list -> 'a1 -> 'a1 list -> 'a1
  list -> 'a1 -> (('a1 * 'a1) * 'a1) list

val nu_after_cy : 'a1 numOps -> 'a1 -> 'a1 -> 'a1 list -> 'a1 list -> 'a1

val isi_loop_cy :
  'a1 numOps -> nat -> 'a1 -> 'a1 list -> 'a1 list -> 'a1 -> 'a1 list -> 'a1
  list -> 'a1 -> (('a1 * 'a1) * 'a1) list

val ev_t : (('a1 * 'a1) * 'a1) -> 'a1

val isi_scan :
  'a1 numOps -> 'a1 -> 'a1 -> 'a1 list -> 'a1 list ->
  ('a1 * 'a1) * (('a1 * 'a1) * 'a1) list

val isi_scan_cy :
  'a1 numOps -> 'a1 -> 'a1 -> 'a1 list -> 'a1 list ->
  ('a1 * 'a1) * (('a1 * 'a1) * 'a1) list

val close_profile :
  'a1 numOps -> 'a1 -> 'a1 list -> 'a2 list -> 'a1 list * 'a2 list

val isi_profile_gen :
  'a1 numOps -> ('a1 -> 'a1 -> 'a1 -> 'a1) -> ('a1 -> 'a1 -> 'a1 list -> 'a1
  list -> ('a1 * 'a1) * (('a1 * 'a1) * 'a1) list) -> 'a1 list -> 'a1 list ->
  'a1 -> 'a1 -> 'a1 -> 'a1 list * 'a1 list

val isi_profile_py :
  'a1 numOps -> 'a1 list -> 'a1 list -> 'a1 -> 'a1 -> 'a1 -> 'a1 list * 'a1
  list

val isi_profile_cy :
  'a1 numOps -> 'a1 list -> 'a1 list -> 'a1 -> 'a1 -> 'a1 -> 'a1 list * 'a1
  list

val isi_acc :
  'a1 numOps -> 'a1 -> (('a1 * 'a1) * 'a1) list -> 'a1 -> 'a1 -> 'a1 ->
  ('a1 * 'a1) * 'a1

val isi_distance_cy :
  'a1 numOps -> 'a1 list -> 'a1 list -> 'a1 -> 'a1 -> 'a1 -> 'a1

val gmd_loop : 'a1 numOps -> 'a1 -> 'a1 list -> 'a1 -> bool * 'a1

val get_min_dist : 'a1 numOps -> 'a1 -> 'a1 list -> 'a1 -> 'a1 -> 'a1

val from_cursor : 'a1 list -> 'a1 list -> 'a1 list

val nhalfmul : 'a1 numOps -> 'a1 -> 'a1

val dist_at_t : 'a1 numOps -> 'a1 -> 'a1 -> 'a1 -> 'a1 -> 'a1 -> bool -> 'a1

val last2 : 'a1 list -> ('a1 * 'a1) option

val t_aux_py : 'a1 numOps -> 'a1 -> 'a1 -> 'a1 list -> 'a1 * 'a1

val t_aux_cy : 'a1 numOps -> 'a1 -> 'a1 -> 'a1 list -> 'a1 * 'a1

type 'f sst = { s_past : 'f list; s_fut : 'f list; s_tp : 'f; s_tf : 
                'f; s_dtp : 'f; s_dtf : 'f; s_isi : 'f; s_s : 'f }

val end_isi : 'a1 numOps -> 'a1 -> 'a1 -> 'a1 list -> 'a1

val spike_init :
  'a1 numOps -> 'a1 -> 'a1 -> 'a1 list -> 'a1 list -> ('a1 * 'a1) ->
  ('a1 * 'a1) -> 'a1 sst

val spike_adv :
  'a1 numOps -> 'a1 -> 'a1 -> bool -> ('a1 * 'a1) -> ('a1 * 'a1) -> 'a1 sst
  -> 'a1 sst -> bool -> ((('a1 * 'a1) * 'a1) * 'a1 sst) * 'a1 sst

val spike_both_one :
  'a1 numOps -> 'a1 -> ('a1 * 'a1) -> ('a1 * 'a1) -> 'a1 sst -> 'a1 list ->
  'a1 list -> 'a1 sst

val spike_loop :
  'a1 numOps -> nat -> 'a1 -> 'a1 -> bool -> ('a1 * 'a1) -> ('a1 * 'a1) ->
  'a1 sst -> 'a1 sst -> (('a1 * 'a1) * 'a1) list

val spike_final :
  'a1 numOps -> nat -> 'a1 -> 'a1 -> bool -> ('a1 * 'a1) -> ('a1 * 'a1) ->
  'a1 sst -> 'a1 sst -> 'a1 sst * 'a1 sst

val spike_profile_gen :
  'a1 numOps -> ('a1 -> 'a1 -> 'a1 list -> 'a1 * 'a1) -> 'a1 list -> 'a1 list
  -> 'a1 -> 'a1 -> 'a1 -> bool -> ('a1 list * 'a1 list) * 'a1 list

val spike_profile_py :
  'a1 numOps -> 'a1 list -> 'a1 list -> 'a1 -> 'a1 -> 'a1 -> bool -> ('a1
  list * 'a1 list) * 'a1 list

val spike_profile_cy :
  'a1 numOps -> 'a1 list -> 'a1 list -> 'a1 -> 'a1 -> 'a1 -> bool -> ('a1
  list * 'a1 list) * 'a1 list

val spike_acc :
  'a1 numOps -> (('a1 * 'a1) * 'a1) list -> 'a1 -> 'a1 -> 'a1 ->
  ('a1 * 'a1) * 'a1

val spike_distance_cy :
  'a1 numOps -> 'a1 list -> 'a1 list -> 'a1 -> 'a1 -> 'a1 -> bool -> 'a1

type 'f ctx = { c_prev : 'f option; c_cur : 'f; c_next : 'f option }

val ctx_of : 'a1 list -> 'a1 list -> 'a1 ctx option

val gapF : 'a1 numOps -> 'a1 -> 'a1 ctx option -> 'a1

val gapP : 'a1 numOps -> 'a1 -> 'a1 ctx option -> 'a1

val interp : 'a1 numOps -> 'a1 -> 'a1 -> 'a1 -> 'a1

val interp_cy : 'a1 numOps -> 'a1 -> 'a1 -> 'a1 -> 'a1

val first_le : 'a1 numOps -> 'a1 ctx option -> 'a1 ctx option -> bool

val get_tau_gen :
  'a1 numOps -> ('a1 -> 'a1 -> 'a1 -> 'a1) -> 'a1 ctx option -> 'a1 ctx
  option -> 'a1 -> 'a1 -> 'a1

val get_tau :
  'a1 numOps -> 'a1 ctx option -> 'a1 ctx option -> 'a1 -> 'a1 -> 'a1

val get_tau_cy :
  'a1 numOps -> 'a1 ctx option -> 'a1 ctx option -> 'a1 -> 'a1 -> 'a1

val true_max : 'a1 numOps -> 'a1 -> 'a1 -> 'a1 -> 'a1

type 'f sev =
| Adv1 of 'f * bool
| Adv2 of 'f * bool
| Both of 'f

val coinc_events :
  'a1 numOps -> ('a1 ctx option -> 'a1 ctx option -> 'a1) -> nat -> 'a1 list
  -> 'a1 list -> 'a1 list -> 'a1 list -> 'a1 sev list

val set_head_val : 'a1 -> (('a1 * 'a1) * 'a1) list -> (('a1 * 'a1) * 'a1) list

val mark_events :
  'a1 numOps -> 'a1 -> 'a1 -> 'a1 -> 'a1 sev list -> (('a1 * 'a1) * 'a1) list
  -> (('a1 * 'a1) * 'a1) list

val e_y : (('a1 * 'a1) * 'a1) -> 'a1

val e_mp : (('a1 * 'a1) * 'a1) -> 'a1

val frame_profile :
  'a1 numOps -> 'a1 -> 'a1 -> (('a1 * 'a1) * 'a1) list -> (('a1 * 'a1) * 'a1)
  list

val coinc_scan :
  'a1 numOps -> ('a1 ctx option -> 'a1 ctx option -> 'a1) -> 'a1 list -> 'a1
  list -> 'a1 sev list

val tau_fn :
  'a1 numOps -> ('a1 ctx option -> 'a1 ctx option -> 'a1 -> 'a1 -> 'a1) ->
  'a1 -> 'a1 -> 'a1 -> 'a1 -> 'a1 ctx option -> 'a1 ctx option -> 'a1

val coincidence_profile_gen :
  'a1 numOps -> ('a1 ctx option -> 'a1 ctx option -> 'a1 -> 'a1 -> 'a1) ->
  'a1 list -> 'a1 list -> 'a1 -> 'a1 -> 'a1 -> 'a1 -> (('a1 * 'a1) * 'a1) list

val order_profile_gen :
  'a1 numOps -> ('a1 ctx option -> 'a1 ctx option -> 'a1 -> 'a1 -> 'a1) ->
  'a1 list -> 'a1 list -> 'a1 -> 'a1 -> 'a1 -> 'a1 -> (('a1 * 'a1) * 'a1) list

val coinc_value : 'a1 numOps -> 'a1 sev list -> 'a1 -> 'a1 -> 'a1 * 'a1

val coincidence_value_gen :
  'a1 numOps -> ('a1 ctx option -> 'a1 ctx option -> 'a1 -> 'a1 -> 'a1) ->
  'a1 list -> 'a1 list -> 'a1 -> 'a1 -> 'a1 -> 'a1 -> 'a1 * 'a1

val order_value : 'a1 numOps -> 'a1 sev list -> 'a1 -> 'a1 -> 'a1 * 'a1

val set_head : 'a1 -> 'a1 list -> 'a1 list

val dir_marks :
  'a1 numOps -> 'a1 sev list -> 'a1 list -> 'a1 list -> 'a1 list * 'a1 list

val directionality_profile_gen :
  'a1 numOps -> ('a1 ctx option -> 'a1 ctx option -> 'a1 -> 'a1 -> 'a1) ->
  'a1 list -> 'a1 list -> 'a1 -> 'a1 -> 'a1 -> 'a1 -> 'a1 list * 'a1 list

val dir_value : 'a1 numOps -> 'a1 sev list -> 'a1 -> 'a1

val skip_before :
  'a1 numOps -> 'a1 -> 'a1 list -> 'a1 list -> 'a1 list * 'a1 list

val coinc_single_loop :
  'a1 numOps -> ('a1 ctx option -> 'a1 ctx option -> 'a1) -> 'a1 list -> 'a1
  list -> 'a1 list -> 'a1 list -> 'a1 list

val coincidence_single_gen :
  'a1 numOps -> ('a1 ctx option -> 'a1 ctx option -> 'a1 -> 'a1 -> 'a1) ->
  'a1 list -> 'a1 list -> 'a1 -> 'a1 -> 'a1 -> 'a1 -> 'a1 list

type err =
| AssertionError
| IndexError
| ValueError
| NotImplementedError
| ZeroDivisionError
| OutOfFuel
| BadArgs

type 'a res =
| Ok of 'a
| Err of err

val rbind : 'a1 res -> ('a1 -> 'a2 res) -> 'a2 res

val rmap : ('a1 -> 'a2) -> 'a1 res -> 'a2 res

val nthF : 'a1 numOps -> 'a1 list -> nat -> 'a1

val lastF : 'a1 numOps -> 'a1 list -> 'a1

val sumF : 'a1 numOps -> 'a1 list -> 'a1

val count_le : 'a1 numOps -> 'a1 -> 'a1 list -> nat

val count_lt : 'a1 numOps -> 'a1 -> 'a1 list -> nat

val slice : 'a1 list -> nat -> nat -> 'a1 list

type 'f pwc = 'f list * 'f list

val pwc_int_all : 'a1 numOps -> 'a1 list -> 'a1 list -> 'a1

val pwc_integral : 'a1 numOps -> 'a1 pwc -> ('a1 * 'a1) option -> 'a1 res

type 'f ivspec =
| IvNone
| IvOne of 'f * 'f
| IvMany of ('f * 'f) list

val sum_res : 'a1 numOps -> 'a1 res list -> 'a1 res

val avrg_gen :
  'a1 numOps -> (('a1 * 'a1) option -> 'a1 res) -> 'a1 -> 'a1 -> 'a1 ivspec
  -> 'a1 res

val pwc_avrg : 'a1 numOps -> 'a1 pwc -> 'a1 ivspec -> 'a1 res

val pwc_call_scalar : 'a1 numOps -> 'a1 pwc -> 'a1 -> 'a1 res

val pwc_call_seq1 : 'a1 numOps -> 'a1 pwc -> 'a1 -> 'a1 res

val dup : 'a1 list -> 'a1 list

val plot_x : 'a1 list -> 'a1 list

val pwc_plottable : 'a1 pwc -> 'a1 list * 'a1 list

val pwc_add_loop :
  'a1 numOps -> nat -> 'a1 -> ('a1 * 'a1) list -> 'a1 -> ('a1 * 'a1) list ->
  ('a1 * 'a1) list * ((('a1 * ('a1 * 'a1) list) * 'a1) * ('a1 * 'a1) list)

val interior : 'a1 list -> 'a1 list -> ('a1 * 'a1) list

val pwc_add : 'a1 numOps -> 'a1 pwc -> 'a1 pwc -> 'a1 pwc res

val pwc_mul : 'a1 numOps -> 'a1 pwc -> 'a1 -> 'a1 pwc

type 'f pwl = ('f list * 'f list) * 'f list

val interm : 'a1 numOps -> 'a1 -> 'a1 -> 'a1 -> 'a1 -> 'a1 -> 'a1

val pwl_int_all : 'a1 numOps -> 'a1 list -> 'a1 list -> 'a1 list -> 'a1

val pwl_integral : 'a1 numOps -> 'a1 pwl -> ('a1 * 'a1) option -> 'a1 res

val pwl_avrg : 'a1 numOps -> 'a1 pwl -> 'a1 ivspec -> 'a1 res

val pwl_call_scalar : 'a1 numOps -> 'a1 pwl -> 'a1 -> 'a1 res

val pwl_call_seq1 : 'a1 numOps -> 'a1 pwl -> 'a1 -> 'a1 res

val interleave : 'a1 list -> 'a1 list -> 'a1 list

val pwl_plottable : 'a1 pwl -> 'a1 list * 'a1 list

type 'f lpiece = (('f * 'f) * 'f) * 'f

val lp_at : 'a1 numOps -> 'a1 lpiece -> 'a1 -> 'a1

val lp_ya : 'a1 lpiece -> 'a1

val lp_yb : 'a1 lpiece -> 'a1

val lp_xr : 'a1 lpiece -> 'a1

val lpieces : 'a1 list -> 'a1 list -> 'a1 list -> 'a1 lpiece list

val pwl_add_loop :
  'a1 numOps -> nat -> 'a1 lpiece -> 'a1 lpiece list -> 'a1 lpiece -> 'a1
  lpiece list -> (('a1 * 'a1) * 'a1) list * ((('a1 lpiece * 'a1 lpiece
  list) * 'a1 lpiece) * 'a1 lpiece list)

val pwl_add_tail :
  'a1 numOps -> 'a1 lpiece -> 'a1 lpiece list -> 'a1 lpiece ->
  (('a1 * 'a1) * 'a1) list

val pwl_add : 'a1 numOps -> 'a1 pwl -> 'a1 pwl -> 'a1 pwl res

val pwl_mul : 'a1 numOps -> 'a1 pwl -> 'a1 -> 'a1 pwl

type 'f dentry = ('f * 'f) * 'f

val d_x : 'a1 dentry -> 'a1

val d_y : 'a1 dentry -> 'a1

val d_mp : 'a1 dentry -> 'a1

val df_sum : 'a1 numOps -> 'a1 dentry list -> 'a1 * 'a1

val df_integral1 :
  'a1 numOps -> 'a1 dentry list -> ('a1 * 'a1) option -> ('a1 * 'a1) res

val sum_res2 : 'a1 numOps -> ('a1 * 'a1) res list -> ('a1 * 'a1) res

val df_integral :
  'a1 numOps -> 'a1 dentry list -> 'a1 ivspec -> ('a1 * 'a1) res

val df_avrg : 'a1 numOps -> 'a1 dentry list -> 'a1 ivspec -> bool -> 'a1 res

val df_add_loop :
  'a1 numOps -> nat -> 'a1 dentry list -> 'a1 dentry list -> 'a1 dentry
  list * ('a1 dentry list * 'a1 dentry list)

val df_add :
  'a1 numOps -> 'a1 dentry list -> 'a1 dentry list -> 'a1 dentry list res

val df_side : 'a1 numOps -> 'a1 -> 'a1 -> 'a1 -> 'a1 dentry list -> 'a1 * 'a1

val df_plot_loop :
  'a1 numOps -> 'a1 -> 'a1 dentry list -> 'a1 dentry list -> 'a1 list

val df_plottable : 'a1 numOps -> 'a1 dentry list -> nat -> 'a1 list * 'a1 list

type 'f train = ('f list * 'f) * 'f

val tr_spikes : 'a1 train -> 'a1 list

val tr_start : 'a1 train -> 'a1

val tr_end : 'a1 train -> 'a1

val insert_u : 'a1 numOps -> 'a1 -> 'a1 list -> 'a1 list

val sort_unique : 'a1 numOps -> 'a1 list -> 'a1 list

val insert_s : 'a1 numOps -> 'a1 -> 'a1 list -> 'a1 list

val sort_list : 'a1 numOps -> 'a1 list -> 'a1 list

val min_list : 'a1 numOps -> 'a1 -> 'a1 list -> 'a1

val max_list : 'a1 numOps -> 'a1 -> 'a1 list -> 'a1

val reconcile : 'a1 numOps -> 'a1 -> 'a1 train list -> 'a1 train list

val spikes_non_empty : 'a1 numOps -> 'a1 train -> 'a1 list

val diffs : 'a1 numOps -> 'a1 list -> 'a1 list

val isi_lengths : 'a1 numOps -> 'a1 list -> 'a1 -> 'a1 -> 'a1 list

val default_thresh_sq : 'a1 numOps -> 'a1 train list -> 'a1

val prep2 :
  'a1 numOps -> 'a1 -> bool -> 'a1 train -> 'a1 train -> 'a1 train * 'a1 train

val isi_profile_bi :
  'a1 numOps -> 'a1 -> bool -> bool -> 'a1 -> 'a1 train -> 'a1 train -> 'a1
  pwc

val spike_profile_bi :
  'a1 numOps -> 'a1 -> bool -> bool -> 'a1 -> bool -> 'a1 train -> 'a1 train
  -> 'a1 pwl

val gt_of :
  'a1 numOps -> bool -> 'a1 ctx option -> 'a1 ctx option -> 'a1 -> 'a1 -> 'a1

val spike_sync_profile_bi :
  'a1 numOps -> 'a1 -> bool -> bool -> 'a1 -> 'a1 -> 'a1 train -> 'a1 train
  -> 'a1 dentry list

val order_profile_bi :
  'a1 numOps -> 'a1 -> bool -> bool -> 'a1 -> 'a1 -> 'a1 train -> 'a1 train
  -> 'a1 dentry list res

val iv_of : ('a1 * 'a1) option -> 'a1 ivspec

val isi_distance_bi :
  'a1 numOps -> 'a1 -> bool -> bool -> 'a1 -> ('a1 * 'a1) option -> 'a1 train
  -> 'a1 train -> 'a1 res

val spike_distance_bi :
  'a1 numOps -> 'a1 -> bool -> bool -> 'a1 -> bool -> ('a1 * 'a1) option ->
  'a1 train -> 'a1 train -> 'a1 res

val spike_sync_values :
  'a1 numOps -> 'a1 -> bool -> 'a1 -> 'a1 -> ('a1 * 'a1) option -> 'a1 train
  -> 'a1 train -> ('a1 * 'a1) res

val spike_sync_bi :
  'a1 numOps -> 'a1 -> bool -> bool -> 'a1 -> 'a1 -> ('a1 * 'a1) option ->
  'a1 train -> 'a1 train -> 'a1 res

val pairs_of : nat list -> (nat * nat) list

val check_indices : nat -> nat list -> bool

val indices_or_all : nat -> nat list option -> nat list

val dc :
  ('a1 -> 'a1 -> 'a1 res) -> ((nat * nat) -> 'a1 res) -> nat -> (nat * nat)
  list -> 'a1 res

val nth_train : 'a1 numOps -> 'a1 train list -> nat -> 'a1 train

val profile_multi_gen :
  'a1 numOps -> 'a1 -> ('a2 -> 'a2 -> 'a2 res) -> ('a1 train -> 'a1 train ->
  'a2 res) -> bool -> 'a1 train list -> nat list option -> ('a2 * nat) res

val isi_profile_multi :
  'a1 numOps -> 'a1 -> bool -> bool -> 'a1 -> 'a1 train list -> nat list
  option -> 'a1 pwc res

val spike_profile_multi :
  'a1 numOps -> 'a1 -> bool -> bool -> 'a1 -> bool -> 'a1 train list -> nat
  list option -> 'a1 pwl res

val spike_sync_profile_multi :
  'a1 numOps -> 'a1 -> bool -> bool -> 'a1 -> 'a1 -> 'a1 train list -> nat
  list option -> 'a1 dentry list res

val order_profile_multi :
  'a1 numOps -> 'a1 -> bool -> bool -> 'a1 -> 'a1 -> 'a1 train list -> nat
  list option -> 'a1 dentry list res

val distance_multi_gen :
  'a1 numOps -> 'a1 -> ('a1 train -> 'a1 train -> 'a1 res) -> bool -> 'a1
  train list -> nat list option -> 'a1 res

val isi_distance_multi :
  'a1 numOps -> 'a1 -> bool -> bool -> 'a1 -> ('a1 * 'a1) option -> 'a1 train
  list -> nat list option -> 'a1 res

val spike_distance_multi :
  'a1 numOps -> 'a1 -> bool -> bool -> 'a1 -> bool -> ('a1 * 'a1) option ->
  'a1 train list -> nat list option -> 'a1 res

val matrix_gen :
  'a1 numOps -> 'a1 -> ('a1 train -> 'a1 train -> 'a1 res) -> 'a1 -> ('a1 ->
  'a1) -> bool -> 'a1 train list -> nat list option -> 'a1 list list res

val isi_distance_matrix :
  'a1 numOps -> 'a1 -> bool -> bool -> 'a1 -> ('a1 * 'a1) option -> 'a1 train
  list -> nat list option -> 'a1 list list res

val spike_distance_matrix :
  'a1 numOps -> 'a1 -> bool -> bool -> 'a1 -> bool -> ('a1 * 'a1) option ->
  'a1 train list -> nat list option -> 'a1 list list res

val spike_sync_matrix :
  'a1 numOps -> 'a1 -> bool -> bool -> 'a1 -> 'a1 -> ('a1 * 'a1) option ->
  'a1 train list -> nat list option -> 'a1 list list res

val spike_sync_multi :
  'a1 numOps -> 'a1 -> bool -> bool -> 'a1 -> 'a1 -> ('a1 * 'a1) option ->
  'a1 train list -> nat list option -> 'a1 res

val sumlists : 'a1 numOps -> 'a1 list list -> nat -> 'a1 list

val others : 'a1 list -> nat -> 'a1 list

val filter_by_spike_sync :
  'a1 numOps -> 'a1 -> bool -> bool -> 'a1 -> 'a1 -> 'a1 -> 'a1 train list ->
  ('a1 train * 'a1 train) list

val order_impl :
  'a1 numOps -> 'a1 -> bool -> 'a1 -> 'a1 -> 'a1 train -> 'a1 train ->
  ('a1 * 'a1) res

val spike_train_order_bi :
  'a1 numOps -> 'a1 -> bool -> bool -> bool -> 'a1 -> 'a1 -> 'a1 train -> 'a1
  train -> 'a1 res

val spike_train_order_multi :
  'a1 numOps -> 'a1 -> bool -> bool -> bool -> 'a1 -> 'a1 -> 'a1 train list
  -> nat list option -> 'a1 res

val add_at : 'a1 numOps -> nat -> 'a1 list -> 'a1 list list -> 'a1 list list

val directionality_values :
  'a1 numOps -> 'a1 -> bool -> bool -> 'a1 -> 'a1 -> 'a1 train list -> nat
  list option -> 'a1 list list res

val spike_directionality :
  'a1 numOps -> 'a1 -> bool -> bool -> bool -> 'a1 -> 'a1 -> 'a1 train -> 'a1
  train -> 'a1 res

val spike_directionality_matrix :
  'a1 numOps -> 'a1 -> bool -> bool -> bool -> 'a1 -> 'a1 -> 'a1 train list
  -> nat list option -> 'a1 list list res

val merge_spike_trains : 'a1 numOps -> 'a1 train list -> 'a1 train

val time_series_row : 'a1 numOps -> 'a1 -> 'a1 -> bool list -> 'a1 train

val hist_counts : 'a1 numOps -> 'a1 list -> 'a1 list -> 'a1 list

val upd : 'a1 list -> nat -> 'a1 -> 'a1 list

type obj = { rx : nat; ry : nat }

type 'f op =
| OAdd of nat * nat
| OMul of nat * 'f
| OCopy of nat
| ONew of 'f list * 'f list

type 'f store = 'f list option list

type 'f state = { st_store : 'f store; st_objs : obj list; st_errs : err list }

val empty_state : 'a1 state

val alloc : 'a1 store -> 'a1 list -> 'a1 store * nat

val sread : 'a1 store -> nat -> 'a1 list option

val swrite : 'a1 store -> nat -> 'a1 list -> 'a1 store

val read_obj : 'a1 store -> obj -> 'a1 pwc option

val denote : 'a1 state -> nat -> 'a1 pwc option

val fail : 'a1 state -> err -> 'a1 state

val alloc2 : 'a1 store -> 'a1 list -> 'a1 list -> 'a1 store * obj

val new_obj : 'a1 state -> 'a1 list -> 'a1 list -> 'a1 state

val step : 'a1 numOps -> 'a1 op -> 'a1 state -> 'a1 state

val run : 'a1 numOps -> 'a1 op list -> 'a1 state -> 'a1 state

type val0 =
| VQ of q
| VN of nat
| VB of bool
| VL of val0 list
| VE of err
| VNone

val asQ : val0 -> q option

val asN : val0 -> nat option

val all_some : 'a1 option list -> 'a1 list option

val asQs : val0 -> q list option

val asQss : val0 -> q list list option

val asNs : val0 -> nat list option

val asBs : val0 -> bool list option

val asTrain : val0 -> ((q list * q) * q) option

val asTrains : val0 -> ((q list * q) * q) list option

val asIdx : val0 -> nat list option option

val asIv : val0 -> (q * q) option option

val asPair : val0 -> (q * q) option

val asIvspec : val0 -> q ivspec option

val asCtx : val0 -> q ctx option option

val asEntries : val0 -> val0 -> val0 -> ((q * q) * q) list option

val encQs : q list -> val0

val encPwc : (q list * q list) -> val0

val encPwl : ((q list * q list) * q list) -> val0

val encDf : ((q * q) * q) list -> val0

val encRes : ('a1 -> val0) -> 'a1 res -> val0

val encTrain : ((q list * q) * q) -> val0

val encMatrix : q list list -> val0

val encPairQ : (q * q) -> val0

val asStrs : val0 -> nat list list option

val asStrsL : val0 -> nat list list list option

val encStr : nat list -> val0

val asPwc : val0 -> (q list * q list) option

val asPwcs : val0 -> (q list * q list) list option

val asOp : val0 -> q op option

val asOps : val0 -> q op list option

val is_empty : 'a1 list -> bool

val starts_with : nat list -> nat list -> bool

val join : nat list -> nat list list -> nat list

val split_go : nat list -> nat -> nat list -> nat list -> nat list list

val split : nat list -> nat list -> nat list list

val save_lines : nat list -> nat list list list -> nat list list

val load_line : nat list -> nat list -> bool -> nat list -> nat list list list

val load_lines :
  nat list -> nat list -> bool -> nat list list -> nat list list list

val psth_edges : 'a1 numOps -> 'a1 -> 'a1 -> nat -> 'a1 list

val psth_counts : 'a1 numOps -> 'a1 -> 'a1 -> nat -> 'a1 list -> 'a1 list

val cumsum : 'a1 numOps -> 'a1 -> 'a1 list -> 'a1 list

val poisson_cumsums : 'a1 numOps -> 'a1 -> 'a1 list -> 'a1 list

val poisson_spikes : 'a1 numOps -> 'a1 -> 'a1 -> 'a1 list -> 'a1 list

val mrow : 'a1 list list -> nat -> 'a1 list

val mget : 'a1 numOps -> 'a1 list list -> nat -> nat -> 'a1

val triu_row : 'a1 numOps -> 'a1 list list -> nat -> nat -> 'a1

val triu_sum : 'a1 numOps -> 'a1 list list -> 'a1

val permutate_matrix :
  'a1 numOps -> 'a1 list list -> nat list -> 'a1 list list

val swap_adj : nat list -> nat -> nat list

val row_max : 'a1 numOps -> 'a1 list -> 'a1 -> 'a1

val mat_max : 'a1 numOps -> 'a1 list list -> 'a1

type 'f sa = { sa_p : nat list; sa_A : 'f; sa_k : nat }

val sa_step :
  'a1 numOps -> (nat -> nat) -> ('a1 -> 'a1 -> nat -> bool) -> 'a1 list list
  -> nat -> 'a1 -> 'a1 sa -> 'a1 sa * bool

val sa_equil :
  'a1 numOps -> (nat -> nat) -> ('a1 -> 'a1 -> nat -> bool) -> 'a1 list list
  -> nat -> 'a1 -> nat -> nat -> nat -> 'a1 sa -> ('a1 sa * nat) * nat

val sa_cool :
  'a1 numOps -> (nat -> nat) -> ('a1 -> 'a1 -> nat -> bool) -> 'a1 list list
  -> nat -> 'a1 -> 'a1 -> nat -> 'a1 -> nat -> 'a1 sa -> ('a1 sa * nat) option

val sim_ann :
  'a1 numOps -> (nat -> nat) -> ('a1 -> 'a1 -> nat -> bool) -> 'a1 list list
  -> 'a1 -> 'a1 -> 'a1 -> nat -> ((nat list * 'a1) * nat) option

val sorting_from_matrix :
  'a1 numOps -> (nat -> nat) -> ('a1 -> 'a1 -> nat -> bool) -> 'a1 list list
  -> nat -> ((nat list * 'a1) * nat) option

val metro_script : 'a1 -> 'a1 -> nat -> bool

val cyc : nat list -> nat -> nat

val o : q numOps

val eps : q

val bad : val0

val gtq : bool -> q ctx option -> q ctx option -> q -> q -> q

val dispatch : nat -> val0 list -> val0

val eff : 'a1 -> 'a1 -> 'a1 list -> 'a1 list

val breaks : 'a1 numOps -> 'a1 -> 'a1 -> 'a1 list -> 'a1 list -> 'a1 list

val pieces : 'a1 list -> ('a1 * 'a1) list

val mid : 'a1 numOps -> ('a1 * 'a1) -> 'a1

val prev_of : 'a1 numOps -> 'a1 -> 'a1 list -> 'a1 option -> 'a1 option

val next_of : 'a1 numOps -> 'a1 -> 'a1 list -> 'a1 option

val before : 'a1 numOps -> 'a1 -> 'a1 list -> 'a1 option

val after : 'a1 numOps -> 'a1 -> 'a1 list -> 'a1 option

val isi_len_at : 'a1 numOps -> 'a1 -> 'a1 -> 'a1 list -> 'a1 -> 'a1

val isi_spec :
  'a1 numOps -> 'a1 list -> 'a1 list -> 'a1 -> 'a1 -> 'a1 -> 'a1 list * 'a1
  list

val aux_of : 'a1 numOps -> 'a1 -> 'a1 -> 'a1 list -> 'a1 * 'a1

val nearest : 'a1 numOps -> ('a1 * 'a1) -> 'a1 list -> 'a1 -> 'a1

val contrib :
  'a1 numOps -> 'a1 -> 'a1 -> 'a1 list -> 'a1 list -> 'a1 -> 'a1 -> 'a1 * 'a1

val spike_at :
  'a1 numOps -> 'a1 -> 'a1 -> 'a1 -> bool -> 'a1 list -> 'a1 list -> 'a1 ->
  'a1 -> 'a1

val spike_spec :
  'a1 numOps -> 'a1 list -> 'a1 list -> 'a1 -> 'a1 -> 'a1 -> bool -> ('a1
  list * 'a1 list) * 'a1 list

val contexts_from : 'a1 option -> 'a1 list -> 'a1 ctx list

val contexts : 'a1 list -> 'a1 ctx list

val tau_spec : 'a1 numOps -> 'a1 -> 'a1 -> 'a1 ctx -> 'a1 ctx -> 'a1

val lim_of : 'a1 numOps -> 'a1 -> 'a1 -> 'a1 -> 'a1

val coinc : 'a1 numOps -> 'a1 -> 'a1 -> 'a1 ctx -> 'a1 ctx -> bool

val has_partner : 'a1 numOps -> 'a1 -> 'a1 -> 'a1 ctx -> 'a1 ctx list -> bool

val is_shared : 'a1 numOps -> 'a1 ctx -> 'a1 ctx list -> bool

val event_entries :
  'a1 numOps -> ('a1 ctx -> 'a1 ctx list -> 'a1) -> ('a1 ctx -> 'a1 ctx list
  -> 'a1) -> 'a1 -> 'a1 list -> 'a1 list -> (('a1 * 'a1) * 'a1) list

val framed :
  'a1 numOps -> 'a1 -> 'a1 -> (('a1 * 'a1) * 'a1) list -> (('a1 * 'a1) * 'a1)
  list

val sync_spec :
  'a1 numOps -> 'a1 list -> 'a1 list -> 'a1 -> 'a1 -> 'a1 -> 'a1 ->
  (('a1 * 'a1) * 'a1) list

val single_spec :
  'a1 numOps -> 'a1 list -> 'a1 list -> 'a1 -> 'a1 -> 'a1 -> 'a1 -> 'a1 list

val lead_sign : 'a1 numOps -> 'a1 -> 'a1 -> 'a1 ctx -> 'a1 ctx list -> 'a1

val order_spec :
  'a1 numOps -> 'a1 list -> 'a1 list -> 'a1 -> 'a1 -> 'a1 -> 'a1 ->
  (('a1 * 'a1) * 'a1) list

val dir_spec :
  'a1 numOps -> 'a1 list -> 'a1 list -> 'a1 -> 'a1 -> 'a1 -> 'a1 -> 'a1
  list * 'a1 list

val filter_spec :
  'a1 numOps -> 'a1 -> 'a1 -> 'a1 -> (('a1 list * 'a1) * 'a1) list -> ('a1
  list * 'a1 list) list

val pwc_at : 'a1 numOps -> 'a1 list -> 'a1 list -> 'a1 -> 'a1 option

val pwc_right : 'a1 numOps -> 'a1 list -> 'a1 list -> 'a1 -> 'a1 option

val pwc_left : 'a1 numOps -> 'a1 list -> 'a1 list -> 'a1 -> 'a1 option

val lin : 'a1 numOps -> 'a1 -> 'a1 -> 'a1 -> 'a1 -> 'a1 -> 'a1

val pwl_right :
  'a1 numOps -> 'a1 list -> 'a1 list -> 'a1 list -> 'a1 -> 'a1 option

val pwl_left :
  'a1 numOps -> 'a1 list -> 'a1 list -> 'a1 list -> 'a1 -> 'a1 option

val eval_of : 'a1 numOps -> 'a1 option -> 'a1 option -> 'a1 option

val pwc_eval : 'a1 numOps -> ('a1 list * 'a1 list) -> 'a1 -> 'a1 option

val pwl_eval :
  'a1 numOps -> (('a1 list * 'a1 list) * 'a1 list) -> 'a1 -> 'a1 option

val pwc_overlap : 'a1 numOps -> 'a1 list -> 'a1 list -> 'a1 -> 'a1 -> 'a1

val pwl_overlap :
  'a1 numOps -> 'a1 list -> 'a1 list -> 'a1 list -> 'a1 -> 'a1 -> 'a1

val optsum : 'a1 numOps -> 'a1 option -> 'a1 option -> 'a1

val pwc_add_spec :
  'a1 numOps -> ('a1 list * 'a1 list) -> ('a1 list * 'a1 list) -> 'a1
  list * 'a1 list

val pwl_add_spec :
  'a1 numOps -> (('a1 list * 'a1 list) * 'a1 list) -> (('a1 list * 'a1
  list) * 'a1 list) -> ('a1 list * 'a1 list) * 'a1 list

val interior_entries : (('a1 * 'a1) * 'a1) list -> (('a1 * 'a1) * 'a1) list

val sum_at : 'a1 numOps -> 'a1 -> (('a1 * 'a1) * 'a1) list -> 'a1 * 'a1

val df_add_spec :
  'a1 numOps -> (('a1 * 'a1) * 'a1) list -> (('a1 * 'a1) * 'a1) list ->
  (('a1 * 'a1) * 'a1) list

val df_integral_spec1 :
  'a1 numOps -> (('a1 * 'a1) * 'a1) list -> ('a1 * 'a1) option -> 'a1 * 'a1

val df_integral_spec :
  'a1 numOps -> (('a1 * 'a1) * 'a1) list -> 'a1 ivspec -> 'a1 * 'a1

val reconcile_spec :
  'a1 numOps -> 'a1 -> (('a1 list * 'a1) * 'a1) list -> (('a1
  list * 'a1) * 'a1) list

val isi_lengths_spec : 'a1 numOps -> 'a1 list -> 'a1 -> 'a1 -> 'a1 list

val encOpt : q option -> val0

val spec_dispatch : nat -> val0 list -> val0

val dispatch_all : nat -> val0 list -> val0
