(* Props/C14.v — call forms and index selections of a measure agree.
   Only statements, `exact`, Print Assumptions and non-vacuity examples. *)
From Coq Require Import List Bool Arith Reals Lra.
Import ListNotations.
From PS Require Import Num RLemmas Valid ModelKernels ModelFuncs ModelAPI Spec Lem_Lists.
From PS Require Import Lem_API Lem_WF Lem_API2 Lem_API3 Lem_API4 Lem_API5 Lem_API7.
Local Open Scope R_scope.

(* the pairs generated from an index list are the pairs over POSITIONS looked up through the list *)
Theorem C14_pairs_positions : forall idx,
  pairs_of idx = map (fun p => (nth (fst p) idx 0%nat, nth (snd p) idx 0%nat)) (pairs_of (seq 0 (length idx))).
Proof. exact pairs_of_positions. Qed.
Print Assumptions C14_pairs_positions.

(* selecting trains through `indices` (any admissible list, any order) = passing the sub-list:
   generic drivers behind ISI-/SPIKE-distance, -profile and all distance matrices *)
Theorem C14_distance_indices : forall (bi : train -> train -> res R) l idx,
  check_indices (length l) idx = true ->
  distance_multi_gen ROps 0 bi false l (Some idx) = distance_multi_gen ROps 0 bi false (map (nth_train ROps l) idx) None.
Proof. exact distance_multi_indices. Qed.
Print Assumptions C14_distance_indices.
Theorem C14_profile_indices : forall (P : Type) (padd : P -> P -> res P) (bi : train -> train -> res P) l idx,
  check_indices (length l) idx = true ->
  profile_multi_gen ROps 0 padd bi false l (Some idx) = profile_multi_gen ROps 0 padd bi false (map (nth_train ROps l) idx) None.
Proof. exact profile_multi_indices. Qed.
Print Assumptions C14_profile_indices.
Theorem C14_matrix_indices : forall (bi : train -> train -> res R) diag sym l idx,
  check_indices (length l) idx = true ->
  matrix_gen ROps 0 bi diag sym false l (Some idx) = matrix_gen ROps 0 bi diag sym false (map (nth_train ROps l) idx) None.
Proof. exact matrix_indices. Qed.
Print Assumptions C14_matrix_indices.
(* SPIKE-Sync, spike-train order, directionality values (each with max_tau / MRTS / interval forwarded) *)
Theorem C14_sync_indices : forall cy mt m iv l idx, check_indices (length l) idx = true ->
  spike_sync_multi ROps 0 cy false mt m iv l (Some idx) = spike_sync_multi ROps 0 cy false mt m iv (map (nth_train ROps l) idx) None.
Proof. exact sync_multi_indices. Qed.
Print Assumptions C14_sync_indices.
Theorem C14_order_indices : forall cy nrm mt m l idx, check_indices (length l) idx = true ->
  spike_train_order_multi ROps 0 cy false nrm mt m l (Some idx) = spike_train_order_multi ROps 0 cy false nrm mt m (map (nth_train ROps l) idx) None.
Proof. exact order_multi_indices. Qed.
Print Assumptions C14_order_indices.
Theorem C14_directionality_values_indices : forall cy mt m l idx, check_indices (length l) idx = true ->
  directionality_values ROps 0 cy false mt m l (Some idx) = directionality_values ROps 0 cy false mt m (map (nth_train ROps l) idx) None.
Proof. exact dirvalues_indices. Qed.
Print Assumptions C14_directionality_values_indices.

(* a list containing two trains gives the bivariate value *)
Theorem C14_two_vs_list : forall (bi : train -> train -> res R) a b,
  distance_multi_gen ROps 0 bi false [a; b] None = bi a b.
Proof. exact distance_multi_two_id. Qed.
Print Assumptions C14_two_vs_list.

From PS Require Lem_Leftovers.
Import Lem_Leftovers.
(* a list containing two trains gives the two-train result, for every measure (scalars and profiles) *)
Theorem C14_two_vs_list_isi_distance : forall (eps : R) (cy : bool) (m : R) (iv : option (R * R)) (a b : train), isi_distance_multi ROps eps cy false m iv [a; b] None = isi_distance_bi ROps eps cy false m iv a b.
Proof. exact isi_distance_two_list. Qed.
Print Assumptions C14_two_vs_list_isi_distance.
Theorem C14_two_vs_list_spike_distance : forall (eps : R) (cy : bool) (m : R) (ri : bool) (iv : option (R * R)) (a b : train), spike_distance_multi ROps eps cy false m ri iv [a; b] None = spike_distance_bi ROps eps cy false m ri iv a b.
Proof. exact spike_distance_two_list. Qed.
Print Assumptions C14_two_vs_list_spike_distance.
Theorem C14_two_vs_list_spike_sync : forall (eps : R) (cy : bool) (mt m : R) (iv : option (R * R)) (a b : train), spike_sync_multi ROps eps cy false mt m iv [a; b] None = spike_sync_bi ROps eps cy false mt m iv a b.
Proof. exact sync_two_list. Qed.
Print Assumptions C14_two_vs_list_spike_sync.
Theorem C14_two_vs_list_spike_train_order : forall (eps : R) (cy nrm : bool) (mt m : R) (a b : train), spike_train_order_multi ROps eps cy false nrm mt m [a; b] None = spike_train_order_bi ROps eps cy false nrm mt m a b.
Proof. exact order_two_list. Qed.
Print Assumptions C14_two_vs_list_spike_train_order.
Theorem C14_two_vs_list_isi_profile : forall (eps : R) (cy : bool) (m : R) (a b : train), isi_profile_multi ROps eps cy false m [a; b] None = Ok (isi_profile_bi ROps eps cy false m a b).
Proof. exact isi_profile_two_list. Qed.
Print Assumptions C14_two_vs_list_isi_profile.
Theorem C14_two_vs_list_spike_profile : forall (eps : R) (cy : bool) (m : R) (ri : bool) (a b : train), spike_profile_multi ROps eps cy false m ri [a; b] None = Ok (spike_profile_bi ROps eps cy false m ri a b).
Proof. exact spike_profile_two_list. Qed.
Print Assumptions C14_two_vs_list_spike_profile.
Theorem C14_two_vs_list_sync_profile : forall (eps : R) (cy : bool) (mt m : R) (a b : train), spike_sync_profile_multi ROps eps cy false mt m [a; b] None = Ok (spike_sync_profile_bi ROps eps cy false mt m a b).
Proof. exact sync_profile_two_list. Qed.
Print Assumptions C14_two_vs_list_sync_profile.
Theorem C14_two_vs_list_order_profile : forall (eps : R) (cy : bool) (mt m : R) (a b : train), order_profile_multi ROps eps cy false mt m [a; b] None = order_profile_bi ROps eps cy false mt m a b.
Proof. exact order_profile_two_list. Qed.
Print Assumptions C14_two_vs_list_order_profile.

From PS Require ModelAuto Lem_Findings.
(* KNOWN FINDING F10 as a theorem (refutation of "MRTS honoured identically through every form" for
   MRTS='auto'): the pool of trains the code uses for the automatic threshold of a multivariate call
   ([auto_pool_multi]: the whole list, `indices` is not consulted) gives a different threshold than
   the pool of the selected sub-list, for the witness L = [[1/8,1/2],[1/4,3/4],[1/16,1/8,3/16,1/4]]
   on [0,1], indices = [0,1] (replayed on the implementation by the check: KNOWN_FINDINGS.txt) *)
Theorem C14_auto_with_indices_refuted :
  exists (l : list (list R * R * R)) (idx : option (list nat)),
    check_indices (length l) (indices_or_all (length l) idx) = true /\
    default_thresh_sq ROps (ModelAuto.auto_pool_multi ROps 0 false l idx) <>
    default_thresh_sq ROps (ModelAuto.auto_pool_selected ROps 0 false l idx).
Proof. exact Lem_Findings.F10_auto_threshold_ignores_indices. Qed.
Print Assumptions C14_auto_with_indices_refuted.

(* non-vacuity: an admissible selection that is neither a prefix nor in order *)
(* ---- from Lem_API7.v ---- *)
Theorem C14_isi_multi_two_idx : forall eps cy m iv l i j ts te,
  Forall (vtrain ts te) l -> iv_ok ts te iv -> (i < length l)%nat -> (j < length l)%nat ->
  isi_distance_multi ROps eps cy false m iv l (Some [i; j])
  = isi_distance_bi ROps eps cy false m iv (nth_train ROps l i) (nth_train ROps l j).
Proof. exact isi_multi_two_idx. Qed.
Print Assumptions C14_isi_multi_two_idx.
Theorem C14_spike_multi_two_idx : forall eps cy m ri iv l i j ts te,
  Forall (vtrain ts te) l -> iv_ok ts te iv -> (i < length l)%nat -> (j < length l)%nat ->
  spike_distance_multi ROps eps cy false m ri iv l (Some [i; j])
  = spike_distance_bi ROps eps cy false m ri iv (nth_train ROps l i) (nth_train ROps l j).
Proof. exact spike_multi_two_idx. Qed.
Print Assumptions C14_spike_multi_two_idx.

Example C14_nonvacuous : check_indices 4 [3; 0; 2]%nat = true /\ pairs_of [3; 0; 2]%nat = [(3, 0); (3, 2); (0, 2)]%nat.
Proof. split; reflexivity. Qed.

(* ---- executed instance (Q, extracted to OCaml and run against /repo) = the real-number functions
   the theorems above are about: kernel-checked parametricity bridge (Bridge.v).  qL = map Q2R etc. ---- *)
From Coq Require Import QArith Qreals.
From PS Require Import Bridge.
Local Close Scope Q_scope.
Theorem C14_exec_isi_distance_multi_transfer : forall (eps : Q) (cy rc : bool) (m : Q) (iv : option (Q * Q)) (l : list train) (idx : option (list nat)), rmap Q2R (isi_distance_multi QOps eps cy rc m iv l idx) = isi_distance_multi ROps (Q2R eps) cy rc (Q2R m) (qIv iv) (map qTrain l) idx.
Proof. exact isi_distance_multi_transfer. Qed.
Print Assumptions C14_exec_isi_distance_multi_transfer.
Theorem C14_exec_spike_sync_multi_transfer : forall (eps : Q) (cy rc : bool) (mt m : Q) (iv : option (Q * Q)) (l : list train) (idx : option (list nat)), rmap Q2R (spike_sync_multi QOps eps cy rc mt m iv l idx) = spike_sync_multi ROps (Q2R eps) cy rc (Q2R mt) (Q2R m) (qIv iv) (map qTrain l) idx.
Proof. exact spike_sync_multi_transfer. Qed.
Print Assumptions C14_exec_spike_sync_multi_transfer.
Theorem C14_exec_directionality_values_transfer : forall (eps : Q) (cy rc : bool) (mt m : Q) (l : list train) (idx : option (list nat)), rmap (map qL) (directionality_values QOps eps cy rc mt m l idx) = directionality_values ROps (Q2R eps) cy rc (Q2R mt) (Q2R m) (map qTrain l) idx.
Proof. exact directionality_values_transfer. Qed.
Print Assumptions C14_exec_directionality_values_transfer.
