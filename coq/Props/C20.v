(* Props/C20.v — merging and histogramming conserve every spike.
   Only statements, `exact`, Print Assumptions and non-vacuity examples. *)
From Coq Require Import List Bool Arith Reals Lra Lia Sorted Permutation.
Import ListNotations.
From PS Require Import Num RLemmas Valid ModelKernels ModelFuncs ModelAPI Spec Lem_Lists ModelIO Lem_IO.
Require Import PS.Props.PropTac.
Local Open Scope R_scope.

(* merge: one sorted train on the first train's interval whose spikes are the multiset union *)
Theorem C20_merge : forall (l : list train) t0 r, l = t0 :: r ->
  let m := merge_spike_trains ROps l in
  Permutation (tr_spikes m) (flat_map (@tr_spikes R) l) /\ StronglySorted Rle (tr_spikes m) /\
  tr_start m = tr_start t0 /\ tr_end m = tr_end t0.
Proof. exact merge_spec. Qed.
Print Assumptions C20_merge.

(* histogram over given bin edges: each bin holds the number of pooled spikes in [e_k, e_k+1),
   the last bin closed ... *)
Theorem C20_bin_counts : forall edges xs,
  hist_counts ROps edges xs =
  map (fun p => nofnat ROps (count_in ROps (fst (fst p)) (snd (fst p)) (snd p) xs)) (bins edges).
Proof. exact hist_counts_spec'. Qed.
Print Assumptions C20_bin_counts.

(* ... so that the bin values sum to the number of spikes inside [first edge, last edge] *)
Theorem C20_counts_sum : forall edges xs, ssorted edges -> (2 <= length edges)%nat ->
  sumF ROps (hist_counts ROps edges xs) =
  INR (length (filter (fun x => nleb ROps (hd 0 edges) x && nleb ROps x (last edges 0)) xs)).
Proof. exact hist_counts_total. Qed.
Print Assumptions C20_counts_sum.

(* PSTH bins: n+1 equally spaced edges spanning the recording (np.linspace), strictly increasing *)
Theorem C20_psth_bins : forall ts te n, (0 < n)%nat ->
  length (psth_edges ROps ts te n) = S n /\ hd 0 (psth_edges ROps ts te n) = ts /\ last (psth_edges ROps ts te n) 0 = te /\
  (forall k, (k < n)%nat -> nth (S k) (psth_edges ROps ts te n) 0 - nth k (psth_edges ROps ts te n) 0 = (te - ts) / INR n).
Proof. exact psth_edges_spec. Qed.
Print Assumptions C20_psth_bins.
Theorem C20_psth_bins_increasing : forall ts te n, ts < te -> (0 < n)%nat -> ssorted (psth_edges ROps ts te n).
Proof. exact psth_edges_sorted. Qed.
Print Assumptions C20_psth_bins_increasing.
(* hence the PSTH values sum to the number of pooled spikes inside the recording *)
Theorem C20_psth_conserves_spikes : forall ts te n xs, ts < te -> (0 < n)%nat ->
  sumF ROps (psth_counts ROps ts te n xs) =
  INR (length (filter (fun x => nleb ROps ts x && nleb ROps x te) xs)).
Proof.
  intros ts te n xs Hlt Hn. unfold psth_counts.
  destruct (psth_edges_spec ts te n Hn) as (Hl & Hh & Hla & _).
  rewrite hist_counts_total; [rewrite Hh, Hla; reflexivity | apply psth_edges_sorted; assumption | rewrite Hl; lia].
Qed.
Print Assumptions C20_psth_conserves_spikes.

(* Poisson generator given its (positive) exponential draws: sorted, strictly inside (t0, t1),
   and exactly the cumulative sums below t1 (nothing dropped, nothing added) *)
Theorem C20_poisson_sorted_inside : forall t0 t1 draws, Forall (fun d => 0 < d) draws ->
  let s := poisson_spikes ROps t0 t1 draws in ssorted s /\ Forall (fun x => t0 < x < t1) s.
Proof. exact poisson_spec. Qed.
Print Assumptions C20_poisson_sorted_inside.
Theorem C20_poisson_prefix : forall t0 t1 draws, Forall (fun d => 0 < d) draws ->
  let cums := poisson_cumsums ROps t0 draws in
  let k := length (filter (fun x => Rltb x t1) cums) in
  poisson_spikes ROps t0 t1 draws = firstn k cums /\ (forall x, In x (skipn k cums) -> t1 <= x).
Proof. exact poisson_prefix. Qed.
Print Assumptions C20_poisson_prefix.

Example C20_nonvacuous : ssorted [0; 1/4; 1/2; 3/4; 1] /\ (2 <= length [0; 1/4; 1/2; 3/4; 1])%nat.
Proof. split; [valid_tac | cbn; auto with arith]. Qed.

(* ---- executed instance (Q, extracted to OCaml and run against /repo) = the real-number functions
   the theorems above are about: kernel-checked parametricity bridge (Bridge.v).  qL = map Q2R etc. ---- *)
From Coq Require Import QArith Qreals.
From PS Require Import Bridge.
Local Close Scope Q_scope.
Theorem C20_exec_merge_spike_trains_transfer : forall l : list train, qTrain (merge_spike_trains QOps l) = merge_spike_trains ROps (map qTrain l).
Proof. exact merge_spike_trains_transfer. Qed.
Print Assumptions C20_exec_merge_spike_trains_transfer.
Theorem C20_exec_hist_counts_transfer : forall edges xs : list Q, qL (hist_counts QOps edges xs) = hist_counts ROps (qL edges) (qL xs).
Proof. exact hist_counts_transfer. Qed.
Print Assumptions C20_exec_hist_counts_transfer.
