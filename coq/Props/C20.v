(* Props/C20.v — merging and histogramming conserve every spike.
   Only statements, `exact`, Print Assumptions and non-vacuity examples. *)
From Coq Require Import List Bool Arith Reals Lra Sorted Permutation.
Import ListNotations.
From PS Require Import Num RLemmas Valid ModelKernels ModelFuncs ModelAPI Spec Lem_Lists.
Require Import PS.Props.PropTac.
Local Open Scope R_scope.

(* merge: one sorted train on the first train's interval whose spikes are the multiset union *)
Theorem C20_merge : forall (l : list train) t0 r, l = t0 :: r ->
  let m := merge_spike_trains ROps l in
  Permutation (tr_spikes m) (flat_map (@tr_spikes R) l) /\ StronglySorted Rle (tr_spikes m) /\
  tr_start m = tr_start t0 /\ tr_end m = tr_end t0.
Proof. exact merge_spec. Qed.
Print Assumptions C20_merge.

(* histogram over given bin edges: each bin holds the number of pooled spikes in [e_k, e_k+1),
   the last bin closed ... *)
Theorem C20_bin_counts : forall edges xs,
  hist_counts ROps edges xs =
  map (fun p => nofnat ROps (count_in ROps (fst (fst p)) (snd (fst p)) (snd p) xs)) (bins edges).
Proof. exact hist_counts_spec'. Qed.
Print Assumptions C20_bin_counts.

(* ... so that the bin values sum to the number of spikes inside [first edge, last edge] *)
Theorem C20_counts_sum : forall edges xs, ssorted edges -> (2 <= length edges)%nat ->
  sumF ROps (hist_counts ROps edges xs) =
  INR (length (filter (fun x => nleb ROps (hd 0 edges) x && nleb ROps x (last edges 0)) xs)).
Proof. exact hist_counts_total. Qed.
Print Assumptions C20_counts_sum.

Example C20_nonvacuous : ssorted [0; 1/4; 1/2; 3/4; 1] /\ (2 <= length [0; 1/4; 1/2; 3/4; 1])%nat.
Proof. split; [valid_tac | cbn; auto with arith]. Qed.
