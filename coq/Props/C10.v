(* Props/C10.v — integral, average and evaluation of piecewise functions are exact.
   Only statements, `exact`, Print Assumptions and non-vacuity examples. *)
From Coq Require Import List Bool Arith Reals Lra Lia Sorted.
Import ListNotations.
From PS Require Import Num RLemmas Valid ModelKernels ModelFuncs ModelAPI Spec Lem_Pwc Lem_Pwl Lem_Misc.
Require Import PS.Props.PropTac.
Local Open Scope R_scope.

Local Notation x0 f := (nthF ROps (fst f) 0).
Local Notation xn f := (lastF ROps (fst f)).

(* ---- piecewise constant ---- *)
(* integral(a,b) for every a < b inside the support — both index-search branches of the code —
   is the exact integral: the sum over the pieces of value x overlap length *)
Theorem C10_pwc_integral_exact : forall f a b, wf_pwc f -> x0 f <= a -> a < b -> b <= xn f ->
  pwc_integral ROps f (Some (a, b)) = Ok (pwc_overlap ROps (fst f) (snd f) a b).
Proof. exact pwc_integral_overlap. Qed.
Print Assumptions C10_pwc_integral_exact.
Theorem C10_pwc_integral_full_support : forall f, wf_pwc f ->
  pwc_integral ROps f None = Ok (pwc_overlap ROps (fst f) (snd f) (x0 f) (xn f)).
Proof. exact pwc_integral_none. Qed.
Print Assumptions C10_pwc_integral_full_support.
(* integrals over adjacent intervals add up *)
Theorem C10_pwc_additive : forall xs ys a b c, ssorted xs -> a <= b -> b <= c ->
  pwc_overlap ROps xs ys a b + pwc_overlap ROps xs ys b c = pwc_overlap ROps xs ys a c.
Proof. exact pwc_overlap_additive. Qed.
Print Assumptions C10_pwc_additive.
(* bounds validation *)
Theorem C10_pwc_bad_bounds : forall f a b, wf_pwc f -> (b < a \/ a < x0 f \/ xn f < b) ->
  pwc_integral ROps f (Some (a, b)) = Err ValueError.
Proof. exact pwc_integral_bad. Qed.
Print Assumptions C10_pwc_bad_bounds.
(* average over one interval and over a list of intervals *)
Theorem C10_pwc_average : forall f a b, wf_pwc f -> x0 f <= a -> a < b -> b <= xn f ->
  pwc_avrg ROps f (IvOne a b) = Ok (pwc_overlap ROps (fst f) (snd f) a b / (b - a)).
Proof. exact pwc_avrg_one. Qed.
Print Assumptions C10_pwc_average.
Theorem C10_pwc_average_list : forall f l, wf_pwc f ->
  Forall (fun p => x0 f <= fst p /\ fst p < snd p /\ snd p <= xn f) l ->
  pwc_avrg ROps f (IvMany l) =
  Ok (sumF ROps (map (fun p => pwc_overlap ROps (fst f) (snd f) (fst p) (snd p)) l) / sumF ROps (map (fun p => snd p - fst p) l)).
Proof. exact pwc_avrg_many. Qed.
Print Assumptions C10_pwc_average_list.
(* evaluation: piece value / mean of the two limits at an interior breakpoint / one-sided limit at the ends *)
Theorem C10_pwc_evaluation : forall f t, wf_pwc f -> x0 f <= t <= xn f ->
  exists v, pwc_eval ROps f t = Some v /\ pwc_call_scalar ROps f t = Ok v.
Proof. exact pwc_call_scalar_eval. Qed.
Print Assumptions C10_pwc_evaluation.
(* identically for a single time and for a list of times (the two code paths) *)
Theorem C10_pwc_scalar_and_list_paths_agree : forall f t, wf_pwc f -> pwc_call_seq1 ROps f t = pwc_call_scalar ROps f t.
Proof. exact pwc_call_paths_agree. Qed.
Print Assumptions C10_pwc_scalar_and_list_paths_agree.

(* ---- piecewise linear ---- *)
Local Notation lx f := (fst (fst f)).
Theorem C10_pwl_integral_exact : forall f a b, wf_pwl f -> nthF ROps (lx f) 0 <= a -> a < b -> b <= lastF ROps (lx f) ->
  pwl_integral ROps f (Some (a, b)) = Ok (pwl_overlap ROps (lx f) (snd (fst f)) (snd f) a b).
Proof. exact pwl_integral_overlap. Qed.
Print Assumptions C10_pwl_integral_exact.
Theorem C10_pwl_integral_full_support : forall f, wf_pwl f ->
  pwl_integral ROps f None = Ok (pwl_overlap ROps (lx f) (snd (fst f)) (snd f) (nthF ROps (lx f) 0) (lastF ROps (lx f))).
Proof. exact pwl_integral_none. Qed.
Print Assumptions C10_pwl_integral_full_support.
Theorem C10_pwl_additive : forall xs y1s y2s a b c, ssorted xs -> a <= b -> b <= c ->
  pwl_overlap ROps xs y1s y2s a b + pwl_overlap ROps xs y1s y2s b c = pwl_overlap ROps xs y1s y2s a c.
Proof. exact pwl_overlap_additive. Qed.
Print Assumptions C10_pwl_additive.
Theorem C10_pwl_average : forall f a b, wf_pwl f -> nthF ROps (lx f) 0 <= a -> a < b -> b <= lastF ROps (lx f) ->
  pwl_avrg ROps f (IvOne a b) = Ok (pwl_overlap ROps (lx f) (snd (fst f)) (snd f) a b / (b - a)).
Proof. exact pwl_avrg_one. Qed.
Print Assumptions C10_pwl_average.
Theorem C10_pwl_evaluation : forall f t, wf_pwl f -> nthF ROps (lx f) 0 <= t -> t <= lastF ROps (lx f) ->
  exists v, pwl_eval ROps f t = Some v /\ pwl_call_scalar ROps f t = Ok v.
Proof. exact pwl_call_scalar_eval. Qed.
Print Assumptions C10_pwl_evaluation.
Theorem C10_pwl_scalar_and_list_paths_agree : forall f t, wf_pwl f -> pwl_call_seq1 ROps f t = pwl_call_scalar ROps f t.
Proof. exact pwl_call_paths_agree. Qed.
Print Assumptions C10_pwl_scalar_and_list_paths_agree.
(* the plottable arrays trace exactly the pieces *)
Theorem C10_pwl_plottable : forall f, wf_pwl f ->
  pwl_plottable f = (nth 0 (lx f) 0 :: dup (removelast (tl (lx f))) ++ [last (lx f) 0], interleave (snd (fst f)) (snd f))
  /\ length (fst (pwl_plottable f)) = (2 * length (snd (fst f)))%nat
  /\ length (snd (pwl_plottable f)) = (2 * length (snd (fst f)))%nat.
Proof. exact pwl_plottable_spec. Qed.
Print Assumptions C10_pwl_plottable.

From PS Require Lem_Leftovers.
Import Lem_Leftovers.
(* average of a piecewise-linear function over a list of intervals: summed integrals / summed lengths *)
Theorem C10_pwl_average_list : forall (f : list R * list R * list R) (l : list (R * R)), wf_pwl f -> Forall (fun p : R * R => nthF ROps (fst (fst f)) 0 <= fst p /\ fst p < snd p <= lastF ROps (fst (fst f))) l -> pwl_avrg ROps f (IvMany l) = Ok (sumF ROps (map (fun p : R * R => pwl_overlap ROps (fst (fst f)) (snd (fst f)) (snd f) (fst p) (snd p)) l) / sumF ROps (map (fun p : R * R => snd p - fst p) l)).
Proof. exact pwl_avrg_many. Qed.
Print Assumptions C10_pwl_average_list.

Theorem C10_pwc_plottable : forall f : list R * list R, wf_pwc f ->
  pwc_plottable f = (match fst f with [] => [] | x0 :: r => x0 :: removelast (dup r) end, dup (snd f)) /\
  length (fst (pwc_plottable f)) = (2 * length (snd f))%nat /\
  length (snd (pwc_plottable f)) = (2 * length (snd f))%nat /\
  (forall k, (k < length (snd f))%nat ->
     nth (2 * k) (snd (pwc_plottable f)) 0 = nth k (snd f) 0 /\ nth (2 * k + 1) (snd (pwc_plottable f)) 0 = nth k (snd f) 0).
Proof. exact pwc_plottable_spec. Qed.
Print Assumptions C10_pwc_plottable.

Example C10_nonvacuous : wf_pwc ([0; 1/4; 1], [1; -2]) /\ wf_pwl ([0; 1/4; 1], [1; 2], [0; 3]).
Proof. unfold wf_pwc, wf_pwl, wf_x; cbn [fst snd length]; repeat split; try lia; valid_tac. Qed.

(* ---- executed instance (Q, extracted to OCaml and run against /repo) = the real-number functions
   the theorems above are about: kernel-checked parametricity bridge (Bridge.v).  qL = map Q2R etc. ---- *)
From Coq Require Import QArith Qreals.
From PS Require Import Bridge.
Local Close Scope Q_scope.
Theorem C10_exec_pwc_integral_transfer : forall (f : pwc) (iv : option (Q * Q)), rmap Q2R (pwc_integral QOps f iv) = pwc_integral ROps (qLL f) (qIv iv).
Proof. exact pwc_integral_transfer. Qed.
Print Assumptions C10_exec_pwc_integral_transfer.
Theorem C10_exec_pwc_avrg_transfer : forall (f : pwc) (iv : ivspec), rmap Q2R (pwc_avrg QOps f iv) = pwc_avrg ROps (qLL f) (ivmap Q2R iv).
Proof. exact pwc_avrg_transfer. Qed.
Print Assumptions C10_exec_pwc_avrg_transfer.
Theorem C10_exec_pwc_call_scalar_transfer : forall (f : pwc) (t : Q), rmap Q2R (pwc_call_scalar QOps f t) = pwc_call_scalar ROps (qLL f) (Q2R t).
Proof. exact pwc_call_scalar_transfer. Qed.
Print Assumptions C10_exec_pwc_call_scalar_transfer.
Theorem C10_exec_pwc_call_seq1_transfer : forall (f : pwc) (t : Q), rmap Q2R (pwc_call_seq1 QOps f t) = pwc_call_seq1 ROps (qLL f) (Q2R t).
Proof. exact pwc_call_seq1_transfer. Qed.
Print Assumptions C10_exec_pwc_call_seq1_transfer.
Theorem C10_exec_pwl_integral_transfer : forall (f : pwl) (iv : option (Q * Q)), rmap Q2R (pwl_integral QOps f iv) = pwl_integral ROps (qLLL f) (qIv iv).
Proof. exact pwl_integral_transfer. Qed.
Print Assumptions C10_exec_pwl_integral_transfer.
Theorem C10_exec_pwl_call_scalar_transfer : forall (f : pwl) (t : Q), rmap Q2R (pwl_call_scalar QOps f t) = pwl_call_scalar ROps (qLLL f) (Q2R t).
Proof. exact pwl_call_scalar_transfer. Qed.
Print Assumptions C10_exec_pwl_call_scalar_transfer.
Theorem C10_exec_pwc_overlap_transfer : forall (xs ys : list Q) (a b : Q), Q2R (pwc_overlap QOps xs ys a b) = pwc_overlap ROps (qL xs) (qL ys) (Q2R a) (Q2R b).
Proof. exact pwc_overlap_transfer. Qed.
Print Assumptions C10_exec_pwc_overlap_transfer.
Theorem C10_exec_pwl_overlap_transfer : forall (xs y1 y2 : list Q) (a b : Q), Q2R (pwl_overlap QOps xs y1 y2 a b) = pwl_overlap ROps (qL xs) (qL y1) (qL y2) (Q2R a) (Q2R b).
Proof. exact pwl_overlap_transfer. Qed.
Print Assumptions C10_exec_pwl_overlap_transfer.
Theorem C10_exec_pwc_eval_transfer : forall (f : list Q * list Q) (t : Q), option_map Q2R (pwc_eval QOps f t) = pwc_eval ROps (qLL f) (Q2R t).
Proof. exact pwc_eval_transfer. Qed.
Print Assumptions C10_exec_pwc_eval_transfer.
Theorem C10_exec_pwl_eval_transfer : forall (f : list Q * list Q * list Q) (t : Q), option_map Q2R (pwl_eval QOps f t) = pwl_eval ROps (qLLL f) (Q2R t).
Proof. exact pwl_eval_transfer. Qed.
Print Assumptions C10_exec_pwl_eval_transfer.
