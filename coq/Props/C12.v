(* Props/C12.v — compiled backend (the .pyx text) and pure-Python fall-back compute the same.
   Only statements, `exact`, Print Assumptions and non-vacuity examples.
   Where the .pyx text is a literal duplicate of the Python text ONE model serves both and both
   are tied to it by the correspondence run; where the text differs the variant is modelled
   (…_cy) and proved equal here.  The dedicated single-pass distance routines exist only in the
   .pyx and are proved equal to averaging / summing the corresponding profile. *)
From Coq Require Import List Bool Arith Reals Lra Sorted.
Import ListNotations.
From PS Require Import Num RLemmas Valid ModelKernels ModelFuncs ModelAPI Spec SyncDefs
     Lem_Tau Lem_MinDist Lem_IsiProps Lem_Spike Lem_C12.
From PS Require Lem_OrderSpec.
Require Import PS.Props.PropTac.
Local Open Scope R_scope.

(* --- routines whose text differs --- *)
Theorem C12_interpolate : forall a b t, interp_cy ROps a b t = interp ROps a b t.
Proof. exact interp_cy_eq. Qed.
Print Assumptions C12_interpolate.
Theorem C12_window : forall c1 c2 lim m, get_tau_cy ROps c1 c2 lim m = get_tau ROps c1 c2 lim m.
Proof. exact get_tau_cy_eq. Qed.
Print Assumptions C12_window.
Theorem C12_isi_profile : forall s1 s2 ts te m, isi_profile_cy ROps s1 s2 ts te m = isi_profile_py ROps s1 s2 ts te m.
Proof. exact isi_profile_cy_eq. Qed.
Print Assumptions C12_isi_profile.
Theorem C12_aux_spikes : forall ts te s, t_aux_cy ROps ts te s = t_aux_py ROps ts te s.
Proof. exact t_aux_cy_eq. Qed.
Print Assumptions C12_aux_spikes.
Theorem C12_spike_profile : forall t1 t2 ts te m ri, spike_profile_cy ROps t1 t2 ts te m ri = spike_profile_py ROps t1 t2 ts te m ri.
Proof. exact spike_profile_cy_eq. Qed.
Print Assumptions C12_spike_profile.
Theorem C12_sync_profile : forall s1 s2 ts te mt m,
  coincidence_profile_gen ROps (get_tau_cy ROps) s1 s2 ts te mt m = coincidence_profile_gen ROps (get_tau ROps) s1 s2 ts te mt m.
Proof. exact sync_profile_cy_eq. Qed.
Print Assumptions C12_sync_profile.
Theorem C12_per_spike_indicator : forall s1 s2 ts te mt m,
  coincidence_single_gen ROps (get_tau_cy ROps) s1 s2 ts te mt m = coincidence_single_gen ROps (get_tau ROps) s1 s2 ts te mt m.
Proof. exact single_cy_eq. Qed.
Print Assumptions C12_per_spike_indicator.
Theorem C12_order_profile : forall s1 s2 ts te mt m,
  order_profile_gen ROps (get_tau_cy ROps) s1 s2 ts te mt m = order_profile_gen ROps (get_tau ROps) s1 s2 ts te mt m.
Proof. exact order_profile_cy_eq. Qed.
Print Assumptions C12_order_profile.
Theorem C12_directionality_profile : forall s1 s2 ts te mt m,
  directionality_profile_gen ROps (get_tau_cy ROps) s1 s2 ts te mt m = directionality_profile_gen ROps (get_tau ROps) s1 s2 ts te mt m.
Proof. exact dir_profile_cy_eq. Qed.
Print Assumptions C12_directionality_profile.

(* --- single-pass routines of the compiled backend = aggregate of the profile --- *)
Theorem C12_isi_distance_single_pass : forall s1 s2 ts te m, valid ts te s1 -> valid ts te s2 -> s1 <> [] -> s2 <> [] ->
  Ok (isi_distance_cy ROps s1 s2 ts te m) = pwc_avrg ROps (isi_profile_cy ROps s1 s2 ts te m) (@IvNone R).
Proof. exact isi_distance_cy_avrg. Qed.
Print Assumptions C12_isi_distance_single_pass.
Theorem C12_spike_distance_single_pass : forall t1 t2 ts te m ri, valid ts te t1 -> valid ts te t2 -> t1 <> [] -> t2 <> [] ->
  Ok (spike_distance_cy ROps t1 t2 ts te m ri) = pwl_avrg ROps (spike_profile_cy ROps t1 t2 ts te m ri) (@IvNone R).
Proof. exact spike_distance_cy_avrg. Qed.
Print Assumptions C12_spike_distance_single_pass.
Theorem C12_coincidence_value_single_pass : forall s1 s2 ts te mt m, valid ts te s1 -> valid ts te s2 ->
  coincidence_value_gen ROps (get_tau_cy ROps) s1 s2 ts te mt m =
  (sumF ROps (map (@e_y R) (interior_entries (coincidence_profile_gen ROps (get_tau ROps) s1 s2 ts te mt m))),
   sumF ROps (map (@e_mp R) (interior_entries (coincidence_profile_gen ROps (get_tau ROps) s1 s2 ts te mt m)))).
Proof. exact coinc_value_cy_is_sums. Qed.
Print Assumptions C12_coincidence_value_single_pass.
Theorem C12_order_value_single_pass : forall s1 s2 ts te mt m, valid ts te s1 -> valid ts te s2 ->
  order_value ROps (coinc_scan ROps (tau_fn ROps (get_tau ROps) ts te mt m) s1 s2) 0 0 =
  (sumF ROps (map (@e_y R) (interior_entries (order_profile_gen ROps (get_tau ROps) s1 s2 ts te mt m))),
   sumF ROps (map (@e_mp R) (interior_entries (order_profile_gen ROps (get_tau ROps) s1 s2 ts te mt m)))).
Proof. exact Lem_OrderSpec.order_value_is_profile_sum. Qed.
Print Assumptions C12_order_value_single_pass.
Theorem C12_directionality_single_pass : forall s1 s2 ts te mt m, valid ts te s1 -> valid ts te s2 ->
  dir_value ROps (coinc_scan ROps (tau_fn ROps (get_tau_cy ROps) ts te mt m) s1 s2) 0
  = sumF ROps (fst (directionality_profile_gen ROps (get_tau ROps) s1 s2 ts te mt m)).
Proof. exact dir_value_is_sum. Qed.
Print Assumptions C12_directionality_single_pass.

(* non-vacuity: the input on which the compiled single-pass distances used to return NaN
   (two trains whose only spike is on t_end; repaired by fix commit a855440) is a valid input *)
Example C12_nonvacuous : valid 0 1 [1] /\ [1] <> (@nil R).
Proof. split; [valid_tac | discriminate]. Qed.

(* ---- executed instance (Q, extracted to OCaml and run against /repo) = the real-number functions
   the theorems above are about: kernel-checked parametricity bridge (Bridge.v).  qL = map Q2R etc. ---- *)
From Coq Require Import QArith Qreals.
From PS Require Import Bridge.
Local Close Scope Q_scope.
Theorem C12_exec_get_tau_cy_transfer : forall (c1 c2 : option ctx) (lim mrts : Q), Q2R (get_tau_cy QOps c1 c2 lim mrts) = get_tau_cy ROps (qCtx c1) (qCtx c2) (Q2R lim) (Q2R mrts).
Proof. exact get_tau_cy_transfer. Qed.
Print Assumptions C12_exec_get_tau_cy_transfer.
Theorem C12_exec_isi_profile_cy_transfer : forall (s1 s2 : list Q) (ts te m : Q), qLL (isi_profile_cy QOps s1 s2 ts te m) = isi_profile_cy ROps (qL s1) (qL s2) (Q2R ts) (Q2R te) (Q2R m).
Proof. exact isi_profile_cy_transfer. Qed.
Print Assumptions C12_exec_isi_profile_cy_transfer.
Theorem C12_exec_spike_profile_cy_transfer : forall (t1 t2 : list Q) (ts te m : Q) (ri : bool), qLLL (spike_profile_cy QOps t1 t2 ts te m ri) = spike_profile_cy ROps (qL t1) (qL t2) (Q2R ts) (Q2R te) (Q2R m) ri.
Proof. exact spike_profile_cy_transfer. Qed.
Print Assumptions C12_exec_spike_profile_cy_transfer.
Theorem C12_exec_coinc_value_kernel_cy_transfer : forall (s1 s2 : list Q) (ts te mt mrts : Q), q2 (coinc_value_kernel_cy QOps s1 s2 ts te mt mrts) = coinc_value_kernel_cy ROps (qL s1) (qL s2) (Q2R ts) (Q2R te) (Q2R mt) (Q2R mrts).
Proof. exact coinc_value_kernel_cy_transfer. Qed.
Print Assumptions C12_exec_coinc_value_kernel_cy_transfer.
Theorem C12_exec_order_value_kernel_cy_transfer : forall (s1 s2 : list Q) (ts te mt mrts : Q), q2 (order_value_kernel_cy QOps s1 s2 ts te mt mrts) = order_value_kernel_cy ROps (qL s1) (qL s2) (Q2R ts) (Q2R te) (Q2R mt) (Q2R mrts).
Proof. exact order_value_kernel_cy_transfer. Qed.
Print Assumptions C12_exec_order_value_kernel_cy_transfer.
Theorem C12_exec_dir_value_kernel_cy_transfer : forall (s1 s2 : list Q) (ts te mt mrts : Q), Q2R (dir_value_kernel_cy QOps s1 s2 ts te mt mrts) = dir_value_kernel_cy ROps (qL s1) (qL s2) (Q2R ts) (Q2R te) (Q2R mt) (Q2R mrts).
Proof. exact dir_value_kernel_cy_transfer. Qed.
Print Assumptions C12_exec_dir_value_kernel_cy_transfer.
