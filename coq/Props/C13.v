(* Props/C13.v — inputs are normalised before use (reconcile) .
   Only statements, `exact`, Print Assumptions and non-vacuity examples. *)
From Coq Require Import List Bool Reals Lra Sorted Permutation.
Import ListNotations.
From PS Require Import Num RLemmas Valid ModelKernels ModelFuncs ModelAPI Spec Lem_Lists.
Require Import PS.Props.PropTac.
Local Open Scope R_scope.

(* np.unique as used by reconcile: strictly increasing, exactly the distinct input times *)
Theorem C13_unique_sorted : forall l, ssorted (sort_unique ROps l).
Proof. exact sort_unique_sorted. Qed.
Print Assumptions C13_unique_sorted.
Theorem C13_unique_same_times : forall l x, In x (sort_unique ROps l) <-> In x l.
Proof. exact sort_unique_In. Qed.
Print Assumptions C13_unique_same_times.

(* reconcile returns, for every input train, a train on the common interval
   [min starts, max ends] whose spikes are strictly increasing ... *)
Theorem C13_reconcile_edges_sorted : forall eps l t', In t' (reconcile ROps eps l) -> l <> [] ->
  tr_start t' = common_start l /\ tr_end t' = common_end l /\ ssorted (tr_spikes t').
Proof. exact reconcile_props. Qed.
Print Assumptions C13_reconcile_edges_sorted.
Theorem C13_reconcile_length : forall eps l, length (reconcile ROps eps l) = length l.
Proof. exact reconcile_length. Qed.
Print Assumptions C13_reconcile_length.

(* ... and that contain every input spike time inside the interval (slack eps)
   and nothing else (exactly once, by strict sortedness) *)
Theorem C13_reconcile_times : forall eps l i x, (i < length l)%nat ->
  In x (tr_spikes (nth i (reconcile ROps eps l) ([], 0, 0))) <->
  In x (tr_spikes (nth i l ([], 0, 0))) /\ common_start l - eps < x < common_end l + eps.
Proof. exact reconcile_In. Qed.
Print Assumptions C13_reconcile_times.

(* the code-shaped reconcile equals its declarative specification *)
Theorem C13_reconcile_is_spec : forall eps l, reconcile ROps eps l = reconcile_spec ROps eps l.
Proof. exact reconcile_eq_spec. Qed.
Print Assumptions C13_reconcile_is_spec.

(* doing it twice changes nothing *)
Theorem C13_idempotent : forall eps l, reconcile ROps eps (reconcile ROps eps l) = reconcile ROps eps l.
Proof. exact reconcile_idem'. Qed.
Print Assumptions C13_idempotent.

(* already valid input on a common interval is left unchanged, hence every measure
   (which reconciles first unless Reconcile=False) gives the Reconcile=False result on it *)
Theorem C13_valid_unchanged : forall eps l ts te, 0 < eps -> ts < te ->
  Forall (fun t => valid ts te (tr_spikes t) /\ tr_start t = ts /\ tr_end t = te) l ->
  reconcile ROps eps l = l.
Proof. exact reconcile_valid_id. Qed.
Print Assumptions C13_valid_unchanged.

(* order of the spike times within a train and repeated times do not matter:
   trains with the same edges and the same SET of spike times reconcile identically *)
Theorem C13_order_and_repeats_irrelevant : forall eps l l',
  Forall2 same_train l l' -> reconcile ROps eps l = reconcile ROps eps l'.
Proof. exact reconcile_messy. Qed.
Print Assumptions C13_order_and_repeats_irrelevant.

(* entry points: with Reconcile on (default) a measure is the Reconcile=False measure
   of the reconciled list — shown for the generic multivariate drivers through which
   ISI-, SPIKE-distance/profile/matrix run (definitional unfolding of the model) *)
Theorem C13_distance_multi_reconciles_once : forall eps bi l idx,
  distance_multi_gen ROps eps bi true l idx = distance_multi_gen ROps eps bi false (reconcile ROps eps l) idx.
Proof. reflexivity. Qed.
Print Assumptions C13_distance_multi_reconciles_once.
Theorem C13_profile_multi_reconciles_once : forall eps (P : Type) (padd : P -> P -> res P) bi l idx,
  profile_multi_gen ROps eps padd bi true l idx = profile_multi_gen ROps eps padd bi false (reconcile ROps eps l) idx.
Proof. reflexivity. Qed.
Print Assumptions C13_profile_multi_reconciles_once.
Theorem C13_matrix_reconciles_once : forall eps bi diag sym l idx,
  matrix_gen ROps eps bi diag sym true l idx = matrix_gen ROps eps bi diag sym false (reconcile ROps eps l) idx.
Proof. reflexivity. Qed.
Print Assumptions C13_matrix_reconciles_once.
Theorem C13_sync_multi_reconciles_once : forall eps cy mt m iv l idx,
  spike_sync_multi ROps eps cy true mt m iv l idx = spike_sync_multi ROps eps cy false mt m iv (reconcile ROps eps l) idx.
Proof. reflexivity. Qed.
Print Assumptions C13_sync_multi_reconciles_once.
Theorem C13_order_multi_reconciles_once : forall eps cy nrm mt m l idx,
  spike_train_order_multi ROps eps cy true nrm mt m l idx
  = spike_train_order_multi ROps eps cy false nrm mt m (reconcile ROps eps l) idx.
Proof. reflexivity. Qed.
Print Assumptions C13_order_multi_reconciles_once.
Theorem C13_filter_reconciles_once : forall eps cy mt m thr l,
  filter_by_spike_sync ROps eps cy true mt m thr l = filter_by_spike_sync ROps eps cy false mt m thr (reconcile ROps eps l).
Proof. reflexivity. Qed.
Print Assumptions C13_filter_reconciles_once.

From PS Require Import Lem_API.
From PS Require Lem_Leftovers.
Import Lem_Leftovers.
(* every BIVARIATE entry point: with Reconcile on (default) it is the Reconcile=False function of the
   reconciled pair (rec0/rec1 = the two trains returned by reconcile [a;b]); on valid input Reconcile is
   irrelevant; order of the spike times and repeats are irrelevant *)
Theorem C13_reconciles_once_isi_profile_bi : forall (eps : R) (cy : bool) (m : R) (a b : train), isi_profile_bi ROps eps cy true m a b = isi_profile_bi ROps eps cy false m (rec0 eps a b) (rec1 eps a b).
Proof. exact bi_reconciles_once_isi_profile_bi. Qed.
Print Assumptions C13_reconciles_once_isi_profile_bi.
Theorem C13_reconciles_once_spike_profile_bi : forall (eps : R) (cy : bool) (m : R) (ri : bool) (a b : train), spike_profile_bi ROps eps cy true m ri a b = spike_profile_bi ROps eps cy false m ri (rec0 eps a b) (rec1 eps a b).
Proof. exact bi_reconciles_once_spike_profile_bi. Qed.
Print Assumptions C13_reconciles_once_spike_profile_bi.
Theorem C13_reconciles_once_spike_sync_profile_bi : forall (eps : R) (cy : bool) (mt m : R) (a b : train), spike_sync_profile_bi ROps eps cy true mt m a b = spike_sync_profile_bi ROps eps cy false mt m (rec0 eps a b) (rec1 eps a b).
Proof. exact bi_reconciles_once_spike_sync_profile_bi. Qed.
Print Assumptions C13_reconciles_once_spike_sync_profile_bi.
Theorem C13_reconciles_once_order_profile_bi : forall (eps : R) (cy : bool) (mt m : R) (a b : train), order_profile_bi ROps eps cy true mt m a b = order_profile_bi ROps eps cy false mt m (rec0 eps a b) (rec1 eps a b).
Proof. exact bi_reconciles_once_order_profile_bi. Qed.
Print Assumptions C13_reconciles_once_order_profile_bi.
Theorem C13_reconciles_once_isi_distance_bi : forall (eps : R) (cy : bool) (m : R) (iv : option (R * R)) (a b : train), isi_distance_bi ROps eps cy true m iv a b = isi_distance_bi ROps eps cy false m iv (rec0 eps a b) (rec1 eps a b).
Proof. exact bi_reconciles_once_isi_distance_bi. Qed.
Print Assumptions C13_reconciles_once_isi_distance_bi.
Theorem C13_reconciles_once_spike_distance_bi : forall (eps : R) (cy : bool) (m : R) (ri : bool) (iv : option (R * R)) (a b : train), spike_distance_bi ROps eps cy true m ri iv a b = spike_distance_bi ROps eps cy false m ri iv (rec0 eps a b) (rec1 eps a b).
Proof. exact bi_reconciles_once_spike_distance_bi. Qed.
Print Assumptions C13_reconciles_once_spike_distance_bi.
Theorem C13_reconciles_once_spike_sync_bi : forall (eps : R) (cy : bool) (mt m : R) (iv : option (R * R)) (a b : train), spike_sync_bi ROps eps cy true mt m iv a b = spike_sync_bi ROps eps cy false mt m iv (rec0 eps a b) (rec1 eps a b).
Proof. exact bi_reconciles_once_spike_sync_bi. Qed.
Print Assumptions C13_reconciles_once_spike_sync_bi.
Theorem C13_reconciles_once_spike_train_order_bi : forall (eps : R) (cy nz : bool) (mt m : R) (a b : train), spike_train_order_bi ROps eps cy true nz mt m a b = spike_train_order_bi ROps eps cy false nz mt m (rec0 eps a b) (rec1 eps a b).
Proof. exact bi_reconciles_once_spike_train_order_bi. Qed.
Print Assumptions C13_reconciles_once_spike_train_order_bi.
Theorem C13_reconciles_once_spike_directionality : forall (eps : R) (cy nz : bool) (mt m : R) (a b : train), spike_directionality ROps eps cy true nz mt m a b = spike_directionality ROps eps cy false nz mt m (rec0 eps a b) (rec1 eps a b).
Proof. exact bi_reconciles_once_spike_directionality. Qed.
Print Assumptions C13_reconciles_once_spike_directionality.
Theorem C13_valid_input_isi_distance_bi : forall (eps : R) (cy : bool) (m : R) (iv : option (R * R)) (a b : train) (ts te : R), 0 < eps -> vtrain ts te a -> vtrain ts te b -> isi_distance_bi ROps eps cy true m iv a b = isi_distance_bi ROps eps cy false m iv a b.
Proof. exact bi_valid_reconcile_irrelevant_isi_distance_bi. Qed.
Print Assumptions C13_valid_input_isi_distance_bi.
Theorem C13_valid_input_spike_distance_bi : forall (eps : R) (cy : bool) (m : R) (ri : bool) (iv : option (R * R)) (a b : train) (ts te : R), 0 < eps -> vtrain ts te a -> vtrain ts te b -> spike_distance_bi ROps eps cy true m ri iv a b = spike_distance_bi ROps eps cy false m ri iv a b.
Proof. exact bi_valid_reconcile_irrelevant_spike_distance_bi. Qed.
Print Assumptions C13_valid_input_spike_distance_bi.
Theorem C13_valid_input_spike_sync_bi : forall (eps : R) (cy : bool) (mt m : R) (iv : option (R * R)) (a b : train) (ts te : R), 0 < eps -> vtrain ts te a -> vtrain ts te b -> spike_sync_bi ROps eps cy true mt m iv a b = spike_sync_bi ROps eps cy false mt m iv a b.
Proof. exact bi_valid_reconcile_irrelevant_spike_sync_bi. Qed.
Print Assumptions C13_valid_input_spike_sync_bi.
Theorem C13_valid_input_spike_profile_bi : forall (eps : R) (cy : bool) (m : R) (ri : bool) (a b : train) (ts te : R), 0 < eps -> vtrain ts te a -> vtrain ts te b -> spike_profile_bi ROps eps cy true m ri a b = spike_profile_bi ROps eps cy false m ri a b.
Proof. exact bi_valid_reconcile_irrelevant_spike_profile_bi. Qed.
Print Assumptions C13_valid_input_spike_profile_bi.
Theorem C13_messy_input_isi_distance_bi : forall (eps : R) (cy : bool) (m : R) (iv : option (R * R)) (a b a2 b2 : train), same_train a a2 -> same_train b b2 -> isi_distance_bi ROps eps cy true m iv a b = isi_distance_bi ROps eps cy true m iv a2 b2.
Proof. exact bi_messy_isi_distance_bi. Qed.
Print Assumptions C13_messy_input_isi_distance_bi.
Theorem C13_messy_input_spike_distance_bi : forall (eps : R) (cy : bool) (m : R) (ri : bool) (iv : option (R * R)) (a b a2 b2 : train), same_train a a2 -> same_train b b2 -> spike_distance_bi ROps eps cy true m ri iv a b = spike_distance_bi ROps eps cy true m ri iv a2 b2.
Proof. exact bi_messy_spike_distance_bi. Qed.
Print Assumptions C13_messy_input_spike_distance_bi.
Theorem C13_messy_input_spike_sync_bi : forall (eps : R) (cy : bool) (mt m : R) (iv : option (R * R)) (a b a2 b2 : train), same_train a a2 -> same_train b b2 -> spike_sync_bi ROps eps cy true mt m iv a b = spike_sync_bi ROps eps cy true mt m iv a2 b2.
Proof. exact bi_messy_spike_sync_bi. Qed.
Print Assumptions C13_messy_input_spike_sync_bi.
Theorem C13_messy_input_spike_train_order_bi : forall (eps : R) (cy nz : bool) (mt m : R) (a b a2 b2 : train), same_train a a2 -> same_train b b2 -> spike_train_order_bi ROps eps cy true nz mt m a b = spike_train_order_bi ROps eps cy true nz mt m a2 b2.
Proof. exact bi_messy_spike_train_order_bi. Qed.
Print Assumptions C13_messy_input_spike_train_order_bi.
Theorem C13_messy_input_spike_directionality : forall (eps : R) (cy nz : bool) (mt m : R) (a b a2 b2 : train), same_train a a2 -> same_train b b2 -> spike_directionality ROps eps cy true nz mt m a b = spike_directionality ROps eps cy true nz mt m a2 b2.
Proof. exact bi_messy_spike_directionality. Qed.
Print Assumptions C13_messy_input_spike_directionality.

(* non-vacuity: a messy list (unsorted, repeated, out-of-range times, different edges) and its clean form *)
Example C13_nonvacuous :
  Forall2 same_train [([3/8; 1/8; 3/8], 0, 1); ([1/2], 1/8, 7/8)] [([1/8; 3/8], 0, 1); ([1/2; 1/2], 1/8, 7/8)].
Proof.
  repeat (first [apply Forall2_nil | apply Forall2_cons]); unfold same_train;
  cbn [tr_spikes tr_start tr_end fst snd In]; repeat split; intros; tauto.
Qed.

(* ---- executed instance (Q, extracted to OCaml and run against /repo) = the real-number functions
   the theorems above are about: kernel-checked parametricity bridge (Bridge.v).  qL = map Q2R etc. ---- *)
From Coq Require Import QArith Qreals.
From PS Require Import Bridge.
Local Close Scope Q_scope.
Theorem C13_exec_sort_unique_transfer : forall l : list Q, qL (sort_unique QOps l) = sort_unique ROps (qL l).
Proof. exact sort_unique_transfer. Qed.
Print Assumptions C13_exec_sort_unique_transfer.
Theorem C13_exec_reconcile_transfer : forall (eps : Q) (l : list train), map qTrain (reconcile QOps eps l) = reconcile ROps (Q2R eps) (map qTrain l).
Proof. exact reconcile_transfer. Qed.
Print Assumptions C13_exec_reconcile_transfer.
Theorem C13_exec_reconcile_spec_transfer : forall (eps : Q) (l : list (list Q * Q * Q)), map qTrain (reconcile_spec QOps eps l) = reconcile_spec ROps (Q2R eps) (map qTrain l).
Proof. exact reconcile_spec_transfer. Qed.
Print Assumptions C13_exec_reconcile_spec_transfer.
