(* Props/C13.v — inputs are normalised before use (reconcile) .
   Only statements, `exact`, Print Assumptions and non-vacuity examples. *)
From Coq Require Import List Bool Reals Lra Sorted Permutation.
Import ListNotations.
From PS Require Import Num RLemmas Valid ModelKernels ModelFuncs ModelAPI Spec Lem_Lists.
Require Import PS.Props.PropTac.
Local Open Scope R_scope.

(* np.unique as used by reconcile: strictly increasing, exactly the distinct input times *)
Theorem C13_unique_sorted : forall l, ssorted (sort_unique ROps l).
Proof. exact sort_unique_sorted. Qed.
Print Assumptions C13_unique_sorted.
Theorem C13_unique_same_times : forall l x, In x (sort_unique ROps l) <-> In x l.
Proof. exact sort_unique_In. Qed.
Print Assumptions C13_unique_same_times.

(* reconcile returns, for every input train, a train on the common interval
   [min starts, max ends] whose spikes are strictly increasing ... *)
Theorem C13_reconcile_edges_sorted : forall eps l t', In t' (reconcile ROps eps l) -> l <> [] ->
  tr_start t' = common_start l /\ tr_end t' = common_end l /\ ssorted (tr_spikes t').
Proof. exact reconcile_props. Qed.
Print Assumptions C13_reconcile_edges_sorted.
Theorem C13_reconcile_length : forall eps l, length (reconcile ROps eps l) = length l.
Proof. exact reconcile_length. Qed.
Print Assumptions C13_reconcile_length.

(* ... and that contain every input spike time inside the interval (slack eps)
   and nothing else (exactly once, by strict sortedness) *)
Theorem C13_reconcile_times : forall eps l i x, (i < length l)%nat ->
  In x (tr_spikes (nth i (reconcile ROps eps l) ([], 0, 0))) <->
  In x (tr_spikes (nth i l ([], 0, 0))) /\ common_start l - eps < x < common_end l + eps.
Proof. exact reconcile_In. Qed.
Print Assumptions C13_reconcile_times.

(* the code-shaped reconcile equals its declarative specification *)
Theorem C13_reconcile_is_spec : forall eps l, reconcile ROps eps l = reconcile_spec ROps eps l.
Proof. exact reconcile_eq_spec. Qed.
Print Assumptions C13_reconcile_is_spec.

(* doing it twice changes nothing *)
Theorem C13_idempotent : forall eps l, reconcile ROps eps (reconcile ROps eps l) = reconcile ROps eps l.
Proof. exact reconcile_idem'. Qed.
Print Assumptions C13_idempotent.

(* already valid input on a common interval is left unchanged, hence every measure
   (which reconciles first unless Reconcile=False) gives the Reconcile=False result on it *)
Theorem C13_valid_unchanged : forall eps l ts te, 0 < eps -> ts < te ->
  Forall (fun t => valid ts te (tr_spikes t) /\ tr_start t = ts /\ tr_end t = te) l ->
  reconcile ROps eps l = l.
Proof. exact reconcile_valid_id. Qed.
Print Assumptions C13_valid_unchanged.

(* order of the spike times within a train and repeated times do not matter:
   trains with the same edges and the same SET of spike times reconcile identically *)
Theorem C13_order_and_repeats_irrelevant : forall eps l l',
  Forall2 same_train l l' -> reconcile ROps eps l = reconcile ROps eps l'.
Proof. exact reconcile_messy. Qed.
Print Assumptions C13_order_and_repeats_irrelevant.

(* entry points: with Reconcile on (default) a measure is the Reconcile=False measure
   of the reconciled list — shown for the generic multivariate drivers through which
   ISI-, SPIKE-distance/profile/matrix run (definitional unfolding of the model) *)
Theorem C13_distance_multi_reconciles_once : forall eps bi l idx,
  distance_multi_gen ROps eps bi true l idx = distance_multi_gen ROps eps bi false (reconcile ROps eps l) idx.
Proof. reflexivity. Qed.
Print Assumptions C13_distance_multi_reconciles_once.
Theorem C13_profile_multi_reconciles_once : forall eps (P : Type) (padd : P -> P -> res P) bi l idx,
  profile_multi_gen ROps eps padd bi true l idx = profile_multi_gen ROps eps padd bi false (reconcile ROps eps l) idx.
Proof. reflexivity. Qed.
Print Assumptions C13_profile_multi_reconciles_once.
Theorem C13_matrix_reconciles_once : forall eps bi diag sym l idx,
  matrix_gen ROps eps bi diag sym true l idx = matrix_gen ROps eps bi diag sym false (reconcile ROps eps l) idx.
Proof. reflexivity. Qed.
Print Assumptions C13_matrix_reconciles_once.
Theorem C13_sync_multi_reconciles_once : forall eps cy mt m iv l idx,
  spike_sync_multi ROps eps cy true mt m iv l idx = spike_sync_multi ROps eps cy false mt m iv (reconcile ROps eps l) idx.
Proof. reflexivity. Qed.
Print Assumptions C13_sync_multi_reconciles_once.
Theorem C13_order_multi_reconciles_once : forall eps cy nrm mt m l idx,
  spike_train_order_multi ROps eps cy true nrm mt m l idx
  = spike_train_order_multi ROps eps cy false nrm mt m (reconcile ROps eps l) idx.
Proof. reflexivity. Qed.
Print Assumptions C13_order_multi_reconciles_once.
Theorem C13_filter_reconciles_once : forall eps cy mt m thr l,
  filter_by_spike_sync ROps eps cy true mt m thr l = filter_by_spike_sync ROps eps cy false mt m thr (reconcile ROps eps l).
Proof. reflexivity. Qed.
Print Assumptions C13_filter_reconciles_once.

(* non-vacuity: a messy list (unsorted, repeated, out-of-range times, different edges) and its clean form *)
Example C13_nonvacuous :
  Forall2 same_train [([3/8; 1/8; 3/8], 0, 1); ([1/2], 1/8, 7/8)] [([1/8; 3/8], 0, 1); ([1/2; 1/2], 1/8, 7/8)].
Proof.
  repeat (first [apply Forall2_nil | apply Forall2_cons]); unfold same_train;
  cbn [tr_spikes tr_start tr_end fst snd In]; repeat split; intros; tauto.
Qed.

(* ---- executed instance (Q, extracted to OCaml and run against /repo) = the real-number functions
   the theorems above are about: kernel-checked parametricity bridge (Bridge.v).  qL = map Q2R etc. ---- *)
From Coq Require Import QArith Qreals.
From PS Require Import Bridge.
Local Close Scope Q_scope.
Theorem C13_exec_sort_unique_transfer : forall l : list Q, qL (sort_unique QOps l) = sort_unique ROps (qL l).
Proof. exact sort_unique_transfer. Qed.
Print Assumptions C13_exec_sort_unique_transfer.
Theorem C13_exec_reconcile_transfer : forall (eps : Q) (l : list train), map qTrain (reconcile QOps eps l) = reconcile ROps (Q2R eps) (map qTrain l).
Proof. exact reconcile_transfer. Qed.
Print Assumptions C13_exec_reconcile_transfer.
Theorem C13_exec_reconcile_spec_transfer : forall (eps : Q) (l : list (list Q * Q * Q)), map qTrain (reconcile_spec QOps eps l) = reconcile_spec ROps (Q2R eps) (map qTrain l).
Proof. exact reconcile_spec_transfer. Qed.
Print Assumptions C13_exec_reconcile_spec_transfer.
