(* Props/C15.v — MRTS only de-emphasises small time scales; 'auto' is the pooled ISI threshold.
   Only statements, `exact`, Print Assumptions and non-vacuity examples. *)
From Coq Require Import List Bool Arith Reals Lra Sorted.
Import ListNotations.
From PS Require Import Num RLemmas Valid ModelKernels ModelFuncs ModelAPI Spec SyncDefs Lem_Tau Lem_IsiProps Lem_MinDist Lem_Mrts.
From Coq Require Import Permutation.
From PS Require Import Lem_API Lem_WF Lem_API2 Lem_API3 Lem_API4 Lem_API5 Lem_API10.
Require Import PS.Props.PropTac.
Local Open Scope R_scope.

(* --- raising MRTS never increases an ISI / SPIKE profile value (breakpoints unchanged) --- *)
Theorem C15_isi_monotone : forall s1 s2 ts te m m', valid ts te s1 -> valid ts te s2 -> s1 <> [] -> s2 <> [] ->
  0 <= m -> m <= m' ->
  Forall2 (fun y' y => y' <= y) (snd (isi_profile_py ROps s1 s2 ts te m')) (snd (isi_profile_py ROps s1 s2 ts te m)).
Proof. exact isi_profile_mrts_monotone. Qed.
Print Assumptions C15_isi_monotone.
Theorem C15_isi_breakpoints_independent : forall s1 s2 ts te m m',
  fst (isi_profile_py ROps s1 s2 ts te m) = fst (isi_profile_py ROps s1 s2 ts te m').
Proof. exact isi_profile_mrts_zero_eq. Qed.
Print Assumptions C15_isi_breakpoints_independent.
Theorem C15_spike_monotone : forall s1 s2 ts te m m' ri, valid ts te s1 -> valid ts te s2 -> 0 <= m -> m <= m' ->
  let P := fun mm => spike_profile_py ROps (eff ts te s1) (eff ts te s2) ts te mm ri in
  fst (fst (P m)) = fst (fst (P m')) /\
  Forall2 (fun y' y => y' <= y) (snd (fst (P m'))) (snd (fst (P m))) /\
  Forall2 (fun y' y => y' <= y) (snd (P m')) (snd (P m)).
Proof. exact spike_profile_mrts_monotone. Qed.
Print Assumptions C15_spike_monotone.
(* --- raising MRTS never removes a SPIKE-Sync coincidence --- *)
Theorem C15_sync_monotone : forall s1 s2 ts te mt m m', valid ts te s1 -> valid ts te s2 -> m <= m' ->
  Forall2 (fun e e' => e_t e = e_t e' /\ e_mp e = e_mp e' /\ e_y e <= e_y e')
          (coincidence_profile_gen ROps (get_tau ROps) s1 s2 ts te mt m)
          (coincidence_profile_gen ROps (get_tau ROps) s1 s2 ts te mt m').
Proof. exact sync_mrts_monotone. Qed.
Print Assumptions C15_sync_monotone.
Theorem C15_coincidence_monotone : forall lim m m' c1 c2, m <= m' ->
  coinc ROps lim m c1 c2 = true -> coinc ROps lim m' c1 c2 = true.
Proof. exact C15_sync_mono. Qed.
Print Assumptions C15_coincidence_monotone.

(* --- an MRTS below every inter-spike interval of the trains involved changes nothing --- *)
Theorem C15_isi_noop : forall s1 s2 ts te m, valid ts te s1 -> valid ts te s2 -> 0 <= m ->
  Forall (fun x => m <= x) (isi_lengths_spec ROps s1 ts te) -> Forall (fun x => m <= x) (isi_lengths_spec ROps s2 ts te) ->
  isi_profile_py ROps (eff ts te s1) (eff ts te s2) ts te m = isi_profile_py ROps (eff ts te s1) (eff ts te s2) ts te 0.
Proof. exact isi_profile_mrts_noop. Qed.
Print Assumptions C15_isi_noop.
Theorem C15_spike_noop : forall s1 s2 ts te m ri, valid ts te s1 -> valid ts te s2 -> 0 <= m ->
  Forall (fun x => m <= x) (isi_lengths_spec ROps s1 ts te) -> Forall (fun x => m <= x) (isi_lengths_spec ROps s2 ts te) ->
  spike_profile_py ROps (eff ts te s1) (eff ts te s2) ts te m ri = spike_profile_py ROps (eff ts te s1) (eff ts te s2) ts te 0 ri.
Proof. exact spike_profile_mrts_noop. Qed.
Print Assumptions C15_spike_noop.
Theorem C15_sync_noop : forall s1 s2 ts te mt m, valid ts te s1 -> valid ts te s2 -> 0 <= m ->
  Forall (fun g => m <= g) (diffs ROps s1) -> Forall (fun g => m <= g) (diffs ROps s2) ->
  coincidence_profile_gen ROps (get_tau ROps) s1 s2 ts te mt m = coincidence_profile_gen ROps (get_tau ROps) s1 s2 ts te mt 0.
Proof. exact sync_mrts_noop. Qed.
Print Assumptions C15_sync_noop.

(* --- the automatic threshold: ISI lengths with the edge rules, pooled mean square --- *)
Theorem C15_isi_lengths_are_definition : forall ts te s, valid ts te s ->
  isi_lengths ROps s ts te = isi_lengths_spec ROps s ts te.
Proof. exact isi_lengths_is_spec. Qed.
Print Assumptions C15_isi_lengths_are_definition.
Theorem C15_isi_lengths_positive : forall ts te s, valid ts te s ->
  Forall (fun x => 0 < x) (isi_lengths ROps s ts te) /\ (1 <= length (isi_lengths ROps s ts te))%nat.
Proof. exact isi_lengths_pos. Qed.
Print Assumptions C15_isi_lengths_positive.
Theorem C15_threshold_squared_is_pooled_mean_square : forall (t0 : train) r,
  default_thresh_sq ROps (t0 :: r) =
  fold_right Rplus 0 (map (fun x => x * x) (pool_of t0 (t0 :: r))) / INR (length (pool_of t0 (t0 :: r)))
  /\ 0 <= default_thresh_sq ROps (t0 :: r).
Proof. exact default_thresh_sq_spec. Qed.
Print Assumptions C15_threshold_squared_is_pooled_mean_square.

(* MRTS = 0 is the plain (non-adaptive) formula *)
Theorem C15_zero_is_plain_spike : forall i1 i2 s1 s2, 0 < i1 -> 0 < i2 ->
  dist_at_t ROps i1 i2 s1 s2 0 false = (s1 * i2 + s2 * i1) / (2 * ((i1 + i2) / 2) ^ 2).
Proof. exact dist_at_t_plain_false. Qed.
Print Assumptions C15_zero_is_plain_spike.
Theorem C15_zero_is_plain_window : forall a b, 0 < a -> 0 < b -> interp ROps a b 0 = Rmin a b.
Proof. exact interp_zero. Qed.
Print Assumptions C15_zero_is_plain_window.

(* ---- from Lem_API10.v ---- *)
Theorem C15_default_thresh_sq_nonneg : forall l : list (@train R), 0 <= default_thresh_sq ROps l.
Proof. exact default_thresh_sq_nonneg. Qed.
Print Assumptions C15_default_thresh_sq_nonneg.
Theorem C15_auto_thr_sq : forall l, auto_thr l * auto_thr l = default_thresh_sq ROps l.
Proof. exact auto_thr_sq. Qed.
Print Assumptions C15_auto_thr_sq.
Theorem C15_auto_thr_perm : forall l l' ts te, Permutation l l' -> Forall (vtrain ts te) l ->
  auto_thr l' = auto_thr l.
Proof. exact auto_thr_perm. Qed.
Print Assumptions C15_auto_thr_perm.

Example C15_nonvacuous : valid 0 1 [1/4; 1/2; 1] /\ Forall (fun x => 1/8 <= x) [1/4; 1/4; 1/2].
Proof. split; [valid_tac | repeat constructor; lra]. Qed.

(* ---- executed instance (Q, extracted to OCaml and run against /repo) = the real-number functions
   the theorems above are about: kernel-checked parametricity bridge (Bridge.v).  qL = map Q2R etc. ---- *)
From Coq Require Import QArith Qreals.
From PS Require Import Bridge.
Local Close Scope Q_scope.
Theorem C15_exec_isi_lengths_transfer : forall (s : list Q) (ts te : Q), qL (isi_lengths QOps s ts te) = isi_lengths ROps (qL s) (Q2R ts) (Q2R te).
Proof. exact isi_lengths_transfer. Qed.
Print Assumptions C15_exec_isi_lengths_transfer.
Theorem C15_exec_default_thresh_sq_transfer : forall l : list train, Q2R (default_thresh_sq QOps l) = default_thresh_sq ROps (map qTrain l).
Proof. exact default_thresh_sq_transfer. Qed.
Print Assumptions C15_exec_default_thresh_sq_transfer.
Theorem C15_exec_isi_lengths_spec_transfer : forall (s : list Q) (ts te : Q), qL (isi_lengths_spec QOps s ts te) = isi_lengths_spec ROps (qL s) (Q2R ts) (Q2R te).
Proof. exact isi_lengths_spec_transfer. Qed.
Print Assumptions C15_exec_isi_lengths_spec_transfer.
Theorem C15_exec_get_tau_transfer : forall (c1 c2 : option ctx) (lim mrts : Q), Q2R (get_tau QOps c1 c2 lim mrts) = get_tau ROps (qCtx c1) (qCtx c2) (Q2R lim) (Q2R mrts).
Proof. exact get_tau_transfer. Qed.
Print Assumptions C15_exec_get_tau_transfer.
