(* Props/C01.v — the ISI-profile equals the ISI-distance definition.
   Only statements, `exact`, Print Assumptions and non-vacuity examples. *)
From Coq Require Import List Bool Reals Lra Sorted.
Import ListNotations.
From PS Require Import Num RLemmas Valid ModelKernels ModelFuncs Spec Lem_Isi Lem_IsiProps.
Require Import PS.Props.PropTac.
Local Open Scope R_scope.

(* FULL STATEMENT: for all valid trains (empty, one-spike, edge and shared spikes
   included) and every MRTS, the code-shaped merge scan of the Python fall-back
   returns exactly the declarative profile: breakpoints = the two edges plus every
   distinct spike time strictly inside; value on each piece = |v1-v2| / max(v1,v2,MRTS)
   with v_n the length of train n's inter-spike interval containing the piece
   (edge rules of [isi_len_at]); an empty train counts as [ts; te]. *)
Theorem C01_isi_profile_is_definition : forall s1 s2 ts te m,
  valid ts te s1 -> valid ts te s2 ->
  isi_profile_py ROps (eff ts te s1) (eff ts te s2) ts te m = isi_spec ROps s1 s2 ts te m.
Proof. exact isi_profile_spec. Qed.
Print Assumptions C01_isi_profile_is_definition.

(* the .pyx text (different max order, running nu re-used at the last spike) computes the same *)
Theorem C01_isi_profile_cython_text : forall s1 s2 ts te m,
  isi_profile_cy ROps s1 s2 ts te m = isi_profile_py ROps s1 s2 ts te m.
Proof. exact isi_profile_cy_eq. Qed.
Print Assumptions C01_isi_profile_cython_text.

Theorem C01_breakpoints : forall s1 s2 ts te m,
  valid ts te s1 -> valid ts te s2 ->
  fst (isi_profile_py ROps (eff ts te s1) (eff ts te s2) ts te m) = breaks ROps ts te s1 s2.
Proof. exact isi_profile_breakpoints. Qed.
Print Assumptions C01_breakpoints.

(* every divisor of a kept value is positive: the interval lengths are > 0 inside the recording *)
Theorem C01_interval_lengths_positive : forall ts te u t,
  valid ts te u -> u <> [] -> ts < t < te -> ~ In t u -> 0 < isi_len_at ROps ts te u t.
Proof. exact isi_len_at_pos. Qed.
Print Assumptions C01_interval_lengths_positive.

(* well-formed result: |x| = |y|+1, from t_start to t_end, strictly increasing *)
Theorem C01_wellformed : forall s1 s2 ts te m,
  valid ts te s1 -> valid ts te s2 -> s1 <> [] -> s2 <> [] ->
  let p := isi_profile_py ROps s1 s2 ts te m in
  length (fst p) = S (length (snd p)) /\ hd 0 (fst p) = ts /\ last (fst p) 0 = te /\ ssorted (fst p).
Proof. exact isi_profile_wf. Qed.
Print Assumptions C01_wellformed.

(* non-vacuity: valid trains with an edge spike, a shared spike and an empty train *)
Example C01_nonvacuous : valid 0 1 [0; 3/8; 1] /\ valid 0 1 [3/8; 5/8] /\ valid 0 1 [].
Proof. repeat split; try lra; valid_tac. Qed.

(* ---- executed instance (Q, extracted to OCaml and run against /repo) = the real-number functions
   the theorems above are about: kernel-checked parametricity bridge (Bridge.v).  qL = map Q2R etc. ---- *)
From Coq Require Import QArith Qreals.
From PS Require Import Bridge.
Local Close Scope Q_scope.
Theorem C01_exec_isi_profile_py_transfer : forall (s1 s2 : list Q) (ts te m : Q), qLL (isi_profile_py QOps s1 s2 ts te m) = isi_profile_py ROps (qL s1) (qL s2) (Q2R ts) (Q2R te) (Q2R m).
Proof. exact isi_profile_py_transfer. Qed.
Print Assumptions C01_exec_isi_profile_py_transfer.
Theorem C01_exec_isi_profile_cy_transfer : forall (s1 s2 : list Q) (ts te m : Q), qLL (isi_profile_cy QOps s1 s2 ts te m) = isi_profile_cy ROps (qL s1) (qL s2) (Q2R ts) (Q2R te) (Q2R m).
Proof. exact isi_profile_cy_transfer. Qed.
Print Assumptions C01_exec_isi_profile_cy_transfer.
Theorem C01_exec_isi_spec_transfer : forall (s1 s2 : list Q) (ts te m : Q), qLL (isi_spec QOps s1 s2 ts te m) = isi_spec ROps (qL s1) (qL s2) (Q2R ts) (Q2R te) (Q2R m).
Proof. exact isi_spec_transfer. Qed.
Print Assumptions C01_exec_isi_spec_transfer.
