(* Props/X01_sorting.v — beyond the twenty listed properties: optimal_spike_train_sorting
   (simulated annealing, cython_simulated_annealing.pyx) and permutate_matrix.
   For every random stream and every outcome of the Metropolis draws:
   the result is a permutation, the reported value is the upper-triangle sum of the permuted
   matrix, the iteration count is bounded, and 110 temperatures always suffice.
   Only statements, `exact`, Print Assumptions and a non-vacuity example. *)
From Coq Require Import List Bool Arith ZArith Reals Lra Permutation.
Import ListNotations.
From PS Require Import Num RLemmas ModelSort Lem_Sort.

Theorem X01_result_is_a_permutation : forall (F : Type) (o : NumOps F) rnd metro D Ts Te al fuel p A it,
  sim_ann o rnd metro D Ts Te al fuel = Some (p, A, it) -> Permutation p (seq 0 (length D)).
Proof. exact sim_ann_perm. Qed.
Print Assumptions X01_result_is_a_permutation.

Theorem X01_iterations_bounded : forall (F : Type) (o : NumOps F) rnd metro D Ts Te al fuel p A it,
  sim_ann o rnd metro D Ts Te al fuel = Some (p, A, it) -> it <= fuel * (100 * length D).
Proof. exact sim_ann_iter_bound. Qed.
Print Assumptions X01_iterations_bounded.

(* the running value A (updated incrementally by -2*D[p_i][p_{i+1}] per accepted swap) is exactly
   np.sum(np.triu(permutate_matrix(D, p))) for an antisymmetric matrix such as the directionality matrix *)
Theorem X01_value_tracks_the_permuted_matrix : forall rnd metro D Ts Te al fuel p A it,
  square D -> antisym D ->
  sim_ann ROps rnd metro D Ts Te al fuel = Some (p, A, it) ->
  A = triu_sum ROps (permutate_matrix ROps D p).
Proof. exact sim_ann_tracks. Qed.
Print Assumptions X01_value_tracks_the_permuted_matrix.

Theorem X01_swap_changes_value_by_delta : forall D p i, square D -> antisym D -> Permutation p (seq 0 (length D)) -> S i < length p ->
  triu_sum ROps (permutate_matrix ROps D (swap_adj p i)) =
  (triu_sum ROps (permutate_matrix ROps D p) + (-2) * mget ROps D (nth i p 0%nat) (nth (S i) p 0%nat))%R.
Proof. exact triu_swap. Qed.
Print Assumptions X01_swap_changes_value_by_delta.

(* 0.9^110 < 1e-5: the cooling schedule of _optimal_spike_train_sorting_from_matrix ends after at most 110 temperatures *)
Theorem X01_cooling_terminates : forall rnd metro D fuel, 110 <= fuel ->
  sorting_from_matrix ROps rnd metro D fuel <> None.
Proof. exact sorting_terminates. Qed.
Print Assumptions X01_cooling_terminates.

Example X01_nonvacuous : square D3 /\ antisym D3.
Proof. split; [exact D3_square | exact D3_antisym]. Qed.
