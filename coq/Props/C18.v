(* Props/C18.v — every valid input yields a finite, well-formed result without error.
   Only statements, `exact`, Print Assumptions and non-vacuity examples.
   In the model "without exception" is `= Ok _` (never `Err _`); "finite" is: every divisor
   evaluated for an emitted value is non-zero (Coq's division is total, so this is stated
   separately); the remaining divisions of the API are guarded by explicit zero tests in the model
   exactly as in the code (`if mp == 0`, `if c == 0`). *)
From Coq Require Import List Bool Arith Reals Lra Sorted.
Import ListNotations.
From PS Require Import Num RLemmas Valid ModelKernels ModelFuncs ModelAPI Spec Lem_API Lem_WF.
Require Import PS.Props.PropTac.
Local Open Scope R_scope.

(* bivariate profiles: no error, time axis from t_start to t_end, strictly increasing (discrete:
   strictly increasing interior between the two edge entries), consistent lengths *)
Theorem C18_isi_profile_wf : forall eps cy rc m ts te a b, rc_ok eps rc -> vtrain ts te a -> vtrain ts te b ->
  good_pwc ts te (isi_profile_bi ROps eps cy rc m a b).
Proof. exact isi_profile_bi_wf. Qed.
Print Assumptions C18_isi_profile_wf.
Theorem C18_spike_profile_wf : forall eps cy rc m ri ts te a b, rc_ok eps rc -> vtrain ts te a -> vtrain ts te b ->
  good_pwl ts te (spike_profile_bi ROps eps cy rc m ri a b).
Proof. exact spike_profile_bi_wf. Qed.
Print Assumptions C18_spike_profile_wf.
Theorem C18_sync_profile_wf : forall eps cy rc mt m ts te a b, rc_ok eps rc -> vtrain ts te a -> vtrain ts te b ->
  good_df ts te (spike_sync_profile_bi ROps eps cy rc mt m a b).
Proof. exact sync_profile_bi_wf. Qed.
Print Assumptions C18_sync_profile_wf.
Theorem C18_order_profile_wf : forall eps cy rc mt m ts te a b, rc_ok eps rc -> vtrain ts te a -> vtrain ts te b ->
  exists P, order_profile_bi ROps eps cy rc mt m a b = Ok P /\ good_df ts te P.
Proof. exact order_profile_bi_wf. Qed.
Print Assumptions C18_order_profile_wf.

(* finite values: every divisor used for a value of the ISI / SPIKE profile is positive *)
Theorem C18_isi_divisors_positive : forall s1 s2 ts te m p, valid ts te s1 -> valid ts te s2 ->
  In p (pieces (breaks ROps ts te s1 s2)) ->
  let v1 := isi_len_at ROps ts te (eff ts te s1) (mid ROps p) in
  let v2 := isi_len_at ROps ts te (eff ts te s2) (mid ROps p) in
  0 < v1 /\ 0 < v2 /\ 0 < nmax ROps (nmax ROps v1 v2) m.
Proof. exact isi_divisors_pos. Qed.
Print Assumptions C18_isi_divisors_positive.
Theorem C18_spike_divisors_positive : forall s1 s2 ts te m p, valid ts te s1 -> valid ts te s2 ->
  In p (pieces (breaks ROps ts te s1 s2)) ->
  let tm := mid ROps p in
  let i1 := isi_len_at ROps ts te (eff ts te s1) tm in
  let i2 := isi_len_at ROps ts te (eff ts te s2) tm in
  0 < i1 /\ 0 < i2 /\ 0 < (i1 + i2) / 2 /\ 0 < Rmax m ((i1 + i2) / 2) /\ 0 < (i1 + i2) / 2 * Rmax m ((i1 + i2) / 2) /\
  (forall u pv f, prev_of ROps tm u None = Some pv -> next_of ROps tm u = Some f -> 0 < f - pv).
Proof. exact spike_divisors_pos. Qed.
Print Assumptions C18_spike_divisors_positive.

(* bivariate scalars never fail: whole recording and every admissible sub-interval, both backends *)
Theorem C18_bivariate_scalars_ok : forall eps cy rc nz m mt ri iv ts te a b,
  rc_ok eps rc -> vtrain ts te a -> vtrain ts te b -> iv_ok ts te iv ->
  (exists v, isi_distance_bi ROps eps cy rc m iv a b = Ok v) /\
  (exists v, spike_distance_bi ROps eps cy rc m ri iv a b = Ok v) /\
  (exists v, spike_sync_bi ROps eps cy rc mt m iv a b = Ok v) /\
  (exists v, spike_train_order_bi ROps eps cy rc nz mt m a b = Ok v) /\
  (exists v, spike_directionality ROps eps cy rc nz mt m a b = Ok v).
Proof. exact bi_scalars_ok. Qed.
Print Assumptions C18_bivariate_scalars_ok.

(* multivariate profiles (any admissible index selection, incl. None) *)
Theorem C18_multivariate_profiles_ok : forall eps cy rc m mt ri ts te (l : list train) idx,
  rc_ok eps rc -> ts < te -> Forall (vtrain ts te) l -> idx_ok (length l) idx ->
  (exists P, isi_profile_multi ROps eps cy rc m l idx = Ok P /\ good_pwc ts te P) /\
  (exists P, spike_profile_multi ROps eps cy rc m ri l idx = Ok P /\ good_pwl ts te P) /\
  (exists P, spike_sync_profile_multi ROps eps cy rc mt m l idx = Ok P /\ good_df ts te P) /\
  (exists P, order_profile_multi ROps eps cy rc mt m l idx = Ok P /\ good_df ts te P).
Proof. exact multi_profiles_ok. Qed.
Print Assumptions C18_multivariate_profiles_ok.
(* multivariate scalars, matrices (square of the right size), values, filter *)
Theorem C18_multivariate_scalars_ok : forall eps cy rc nz m mt ri thr iv ts te (l : list train) idx,
  rc_ok eps rc -> ts < te -> Forall (vtrain ts te) l -> idx_ok (length l) idx -> iv_ok ts te iv ->
  let k := length (indices_or_all (length l) idx) in
  (exists v, isi_distance_multi ROps eps cy rc m iv l idx = Ok v) /\
  (exists v, spike_distance_multi ROps eps cy rc m ri iv l idx = Ok v) /\
  (exists v, spike_sync_multi ROps eps cy rc mt m iv l idx = Ok v) /\
  (exists v, spike_train_order_multi ROps eps cy rc nz mt m l idx = Ok v) /\
  (exists M, isi_distance_matrix ROps eps cy rc m iv l idx = Ok M /\ length M = k /\ Forall (fun row => length row = k) M) /\
  (exists M, spike_distance_matrix ROps eps cy rc m ri iv l idx = Ok M /\ length M = k /\ Forall (fun row => length row = k) M) /\
  (exists M, spike_sync_matrix ROps eps cy rc mt m iv l idx = Ok M /\ length M = k /\ Forall (fun row => length row = k) M) /\
  (exists M, spike_directionality_matrix ROps eps cy rc nz mt m l idx = Ok M /\ length M = k /\ Forall (fun row => length row = k) M) /\
  (exists D, directionality_values ROps eps cy rc mt m l idx = Ok D) /\
  length (filter_by_spike_sync ROps eps cy rc mt m thr l) = length l.
Proof. exact multi_scalars_ok. Qed.
Print Assumptions C18_multivariate_scalars_ok.

(* the only modelled error on otherwise valid input: an index outside the list *)
Theorem C18_bad_index_rejected : forall eps cy rc nz m mt ri iv (l : list train) ix i, In i ix -> (length l <= i)%nat ->
  isi_profile_multi ROps eps cy rc m l (Some ix) = Err AssertionError /\
  spike_profile_multi ROps eps cy rc m ri l (Some ix) = Err AssertionError /\
  spike_sync_profile_multi ROps eps cy rc mt m l (Some ix) = Err AssertionError /\
  order_profile_multi ROps eps cy rc mt m l (Some ix) = Err AssertionError /\
  isi_distance_multi ROps eps cy rc m iv l (Some ix) = Err AssertionError /\
  spike_distance_multi ROps eps cy rc m ri iv l (Some ix) = Err AssertionError /\
  spike_sync_multi ROps eps cy rc mt m iv l (Some ix) = Err AssertionError /\
  spike_train_order_multi ROps eps cy rc nz mt m l (Some ix) = Err AssertionError /\
  isi_distance_matrix ROps eps cy rc m iv l (Some ix) = Err AssertionError /\
  spike_distance_matrix ROps eps cy rc m ri iv l (Some ix) = Err AssertionError /\
  spike_sync_matrix ROps eps cy rc mt m iv l (Some ix) = Err AssertionError /\
  spike_directionality_matrix ROps eps cy rc nz mt m l (Some ix) = Err AssertionError /\
  directionality_values ROps eps cy rc mt m l (Some ix) = Err AssertionError.
Proof. exact indices_checked. Qed.
Print Assumptions C18_bad_index_rejected.

(* non-vacuity: a list with every kind of degenerate train *)
Example C18_nonvacuous :
  Forall (vtrain 0 1) [([], 0, 1); ([0], 0, 1); ([1], 0, 1); ([0; 1], 0, 1); ([1/2], 0, 1); ([1/2], 0, 1)] /\ idx_ok 6 None.
Proof.
  split.
  - repeat (first [apply Forall_nil | apply Forall_cons]); unfold vtrain; cbn [tr_spikes tr_start tr_end fst snd]; repeat split; try lra; valid_tac.
  - apply idx_ok_none. auto with arith.
Qed.

(* ---- executed instance (Q, extracted to OCaml and run against /repo) = the real-number functions
   the theorems above are about: kernel-checked parametricity bridge (Bridge.v).  qL = map Q2R etc. ---- *)
From Coq Require Import QArith Qreals.
From PS Require Import Bridge.
Local Close Scope Q_scope.
Theorem C18_exec_isi_profile_multi_transfer : forall (eps : Q) (cy rc : bool) (m : Q) (l : list train) (idx : option (list nat)), rmap qLL (isi_profile_multi QOps eps cy rc m l idx) = isi_profile_multi ROps (Q2R eps) cy rc (Q2R m) (map qTrain l) idx.
Proof. exact isi_profile_multi_transfer. Qed.
Print Assumptions C18_exec_isi_profile_multi_transfer.
Theorem C18_exec_spike_sync_profile_multi_transfer : forall (eps : Q) (cy rc : bool) (mt m : Q) (l : list train) (idx : option (list nat)), rmap (map q3) (spike_sync_profile_multi QOps eps cy rc mt m l idx) = spike_sync_profile_multi ROps (Q2R eps) cy rc (Q2R mt) (Q2R m) (map qTrain l) idx.
Proof. exact spike_sync_profile_multi_transfer. Qed.
Print Assumptions C18_exec_spike_sync_profile_multi_transfer.
Theorem C18_exec_order_profile_multi_transfer : forall (eps : Q) (cy rc : bool) (mt m : Q) (l : list train) (idx : option (list nat)), rmap (map q3) (order_profile_multi QOps eps cy rc mt m l idx) = order_profile_multi ROps (Q2R eps) cy rc (Q2R mt) (Q2R m) (map qTrain l) idx.
Proof. exact order_profile_multi_transfer. Qed.
Print Assumptions C18_exec_order_profile_multi_transfer.
Theorem C18_exec_spike_directionality_matrix_transfer : forall (eps : Q) (cy rc normalize : bool) (mt m : Q) (l : list train) (idx : option (list nat)), rmap (map qL) (spike_directionality_matrix QOps eps cy rc normalize mt m l idx) = spike_directionality_matrix ROps (Q2R eps) cy rc normalize (Q2R mt) (Q2R m) (map qTrain l) idx.
Proof. exact spike_directionality_matrix_transfer. Qed.
Print Assumptions C18_exec_spike_directionality_matrix_transfer.
