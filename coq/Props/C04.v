(* Props/C04.v — spike-train order and directionality follow the leader/follower sign convention.
   Only statements, `exact`, Print Assumptions and non-vacuity examples. *)
From Coq Require Import List Bool Arith Reals Lra Sorted.
Import ListNotations.
From PS Require Import Num RLemmas Valid ModelKernels ModelFuncs ModelAPI Spec SyncDefs Lem_Lists Lem_Sync.
From PS Require Lem_Order Lem_Multi Lem_OrderSpec.
Require Import PS.Props.PropTac.
Local Open Scope R_scope.

(* FULL STATEMENTS: for all valid trains, every max_tau and MRTS, the order profile and the
   directionality values computed by the merged scan equal the declarative definitions built on the
   SAME pairwise coincidence relation as SPIKE-Sync ([coinc]): both spikes of a coincident pair get
   +1 in the order profile when train 1's spike comes first and -1 when it comes second, 0 at
   simultaneous (multiplicity 2) and non-coincident spikes; a spike's directionality value is +1
   if it leads its partner and -1 if it follows *)
Theorem C04_order_profile_is_definition : forall s1 s2 ts te mt m, valid ts te s1 -> valid ts te s2 ->
  order_profile_gen ROps (get_tau ROps) s1 s2 ts te mt m = order_spec ROps s1 s2 ts te mt m.
Proof. exact Lem_OrderSpec.order_profile_spec. Qed.
Print Assumptions C04_order_profile_is_definition.
Theorem C04_directionality_values_are_definition : forall s1 s2 ts te mt m, valid ts te s1 -> valid ts te s2 ->
  directionality_profile_gen ROps (get_tau ROps) s1 s2 ts te mt m = dir_spec ROps s1 s2 ts te mt m.
Proof. exact Lem_OrderSpec.dir_profile_spec. Qed.
Print Assumptions C04_directionality_values_are_definition.

(* the sign convention itself, for a coincident pair c (train 1) / d (train 2) *)
Theorem C04_pair_signs : forall s1 s2 ts te mt m c d, valid ts te s1 -> valid ts te s2 ->
  In c (contexts s1) -> In d (contexts s2) -> coinc ROps (lim_of ROps ts te mt) m c d = true ->
  lead_sign ROps (lim_of ROps ts te mt) m c (contexts s2) = (if Rltb (c_cur c) (c_cur d) then 1 else -1) /\
  0 - lead_sign ROps (lim_of ROps ts te mt) m d (contexts s1) = (if Rltb (c_cur c) (c_cur d) then 1 else -1).
Proof. exact Lem_OrderSpec.order_pair_same_value. Qed.
Print Assumptions C04_pair_signs.
Theorem C04_order_values : forall s1 s2 ts te mt m, valid ts te s1 -> valid ts te s2 ->
  Forall (fun e => e_mp e = 1 /\ (e_y e = -1 \/ e_y e = 0 \/ e_y e = 1) \/ e_mp e = 2 /\ e_y e = 0)
         (interior_entries (order_profile_gen ROps (get_tau ROps) s1 s2 ts te mt m)).
Proof. exact Lem_OrderSpec.order_values_pm1. Qed.
Print Assumptions C04_order_values.

(* swapping the two trains negates the order profile (unless both are empty: known finding F13) ... *)
Theorem C04_swap_negates_order_profile : forall s1 s2 ts te mt m, ssorted s1 -> ssorted s2 -> s1 <> [] \/ s2 <> [] ->
  order_profile_gen ROps (get_tau ROps) s2 s1 ts te mt m
  = map Lem_Order.neg_e (order_profile_gen ROps (get_tau ROps) s1 s2 ts te mt m).
Proof. exact Lem_Order.order_profile_swap. Qed.
Print Assumptions C04_swap_negates_order_profile.
(* ... exchanges the two value lists ... *)
Theorem C04_swap_exchanges_values : forall s1 s2 ts te mt m, ssorted s1 -> ssorted s2 ->
  directionality_profile_gen ROps (get_tau ROps) s2 s1 ts te mt m =
  (snd (directionality_profile_gen ROps (get_tau ROps) s1 s2 ts te mt m),
   fst (directionality_profile_gen ROps (get_tau ROps) s1 s2 ts te mt m)).
Proof. exact Lem_Order.dir_swap. Qed.
Print Assumptions C04_swap_exchanges_values.
(* ... and negates the un-normalised directionality D(A,B) = sum of A's values, on both backends *)
Theorem C04_directionality_antisymmetric : forall eps cy mt m a b d,
  valid (tr_start a) (tr_end a) (tr_spikes a) -> valid (tr_start a) (tr_end a) (tr_spikes b) ->
  tr_start b = tr_start a -> tr_end b = tr_end a ->
  spike_directionality ROps eps cy false false mt m a b = Ok d ->
  spike_directionality ROps eps cy false false mt m b a = Ok (- d).
Proof. exact Lem_OrderSpec.directionality_bi_antisym. Qed.
Print Assumptions C04_directionality_antisymmetric.
Theorem C04_directionality_self_zero : forall eps cy mt m a, valid (tr_start a) (tr_end a) (tr_spikes a) ->
  spike_directionality ROps eps cy false false mt m a a = Ok 0.
Proof. exact Lem_OrderSpec.directionality_self_zero. Qed.
Print Assumptions C04_directionality_self_zero.

(* the directionality matrix is antisymmetric with a zero diagonal *)
Theorem C04_matrix_antisymmetric : forall cy nz mt m (l : list train),
  exists M, spike_directionality_matrix ROps 0 cy false nz mt m l None = Ok M /\ length M = length l /\
    (forall i j, (i < length l)%nat -> (j < length l)%nat -> nth j (nth i M []) 0 = - nth i (nth j M []) 0) /\
    (forall i, (i < length l)%nat -> nth i (nth i M []) 0 = 0).
Proof. exact Lem_Multi.spike_directionality_matrix_antisymmetric. Qed.
Print Assumptions C04_matrix_antisymmetric.

(* synfire indicator = twice the upper-triangle sum of D over (N-1) times the number of spikes
   (normalize = true), or twice the upper-triangle sum of D itself (normalize = false), both backends *)
Theorem C04_synfire_relation : forall eps cy nz mt m ts te (l : list train),
  (cy = false -> 0 < eps) -> Lem_OrderSpec.os_common ts te l -> (2 <= length l)%nat ->
  0 < sumF ROps (map Lem_OrderSpec.os_nsp l) ->
  spike_train_order_multi ROps eps cy false nz mt m l None =
  Ok (if nz then
        2 * Lem_Multi.psum (fun a b => Lem_Multi.valOf (spike_directionality ROps eps cy false false mt m a b)) l
        / ((INR (length l) - 1) * sumF ROps (map Lem_OrderSpec.os_nsp l))
      else
        2 * Lem_Multi.psum (fun a b => Lem_Multi.valOf (spike_directionality ROps eps cy false false mt m a b)) l).
Proof. exact Lem_OrderSpec.synfire_relation. Qed.
Print Assumptions C04_synfire_relation.

(* index selections (any admissible list, any order) = the selected sub-list *)
Theorem C04_values_indices : forall cy mt m l idx, check_indices (length l) idx = true ->
  directionality_values ROps 0 cy false mt m l (Some idx) = directionality_values ROps 0 cy false mt m (map (nth_train ROps l) idx) None.
Proof. exact dirvalues_indices. Qed.
Print Assumptions C04_values_indices.
Theorem C04_order_indices : forall cy nrm mt m l idx, check_indices (length l) idx = true ->
  spike_train_order_multi ROps 0 cy false nrm mt m l (Some idx) = spike_train_order_multi ROps 0 cy false nrm mt m (map (nth_train ROps l) idx) None.
Proof. exact order_multi_indices. Qed.
Print Assumptions C04_order_indices.

From PS Require Lem_MultiAPI2.
Import Lem_MultiAPI2.
(* the per-spike directionality values of N trains: mean over the other N-1 trains of the pairwise leader/follower value *)
Theorem C04_values_are_mean_over_other_trains : forall (eps : R) (cy : bool) (mt m : R) (l : list train) (ts te : R), (2 <= length l)%nat -> Forall (wtrain ts te) l -> exists V : list (list R), directionality_values ROps eps cy false mt m l None = Ok V /\ length V = length l /\ (forall i : nat, (i < length l)%nat -> length (nth i V []) = length (tr_spikes (nth_train ROps l i)) /\ (forall k : nat, (k < length (tr_spikes (nth_train ROps l i)))%nat -> nth k (nth i V []) 0 = sumF ROps (map (fun j : nat => nth k (fst (dir_spec ROps (tr_spikes (nth_train ROps l i)) (tr_spikes (nth_train ROps l j)) ts te mt m)) 0) (filter (fun j : nat => negb (j =? i)) (seq 0 (length l)))) / INR (length l - 1))).
Proof. exact directionality_values_mean. Qed.
Print Assumptions C04_values_are_mean_over_other_trains.

From PS Require Lem_Findings.
(* KNOWN FINDING F13 as a theorem: the normalised spike-train order of two trains without spikes is
   +1 by convention in BOTH argument orders (and for the mirrored input, which is the same input),
   so the sign change under swap / time reversal fails for all-empty input *)
Theorem C04_order_sign_change_refuted_for_empty_input : forall eps cy ts te mt m,
  spike_train_order_bi ROps eps cy false true mt m ([], ts, te) ([], ts, te) = Ok 1.
Proof. exact Lem_Findings.F13_order_of_empty_trains_not_antisymmetric. Qed.
Print Assumptions C04_order_sign_change_refuted_for_empty_input.

Example C04_nonvacuous : valid 0 1 [1/8; 1/2] /\ valid 0 1 [1/4; 7/8] /\ check_indices 4 [3; 0; 2]%nat = true.
Proof. repeat split; try lra; valid_tac. Qed.

(* ---- executed instance (Q, extracted to OCaml and run against /repo) = the real-number functions
   the theorems above are about: kernel-checked parametricity bridge (Bridge.v).  qL = map Q2R etc. ---- *)
From Coq Require Import QArith Qreals.
From PS Require Import Bridge.
Local Close Scope Q_scope.
Theorem C04_exec_order_kernel_transfer : forall (s1 s2 : list Q) (ts te mt mrts : Q), map q3 (order_kernel QOps s1 s2 ts te mt mrts) = order_kernel ROps (qL s1) (qL s2) (Q2R ts) (Q2R te) (Q2R mt) (Q2R mrts).
Proof. exact order_kernel_transfer. Qed.
Print Assumptions C04_exec_order_kernel_transfer.
Theorem C04_exec_dir_kernel_transfer : forall (s1 s2 : list Q) (ts te mt mrts : Q), qLL (dir_kernel QOps s1 s2 ts te mt mrts) = dir_kernel ROps (qL s1) (qL s2) (Q2R ts) (Q2R te) (Q2R mt) (Q2R mrts).
Proof. exact dir_kernel_transfer. Qed.
Print Assumptions C04_exec_dir_kernel_transfer.
Theorem C04_exec_order_spec_transfer : forall (s1 s2 : list Q) (ts te mt mrts : Q), map q3 (order_spec QOps s1 s2 ts te mt mrts) = order_spec ROps (qL s1) (qL s2) (Q2R ts) (Q2R te) (Q2R mt) (Q2R mrts).
Proof. exact order_spec_transfer. Qed.
Print Assumptions C04_exec_order_spec_transfer.
Theorem C04_exec_dir_spec_transfer : forall (s1 s2 : list Q) (ts te mt mrts : Q), qLL (dir_spec QOps s1 s2 ts te mt mrts) = dir_spec ROps (qL s1) (qL s2) (Q2R ts) (Q2R te) (Q2R mt) (Q2R mrts).
Proof. exact dir_spec_transfer. Qed.
Print Assumptions C04_exec_dir_spec_transfer.
Theorem C04_exec_spike_train_order_multi_transfer : forall (eps : Q) (cy rc normalize : bool) (mt m : Q) (l : list train) (idx : option (list nat)), rmap Q2R (spike_train_order_multi QOps eps cy rc normalize mt m l idx) = spike_train_order_multi ROps (Q2R eps) cy rc normalize (Q2R mt) (Q2R m) (map qTrain l) idx.
Proof. exact spike_train_order_multi_transfer. Qed.
Print Assumptions C04_exec_spike_train_order_multi_transfer.
Theorem C04_exec_spike_directionality_matrix_transfer : forall (eps : Q) (cy rc normalize : bool) (mt m : Q) (l : list train) (idx : option (list nat)), rmap (map qL) (spike_directionality_matrix QOps eps cy rc normalize mt m l idx) = spike_directionality_matrix ROps (Q2R eps) cy rc normalize (Q2R mt) (Q2R m) (map qTrain l) idx.
Proof. exact spike_directionality_matrix_transfer. Qed.
Print Assumptions C04_exec_spike_directionality_matrix_transfer.
