(* Props/C19.v — spike trains survive text round-trips and imports unchanged (framing level).
   Only statements, `exact`, Print Assumptions and non-vacuity examples.
   PARTIAL BY NATURE: the decimal conversion itself (float('%.17e' % x) == x, correct rounding of
   '%.pe') is a fact about CPython / libc that no model of this code can express; tokens are the
   already formatted numbers (lists of character codes).  What IS proved is the framing: which
   tokens end up in which train, for every list of trains, separator and comment string. *)
From Coq Require Import List Bool Arith Reals Lra.
Import ListNotations.
From PS Require Import Num RLemmas Valid ModelFuncs ModelAPI ModelIO Lem_IO.
Local Open Scope R_scope.

(* splitting a joined line returns the tokens *)
Theorem C19_split_join : forall sep toks, sep <> [] -> Forall (clean sep) toks -> split sep (join sep toks) = toks.
Proof. exact split_join. Qed.
Print Assumptions C19_split_join.

(* save then load (empty lines not ignored): same number of trains, same order, same tokens,
   empty trains preserved — provided no token contains a separator character or the first
   character of the comment string, and no token is empty *)
Theorem C19_roundtrip : forall sep comment trains, sep <> [] -> comment <> [] ->
  (forall t, In t trains -> Forall (clean sep) t) ->
  (forall t tok, In t trains -> In tok t -> ~ In (hd 0%nat comment) tok) ->
  load_lines sep comment false (save_lines sep trains) = trains.
Proof. exact load_save_roundtrip'. Qed.
Print Assumptions C19_roundtrip.
(* with ignore_empty_lines exactly the empty trains are dropped *)
Theorem C19_roundtrip_ignore_empty : forall sep comment trains, sep <> [] -> comment <> [] ->
  (forall t, In t trains -> Forall (clean sep) t) ->
  (forall t tok, In t trains -> In tok t -> ~ In (hd 0%nat comment) tok) ->
  load_lines sep comment true (save_lines sep trains) = filter (fun t => negb (is_empty t)) trains.
Proof. exact load_save_ignore_empty'. Qed.
Print Assumptions C19_roundtrip_ignore_empty.
(* comment lines anywhere in the file are skipped *)
Theorem C19_comments_skipped : forall sep comment ie l1 l2 c, starts_with comment c = true ->
  load_lines sep comment ie (l1 ++ c :: l2) = load_lines sep comment ie (l1 ++ l2).
Proof. exact load_skips_comments. Qed.
Print Assumptions C19_comments_skipped.

(* 0/1 time series: spikes at start + (k+1)*bin for every non-zero sample k; edges [start, start + n*bin] *)
Theorem C19_time_series : forall start bin row, row <> [] ->
  time_series_row ROps start bin row =
  (map (fun k => start + (INR k + 1) * bin) (filter (fun k => nth k row false) (seq 0 (length row))),
   start, start + INR (length row) * bin).
Proof. exact time_series_row_spec. Qed.
Print Assumptions C19_time_series.
(* a scalar edge means the interval [0, edge] *)
Theorem C19_scalar_edge : forall T, edges_of ROps (inl T) = (0, T).
Proof. exact edges_scalar. Qed.
Print Assumptions C19_scalar_edge.

(* non-vacuity: tokens "1.5" and "2" with separator ", " and comment "#" satisfy the hypotheses *)
Example C19_nonvacuous :
  Forall (clean [44; 32]%nat) [[49; 46; 53]; [50]]%nat /\
  load_lines [44; 32]%nat [35]%nat false (save_lines [44; 32]%nat [[[49; 46; 53]; [50]]; []; [[51]]]%nat)
  = [[[49; 46; 53]; [50]]; []; [[51]]]%nat.
Proof.
  split; [|reflexivity].
  repeat (first [apply Forall_nil | apply Forall_cons]); (split; [discriminate|]);
  cbn [In]; intros c Hc [K|[K|[]]]; subst; repeat (destruct Hc as [Hc|Hc]; [discriminate|]); destruct Hc.
Qed.

(* ---- executed instance (Q, extracted to OCaml and run against /repo) = the real-number functions
   the theorems above are about: kernel-checked parametricity bridge (Bridge.v).  qL = map Q2R etc. ---- *)
From Coq Require Import QArith Qreals.
From PS Require Import Bridge.
Local Close Scope Q_scope.
Theorem C19_exec_time_series_row_transfer : forall (start bin : Q) (row : list bool), qTrain (time_series_row QOps start bin row) = time_series_row ROps (Q2R start) (Q2R bin) row.
Proof. exact time_series_row_transfer. Qed.
Print Assumptions C19_exec_time_series_row_transfer.
