(* Props/C08.v — time shift and scaling leave results unchanged; time reversal mirrors them.
   Only statements, `exact`, Print Assumptions and non-vacuity examples. *)
From Coq Require Import List Bool Arith Reals Lra Sorted.
Import ListNotations.
From PS Require Import Num RLemmas Valid ModelKernels ModelFuncs ModelAPI Spec SyncDefs Lem_IsiProps Lem_Transform Lem_Transform2 Lem_API Lem_WF Lem_API2 Lem_API3 Lem_API4 Lem_API5 Lem_API6 Lem_API7 Lem_API8 Lem_API10 Lem_API11.
Require Import PS.Props.PropTac.
Local Open Scope R_scope.

(* ---------------- shift and scale: only the time axis is transformed ---------------- *)
Theorem C08_isi_shift : forall c s1 s2 ts te m,
  isi_profile_py ROps (map (fun x => x + c) s1) (map (fun x => x + c) s2) (ts + c) (te + c) m =
  (map (fun x => x + c) (fst (isi_profile_py ROps s1 s2 ts te m)), snd (isi_profile_py ROps s1 s2 ts te m)).
Proof. exact isi_profile_shift. Qed.
Print Assumptions C08_isi_shift.
Theorem C08_isi_scale : forall k s1 s2 ts te m, 0 < k ->
  isi_profile_py ROps (map (Rmult k) s1) (map (Rmult k) s2) (k * ts) (k * te) (k * m) =
  (map (Rmult k) (fst (isi_profile_py ROps s1 s2 ts te m)), snd (isi_profile_py ROps s1 s2 ts te m)).
Proof. exact isi_profile_scale. Qed.
Print Assumptions C08_isi_scale.
Theorem C08_spike_shift : forall c s1 s2 ts te m ri, valid ts te s1 -> valid ts te s2 ->
  spike_profile_py ROps (eff (ts + c) (te + c) (map (sh c) s1)) (eff (ts + c) (te + c) (map (sh c) s2)) (ts + c) (te + c) m ri =
  (map (sh c) (fst (fst (spike_profile_py ROps (eff ts te s1) (eff ts te s2) ts te m ri))),
   snd (fst (spike_profile_py ROps (eff ts te s1) (eff ts te s2) ts te m ri)),
   snd (spike_profile_py ROps (eff ts te s1) (eff ts te s2) ts te m ri)).
Proof. exact spike_profile_shift. Qed.
Print Assumptions C08_spike_shift.
Theorem C08_spike_scale : forall k s1 s2 ts te m ri, 0 < k -> valid ts te s1 -> valid ts te s2 ->
  spike_profile_py ROps (eff (k * ts) (k * te) (map (sc k) s1)) (eff (k * ts) (k * te) (map (sc k) s2)) (k * ts) (k * te) (k * m) ri =
  (map (sc k) (fst (fst (spike_profile_py ROps (eff ts te s1) (eff ts te s2) ts te m ri))),
   snd (fst (spike_profile_py ROps (eff ts te s1) (eff ts te s2) ts te m ri)),
   snd (spike_profile_py ROps (eff ts te s1) (eff ts te s2) ts te m ri)).
Proof. exact spike_profile_scale. Qed.
Print Assumptions C08_spike_scale.
Theorem C08_sync_shift : forall c s1 s2 ts te mt m,
  coincidence_profile_gen ROps (get_tau ROps) (map (sh c) s1) (map (sh c) s2) (ts + c) (te + c) mt m =
  map (fun e => (e_t e + c, e_y e, e_mp e)) (coincidence_profile_gen ROps (get_tau ROps) s1 s2 ts te mt m).
Proof. exact sync_profile_shift. Qed.
Print Assumptions C08_sync_shift.
Theorem C08_sync_scale : forall k s1 s2 ts te mt m, 0 < k ->
  coincidence_profile_gen ROps (get_tau ROps) (map (sc k) s1) (map (sc k) s2) (k * ts) (k * te) (k * mt) (k * m) =
  map (fun e => (k * e_t e, e_y e, e_mp e)) (coincidence_profile_gen ROps (get_tau ROps) s1 s2 ts te mt m).
Proof. exact sync_profile_scale. Qed.
Print Assumptions C08_sync_scale.
Theorem C08_order_shift : forall c s1 s2 ts te mt m,
  order_profile_gen ROps (get_tau ROps) (map (sh c) s1) (map (sh c) s2) (ts + c) (te + c) mt m =
  map (fun e => (e_t e + c, e_y e, e_mp e)) (order_profile_gen ROps (get_tau ROps) s1 s2 ts te mt m).
Proof. exact order_profile_shift. Qed.
Print Assumptions C08_order_shift.
Theorem C08_order_scale : forall k s1 s2 ts te mt m, 0 < k ->
  order_profile_gen ROps (get_tau ROps) (map (sc k) s1) (map (sc k) s2) (k * ts) (k * te) (k * mt) (k * m) =
  map (fun e => (k * e_t e, e_y e, e_mp e)) (order_profile_gen ROps (get_tau ROps) s1 s2 ts te mt m).
Proof. exact order_profile_scale. Qed.
Print Assumptions C08_order_scale.
Theorem C08_directionality_scale : forall k s1 s2 ts te mt m, 0 < k ->
  directionality_profile_gen ROps (get_tau ROps) (map (sc k) s1) (map (sc k) s2) (k * ts) (k * te) (k * mt) (k * m) =
  directionality_profile_gen ROps (get_tau ROps) s1 s2 ts te mt m.
Proof. exact dir_profile_scale. Qed.
Print Assumptions C08_directionality_scale.
Theorem C08_directionality_shift : forall c s1 s2 ts te mt m,
  directionality_profile_gen ROps (get_tau ROps) (map (sh c) s1) (map (sh c) s2) (ts + c) (te + c) mt m =
  directionality_profile_gen ROps (get_tau ROps) s1 s2 ts te mt m.
Proof. exact dir_profile_shift. Qed.
Print Assumptions C08_directionality_shift.
Theorem C08_filter_indicator_scale : forall k s1 s2 ts te mt m, 0 < k ->
  coincidence_single_gen ROps (get_tau ROps) (map (sc k) s1) (map (sc k) s2) (k * ts) (k * te) (k * mt) (k * m) =
  coincidence_single_gen ROps (get_tau ROps) s1 s2 ts te mt m.
Proof. exact single_scale. Qed.
Print Assumptions C08_filter_indicator_scale.

(* ---------------- time reversal about the midpoint of the recording ---------------- *)
(* start-edge and end-edge code paths implement the same rule: the profile of the mirrored
   trains is the mirrored profile (left and right limits exchanged for SPIKE) *)
Theorem C08_isi_mirror : forall s1 s2 ts te m, valid ts te s1 -> valid ts te s2 ->
  isi_profile_py ROps (eff ts te (mirror_train ts te s1)) (eff ts te (mirror_train ts te s2)) ts te m =
  (rev (map (mir ts te) (fst (isi_profile_py ROps (eff ts te s1) (eff ts te s2) ts te m))),
   rev (snd (isi_profile_py ROps (eff ts te s1) (eff ts te s2) ts te m))).
Proof. exact isi_profile_mirror. Qed.
Print Assumptions C08_isi_mirror.
Theorem C08_spike_mirror : forall s1 s2 ts te m ri, valid ts te s1 -> valid ts te s2 ->
  spike_profile_py ROps (eff ts te (mirror_train ts te s1)) (eff ts te (mirror_train ts te s2)) ts te m ri =
  (rev (map (mir ts te) (fst (fst (spike_profile_py ROps (eff ts te s1) (eff ts te s2) ts te m ri)))),
   rev (snd (spike_profile_py ROps (eff ts te s1) (eff ts te s2) ts te m ri)),
   rev (snd (fst (spike_profile_py ROps (eff ts te s1) (eff ts te s2) ts te m ri)))).
Proof. exact spike_profile_mirror. Qed.
Print Assumptions C08_spike_mirror.
Theorem C08_sync_mirror : forall s1 s2 ts te mt m, valid ts te s1 -> valid ts te s2 ->
  coincidence_profile_gen ROps (get_tau ROps) (mirror_train ts te s1) (mirror_train ts te s2) ts te mt m =
  rev (map (fun e => (mir ts te (e_t e), e_y e, e_mp e)) (coincidence_profile_gen ROps (get_tau ROps) s1 s2 ts te mt m)).
Proof. exact sync_profile_mirror. Qed.
Print Assumptions C08_sync_mirror.
(* the order profile is mirrored AND negated (interior entries; the edge entries only frame) *)
Theorem C08_order_mirror : forall ts te s1 s2 mt m, valid ts te s1 -> valid ts te s2 ->
  removelast (tl (order_spec ROps (mirror_train ts te s1) (mirror_train ts te s2) ts te mt m)) =
  rev (map (fun e => (mir ts te (e_t e), - e_y e, e_mp e)) (removelast (tl (order_spec ROps s1 s2 ts te mt m)))).
Proof. exact order_spec_mirror. Qed.
Print Assumptions C08_order_mirror.
Theorem C08_directionality_mirror : forall ts te s1 s2 mt m, valid ts te s1 -> valid ts te s2 ->
  dir_spec ROps (mirror_train ts te s1) (mirror_train ts te s2) ts te mt m =
  (rev (map Ropp (fst (dir_spec ROps s1 s2 ts te mt m))), rev (map Ropp (snd (dir_spec ROps s1 s2 ts te mt m)))).
Proof. exact dir_spec_mirror. Qed.
Print Assumptions C08_directionality_mirror.
(* hence the scalar distances are unchanged by the reversal *)
Theorem C08_isi_distance_mirror : forall s1 s2 ts te m, valid ts te s1 -> valid ts te s2 ->
  let P := isi_profile_py ROps (eff ts te s1) (eff ts te s2) ts te m in
  let P' := isi_profile_py ROps (eff ts te (mirror_train ts te s1)) (eff ts te (mirror_train ts te s2)) ts te m in
  pwc_int_all ROps (fst P') (snd P') = pwc_int_all ROps (fst P) (snd P).
Proof. exact isi_integral_mirror. Qed.
Print Assumptions C08_isi_distance_mirror.
Theorem C08_spike_distance_mirror : forall s1 s2 ts te m ri, valid ts te s1 -> valid ts te s2 ->
  let P := spike_profile_py ROps (eff ts te s1) (eff ts te s2) ts te m ri in
  let P' := spike_profile_py ROps (eff ts te (mirror_train ts te s1)) (eff ts te (mirror_train ts te s2)) ts te m ri in
  pwl_int_all ROps (fst (fst P')) (snd (fst P')) (snd P') = pwl_int_all ROps (fst (fst P)) (snd (fst P)) (snd P).
Proof. exact spike_integral_mirror. Qed.
Print Assumptions C08_spike_distance_mirror.

(* ---- API level: the scalar distances of both backends, over the whole recording or any
   sub-interval (moved along), are unchanged by a shift and by a scaling with k > 0 (MRTS scaled along) ---- *)
Theorem C08_isi_distance_shift : forall eps cy m iv c a b ts te, vtrain ts te a -> vtrain ts te b -> iv_ok ts te iv ->
  isi_distance_bi ROps eps cy false m (shift_iv c iv) (shift_train c a) (shift_train c b) = isi_distance_bi ROps eps cy false m iv a b.
Proof. exact isi_distance_shift_iv. Qed.
Print Assumptions C08_isi_distance_shift.
Theorem C08_isi_distance_scale : forall eps cy m iv k a b ts te, 0 < k -> vtrain ts te a -> vtrain ts te b -> iv_ok ts te iv ->
  isi_distance_bi ROps eps cy false (k * m) (scale_iv k iv) (scale_train k a) (scale_train k b) = isi_distance_bi ROps eps cy false m iv a b.
Proof. exact isi_distance_scale_iv. Qed.
Print Assumptions C08_isi_distance_scale.
Theorem C08_spike_distance_shift : forall eps cy m ri iv c a b ts te, vtrain ts te a -> vtrain ts te b -> iv_ok ts te iv ->
  spike_distance_bi ROps eps cy false m ri (shift_iv c iv) (shift_train c a) (shift_train c b) = spike_distance_bi ROps eps cy false m ri iv a b.
Proof. exact spike_distance_shift_iv. Qed.
Print Assumptions C08_spike_distance_shift.
Theorem C08_spike_distance_scale : forall eps cy m ri iv k a b ts te, 0 < k -> vtrain ts te a -> vtrain ts te b -> iv_ok ts te iv ->
  spike_distance_bi ROps eps cy false (k * m) ri (scale_iv k iv) (scale_train k a) (scale_train k b) = spike_distance_bi ROps eps cy false m ri iv a b.
Proof. exact spike_distance_scale_iv. Qed.
Print Assumptions C08_spike_distance_scale.

(* the remaining two-train scalars (Lem_API3.v), both backends *)
Theorem C08_sync_value_shift : forall eps cy mt m iv c a b ts te, vtrain ts te a -> vtrain ts te b -> iv_ok ts te iv ->
  spike_sync_bi ROps eps cy false mt m (shift_iv c iv) (shift_train c a) (shift_train c b) = spike_sync_bi ROps eps cy false mt m iv a b.
Proof. exact sync_value_shift. Qed.
Print Assumptions C08_sync_value_shift.
Theorem C08_sync_value_scale : forall eps cy mt m iv k a b ts te, 0 < k -> vtrain ts te a -> vtrain ts te b -> iv_ok ts te iv ->
  spike_sync_bi ROps eps cy false (k * mt) (k * m) (scale_iv k iv) (scale_train k a) (scale_train k b) = spike_sync_bi ROps eps cy false mt m iv a b.
Proof. exact sync_value_scale. Qed.
Print Assumptions C08_sync_value_scale.
Theorem C08_order_value_shift : forall eps cy nrm mt m c a b ts te, vtrain ts te a -> vtrain ts te b ->
  spike_train_order_bi ROps eps cy false nrm mt m (shift_train c a) (shift_train c b) = spike_train_order_bi ROps eps cy false nrm mt m a b.
Proof. exact order_value_shift. Qed.
Print Assumptions C08_order_value_shift.
(* the fall-back path reconciles with an absolute tolerance eps that does not scale: harmless for eps >= 0 (the code has 1e-6) *)
Theorem C08_order_value_scale : forall eps cy nrm mt m k a b ts te, 0 < k -> cy = true \/ 0 <= eps -> vtrain ts te a -> vtrain ts te b ->
  spike_train_order_bi ROps eps cy false nrm (k * mt) (k * m) (scale_train k a) (scale_train k b) = spike_train_order_bi ROps eps cy false nrm mt m a b.
Proof. exact order_value_scale. Qed.
Print Assumptions C08_order_value_scale.
Theorem C08_directionality_value_shift : forall eps cy nrm mt m c a b ts te, vtrain ts te a -> vtrain ts te b ->
  spike_directionality ROps eps cy false nrm mt m (shift_train c a) (shift_train c b) = spike_directionality ROps eps cy false nrm mt m a b.
Proof. exact directionality_shift. Qed.
Print Assumptions C08_directionality_value_shift.
Theorem C08_directionality_value_scale : forall eps cy nrm mt m k a b ts te, 0 < k -> vtrain ts te a -> vtrain ts te b ->
  spike_directionality ROps eps cy false nrm (k * mt) (k * m) (scale_train k a) (scale_train k b) = spike_directionality ROps eps cy false nrm mt m a b.
Proof. exact directionality_scale. Qed.
Print Assumptions C08_directionality_value_scale.
(* time reversal at API level: ISI, SPIKE, SPIKE-Sync values unchanged; directionality and order change sign *)
Theorem C08_isi_distance_value_mirror : forall eps cy m a b ts te, vtrain ts te a -> vtrain ts te b ->
  isi_distance_bi ROps eps cy false m None (mirror_tr a) (mirror_tr b) = isi_distance_bi ROps eps cy false m None a b.
Proof. exact Lem_API3.isi_distance_mirror. Qed.
Print Assumptions C08_isi_distance_value_mirror.
Theorem C08_spike_distance_value_mirror : forall eps cy m ri a b ts te, vtrain ts te a -> vtrain ts te b ->
  spike_distance_bi ROps eps cy false m ri None (mirror_tr a) (mirror_tr b) = spike_distance_bi ROps eps cy false m ri None a b.
Proof. exact Lem_API3.spike_distance_mirror. Qed.
Print Assumptions C08_spike_distance_value_mirror.
Theorem C08_sync_value_mirror : forall eps cy mt m a b ts te, vtrain ts te a -> vtrain ts te b ->
  spike_sync_bi ROps eps cy false mt m None (mirror_tr a) (mirror_tr b) = spike_sync_bi ROps eps cy false mt m None a b.
Proof. exact sync_value_mirror. Qed.
Print Assumptions C08_sync_value_mirror.
Theorem C08_directionality_value_mirror : forall eps cy nrm mt m a b ts te, vtrain ts te a -> vtrain ts te b ->
  spike_directionality ROps eps cy false nrm mt m (mirror_tr a) (mirror_tr b) = rmap Ropp (spike_directionality ROps eps cy false nrm mt m a b).
Proof. exact directionality_mirror. Qed.
Print Assumptions C08_directionality_value_mirror.
Theorem C08_order_value_mirror : forall eps cy mt m a b ts te, vtrain ts te a -> vtrain ts te b ->
  spike_train_order_bi ROps eps cy false false mt m (mirror_tr a) (mirror_tr b) = rmap Ropp (spike_train_order_bi ROps eps cy false false mt m a b).
Proof. exact order_value_mirror. Qed.
Print Assumptions C08_order_value_mirror.
(* normalised order value: sign change for every input with at least one spike; without spikes it fails (F13, next theorem) *)
Theorem C08_order_value_mirror_normalised : forall eps cy mt m a b ts te, cy = true \/ 0 < eps -> vtrain ts te a -> vtrain ts te b ->
  tr_spikes a <> [] \/ tr_spikes b <> [] ->
  spike_train_order_bi ROps eps cy false true mt m (mirror_tr a) (mirror_tr b) = rmap Ropp (spike_train_order_bi ROps eps cy false true mt m a b).
Proof. exact order_value_mirror_norm. Qed.
Print Assumptions C08_order_value_mirror_normalised.

(* the multivariate scalars (Lem_API4.v): every list of trains on a common recording, both backends *)
Theorem C08_isi_multi_shift : forall eps cy m iv c l ts te, Forall (vtrain ts te) l -> iv_ok ts te iv ->
  isi_distance_multi ROps eps cy false m (shift_iv c iv) (map (shift_train c) l) None = isi_distance_multi ROps eps cy false m iv l None.
Proof. exact isi_multi_shift. Qed.
Print Assumptions C08_isi_multi_shift.
Theorem C08_isi_multi_scale : forall eps cy m iv k l ts te, 0 < k -> Forall (vtrain ts te) l -> iv_ok ts te iv ->
  isi_distance_multi ROps eps cy false (k * m) (scale_iv k iv) (map (scale_train k) l) None = isi_distance_multi ROps eps cy false m iv l None.
Proof. exact isi_multi_scale. Qed.
Print Assumptions C08_isi_multi_scale.
Theorem C08_spike_multi_shift : forall eps cy m ri iv c l ts te, Forall (vtrain ts te) l -> iv_ok ts te iv ->
  spike_distance_multi ROps eps cy false m ri (shift_iv c iv) (map (shift_train c) l) None = spike_distance_multi ROps eps cy false m ri iv l None.
Proof. exact spike_multi_shift. Qed.
Print Assumptions C08_spike_multi_shift.
Theorem C08_spike_multi_scale : forall eps cy m ri iv k l ts te, 0 < k -> Forall (vtrain ts te) l -> iv_ok ts te iv ->
  spike_distance_multi ROps eps cy false (k * m) ri (scale_iv k iv) (map (scale_train k) l) None = spike_distance_multi ROps eps cy false m ri iv l None.
Proof. exact spike_multi_scale. Qed.
Print Assumptions C08_spike_multi_scale.
Theorem C08_sync_multi_shift : forall eps cy mt m iv c l ts te, Forall (vtrain ts te) l -> iv_ok ts te iv ->
  spike_sync_multi ROps eps cy false mt m (shift_iv c iv) (map (shift_train c) l) None = spike_sync_multi ROps eps cy false mt m iv l None.
Proof. exact sync_multi_shift. Qed.
Print Assumptions C08_sync_multi_shift.
Theorem C08_sync_multi_scale : forall eps cy mt m iv k l ts te, 0 < k -> Forall (vtrain ts te) l -> iv_ok ts te iv ->
  spike_sync_multi ROps eps cy false (k * mt) (k * m) (scale_iv k iv) (map (scale_train k) l) None = spike_sync_multi ROps eps cy false mt m iv l None.
Proof. exact sync_multi_scale. Qed.
Print Assumptions C08_sync_multi_scale.
Theorem C08_order_multi_shift : forall eps cy nrm mt m c l ts te, Forall (vtrain ts te) l ->
  spike_train_order_multi ROps eps cy false nrm mt m (map (shift_train c) l) None = spike_train_order_multi ROps eps cy false nrm mt m l None.
Proof. exact order_multi_shift. Qed.
Print Assumptions C08_order_multi_shift.
Theorem C08_order_multi_scale : forall eps cy nrm mt m k l ts te, 0 < k -> cy = true \/ 0 <= eps -> Forall (vtrain ts te) l ->
  spike_train_order_multi ROps eps cy false nrm (k * mt) (k * m) (map (scale_train k) l) None = spike_train_order_multi ROps eps cy false nrm mt m l None.
Proof. exact order_multi_scale. Qed.
Print Assumptions C08_order_multi_scale.
Theorem C08_isi_multi_mirror : forall eps cy m l ts te, Forall (vtrain ts te) l ->
  isi_distance_multi ROps eps cy false m None (map mirror_tr l) None = isi_distance_multi ROps eps cy false m None l None.
Proof. exact isi_multi_mirror. Qed.
Print Assumptions C08_isi_multi_mirror.
Theorem C08_spike_multi_mirror : forall eps cy m ri l ts te, Forall (vtrain ts te) l ->
  spike_distance_multi ROps eps cy false m ri None (map mirror_tr l) None = spike_distance_multi ROps eps cy false m ri None l None.
Proof. exact spike_multi_mirror. Qed.
Print Assumptions C08_spike_multi_mirror.
Theorem C08_sync_multi_mirror : forall eps cy mt m l ts te, Forall (vtrain ts te) l ->
  spike_sync_multi ROps eps cy false mt m None (map mirror_tr l) None = spike_sync_multi ROps eps cy false mt m None l None.
Proof. exact sync_multi_mirror. Qed.
Print Assumptions C08_sync_multi_mirror.
Theorem C08_order_multi_mirror : forall eps cy mt m l ts te, Forall (vtrain ts te) l ->
  spike_train_order_multi ROps eps cy false false mt m (map mirror_tr l) None = rmap Ropp (spike_train_order_multi ROps eps cy false false mt m l None).
Proof. exact order_multi_mirror. Qed.
Print Assumptions C08_order_multi_mirror.
(* normalised synfire indicator: sign change for every list of >= 2 trains with at least one spike *)
Theorem C08_order_multi_mirror_normalised : forall eps cy mt m l ts te, cy = true \/ 0 < eps ->
  Forall (vtrain ts te) l -> (2 <= length l)%nat -> (exists t, In t l /\ tr_spikes t <> []) ->
  spike_train_order_multi ROps eps cy false true mt m (map mirror_tr l) None = rmap Ropp (spike_train_order_multi ROps eps cy false true mt m l None).
Proof. exact order_multi_mirror_norm. Qed.
Print Assumptions C08_order_multi_mirror_normalised.

From PS Require Lem_Findings.
(* KNOWN FINDING F13 as a theorem: the normalised spike-train order of two trains without spikes is
   +1 by convention in BOTH argument orders (and for the mirrored input, which is the same input),
   so the sign change under swap / time reversal fails for all-empty input *)
Theorem C08_order_sign_change_refuted_for_empty_input : forall eps cy ts te mt m,
  spike_train_order_bi ROps eps cy false true mt m ([], ts, te) ([], ts, te) = Ok 1.
Proof. exact Lem_Findings.F13_order_of_empty_trains_not_antisymmetric. Qed.
Print Assumptions C08_order_sign_change_refuted_for_empty_input.

(* non-vacuity: the pair on which the SPIKE mirror relation used to fail (lone spike on t_start,
   repaired by fix commit 6b5df87) is a valid input, and mirroring keeps validity *)
(* ---- from Lem_API5.v ---- *)
Theorem C08_isi_matrix_shift : forall eps cy m iv c l idx ts te,
  Forall (vtrain ts te) l -> iv_ok ts te iv ->
  isi_distance_matrix ROps eps cy false m (shift_iv c iv) (map (shift_train c) l) idx
  = isi_distance_matrix ROps eps cy false m iv l idx.
Proof. exact isi_matrix_shift. Qed.
Print Assumptions C08_isi_matrix_shift.
Theorem C08_spike_matrix_shift : forall eps cy m ri iv c l idx ts te,
  Forall (vtrain ts te) l -> iv_ok ts te iv ->
  spike_distance_matrix ROps eps cy false m ri (shift_iv c iv) (map (shift_train c) l) idx
  = spike_distance_matrix ROps eps cy false m ri iv l idx.
Proof. exact spike_matrix_shift. Qed.
Print Assumptions C08_spike_matrix_shift.
Theorem C08_sync_matrix_shift : forall eps cy mt m iv c l idx ts te,
  Forall (vtrain ts te) l -> iv_ok ts te iv ->
  spike_sync_matrix ROps eps cy false mt m (shift_iv c iv) (map (shift_train c) l) idx
  = spike_sync_matrix ROps eps cy false mt m iv l idx.
Proof. exact sync_matrix_shift. Qed.
Print Assumptions C08_sync_matrix_shift.
Theorem C08_isi_matrix_scale : forall eps cy m iv k l idx ts te, 0 < k ->
  Forall (vtrain ts te) l -> iv_ok ts te iv ->
  isi_distance_matrix ROps eps cy false (k * m) (scale_iv k iv) (map (scale_train k) l) idx
  = isi_distance_matrix ROps eps cy false m iv l idx.
Proof. exact isi_matrix_scale. Qed.
Print Assumptions C08_isi_matrix_scale.
Theorem C08_spike_matrix_scale : forall eps cy m ri iv k l idx ts te, 0 < k ->
  Forall (vtrain ts te) l -> iv_ok ts te iv ->
  spike_distance_matrix ROps eps cy false (k * m) ri (scale_iv k iv) (map (scale_train k) l) idx
  = spike_distance_matrix ROps eps cy false m ri iv l idx.
Proof. exact spike_matrix_scale. Qed.
Print Assumptions C08_spike_matrix_scale.
Theorem C08_sync_matrix_scale : forall eps cy mt m iv k l idx ts te, 0 < k ->
  Forall (vtrain ts te) l -> iv_ok ts te iv ->
  spike_sync_matrix ROps eps cy false (k * mt) (k * m) (scale_iv k iv) (map (scale_train k) l) idx
  = spike_sync_matrix ROps eps cy false mt m iv l idx.
Proof. exact sync_matrix_scale. Qed.
Print Assumptions C08_sync_matrix_scale.
Theorem C08_isi_matrix_mirror : forall eps cy m l idx ts te, Forall (vtrain ts te) l ->
  isi_distance_matrix ROps eps cy false m None (map mirror_tr l) idx
  = isi_distance_matrix ROps eps cy false m None l idx.
Proof. exact isi_matrix_mirror. Qed.
Print Assumptions C08_isi_matrix_mirror.
Theorem C08_spike_matrix_mirror : forall eps cy m ri l idx ts te, Forall (vtrain ts te) l ->
  spike_distance_matrix ROps eps cy false m ri None (map mirror_tr l) idx
  = spike_distance_matrix ROps eps cy false m ri None l idx.
Proof. exact spike_matrix_mirror. Qed.
Print Assumptions C08_spike_matrix_mirror.
Theorem C08_sync_matrix_mirror : forall eps cy mt m l idx ts te, Forall (vtrain ts te) l ->
  spike_sync_matrix ROps eps cy false mt m None (map mirror_tr l) idx
  = spike_sync_matrix ROps eps cy false mt m None l idx.
Proof. exact sync_matrix_mirror. Qed.
Print Assumptions C08_sync_matrix_mirror.
Theorem C08_auto_threshold_shift : forall c (l : list (@train R)),
  default_thresh_sq ROps (map (shift_train c) l) = default_thresh_sq ROps l.
Proof. exact default_thresh_sq_shift_gen. Qed.
Print Assumptions C08_auto_threshold_shift.
Theorem C08_auto_threshold_scale : forall k (l : list (@train R)), 0 < k ->
  default_thresh_sq ROps (map (scale_train k) l) = k * k * default_thresh_sq ROps l.
Proof. exact default_thresh_sq_scale_gen. Qed.
Print Assumptions C08_auto_threshold_scale.
Theorem C08_auto_threshold_mirror : forall (l : list (@train R)) ts te, Forall (vtrain ts te) l ->
  default_thresh_sq ROps (map mirror_tr l) = default_thresh_sq ROps l.
Proof. exact default_thresh_sq_mirror. Qed.
Print Assumptions C08_auto_threshold_mirror.

(* ---- from Lem_API6.v ---- *)
Theorem C08_isi_profile_multi_shift : forall eps cy m c l idx ts te, Forall (vtrain ts te) l ->
  isi_profile_multi ROps eps cy false m (map (shift_train c) l) idx
  = rmap (shift_pwc c) (isi_profile_multi ROps eps cy false m l idx).
Proof. exact isi_profile_multi_shift. Qed.
Print Assumptions C08_isi_profile_multi_shift.
Theorem C08_isi_profile_multi_scale : forall eps cy m k l idx ts te, 0 < k -> Forall (vtrain ts te) l ->
  isi_profile_multi ROps eps cy false (k * m) (map (scale_train k) l) idx
  = rmap (scale_pwc k) (isi_profile_multi ROps eps cy false m l idx).
Proof. exact isi_profile_multi_scale. Qed.
Print Assumptions C08_isi_profile_multi_scale.
Theorem C08_spike_profile_multi_shift : forall eps cy m ri c l idx ts te, Forall (vtrain ts te) l ->
  spike_profile_multi ROps eps cy false m ri (map (shift_train c) l) idx
  = rmap (shift_pwl c) (spike_profile_multi ROps eps cy false m ri l idx).
Proof. exact spike_profile_multi_shift. Qed.
Print Assumptions C08_spike_profile_multi_shift.
Theorem C08_spike_profile_multi_scale : forall eps cy m ri k l idx ts te, 0 < k -> Forall (vtrain ts te) l ->
  spike_profile_multi ROps eps cy false (k * m) ri (map (scale_train k) l) idx
  = rmap (scale_pwl k) (spike_profile_multi ROps eps cy false m ri l idx).
Proof. exact spike_profile_multi_scale. Qed.
Print Assumptions C08_spike_profile_multi_scale.
Theorem C08_sync_profile_multi_shift : forall eps cy mt m c (l : list (@train R)) idx,
  spike_sync_profile_multi ROps eps cy false mt m (map (shift_train c) l) idx
  = rmap (shift_df c) (spike_sync_profile_multi ROps eps cy false mt m l idx).
Proof. exact sync_profile_multi_shift. Qed.
Print Assumptions C08_sync_profile_multi_shift.
Theorem C08_sync_profile_multi_scale : forall eps cy mt m k (l : list (@train R)) idx, 0 < k ->
  spike_sync_profile_multi ROps eps cy false (k * mt) (k * m) (map (scale_train k) l) idx
  = rmap (scale_df k) (spike_sync_profile_multi ROps eps cy false mt m l idx).
Proof. exact sync_profile_multi_scale. Qed.
Print Assumptions C08_sync_profile_multi_scale.
Theorem C08_order_profile_multi_shift : forall eps cy mt m c (l : list (@train R)) idx,
  order_profile_multi ROps eps cy false mt m (map (shift_train c) l) idx
  = rmap (shift_df c) (order_profile_multi ROps eps cy false mt m l idx).
Proof. exact order_profile_multi_shift. Qed.
Print Assumptions C08_order_profile_multi_shift.
Theorem C08_order_profile_multi_scale : forall eps cy mt m k (l : list (@train R)) idx, 0 < k ->
  order_profile_multi ROps eps cy false (k * mt) (k * m) (map (scale_train k) l) idx
  = rmap (scale_df k) (order_profile_multi ROps eps cy false mt m l idx).
Proof. exact order_profile_multi_scale. Qed.
Print Assumptions C08_order_profile_multi_scale.

(* ---- from Lem_API7.v ---- *)
Theorem C08_isi_multi_shift_idx : forall eps cy m iv c l idx ts te,
  Forall (vtrain ts te) l -> iv_ok ts te iv ->
  isi_distance_multi ROps eps cy false m (shift_iv c iv) (map (shift_train c) l) idx
  = isi_distance_multi ROps eps cy false m iv l idx.
Proof. exact isi_multi_shift_idx. Qed.
Print Assumptions C08_isi_multi_shift_idx.
Theorem C08_spike_multi_shift_idx : forall eps cy m ri iv c l idx ts te,
  Forall (vtrain ts te) l -> iv_ok ts te iv ->
  spike_distance_multi ROps eps cy false m ri (shift_iv c iv) (map (shift_train c) l) idx
  = spike_distance_multi ROps eps cy false m ri iv l idx.
Proof. exact spike_multi_shift_idx. Qed.
Print Assumptions C08_spike_multi_shift_idx.
Theorem C08_sync_multi_shift_idx : forall eps cy mt m iv c l idx ts te,
  Forall (vtrain ts te) l -> iv_ok ts te iv ->
  spike_sync_multi ROps eps cy false mt m (shift_iv c iv) (map (shift_train c) l) idx
  = spike_sync_multi ROps eps cy false mt m iv l idx.
Proof. exact sync_multi_shift_idx. Qed.
Print Assumptions C08_sync_multi_shift_idx.
Theorem C08_order_multi_shift_idx : forall eps cy nrm mt m c l idx ts te,
  Forall (vtrain ts te) l ->
  spike_train_order_multi ROps eps cy false nrm mt m (map (shift_train c) l) idx
  = spike_train_order_multi ROps eps cy false nrm mt m l idx.
Proof. exact order_multi_shift_idx. Qed.
Print Assumptions C08_order_multi_shift_idx.
Theorem C08_isi_multi_scale_idx : forall eps cy m iv k l idx ts te, 0 < k ->
  Forall (vtrain ts te) l -> iv_ok ts te iv ->
  isi_distance_multi ROps eps cy false (k * m) (scale_iv k iv) (map (scale_train k) l) idx
  = isi_distance_multi ROps eps cy false m iv l idx.
Proof. exact isi_multi_scale_idx. Qed.
Print Assumptions C08_isi_multi_scale_idx.
Theorem C08_spike_multi_scale_idx : forall eps cy m ri iv k l idx ts te, 0 < k ->
  Forall (vtrain ts te) l -> iv_ok ts te iv ->
  spike_distance_multi ROps eps cy false (k * m) ri (scale_iv k iv) (map (scale_train k) l) idx
  = spike_distance_multi ROps eps cy false m ri iv l idx.
Proof. exact spike_multi_scale_idx. Qed.
Print Assumptions C08_spike_multi_scale_idx.
Theorem C08_sync_multi_scale_idx : forall eps cy mt m iv k l idx ts te, 0 < k ->
  Forall (vtrain ts te) l -> iv_ok ts te iv ->
  spike_sync_multi ROps eps cy false (k * mt) (k * m) (scale_iv k iv) (map (scale_train k) l) idx
  = spike_sync_multi ROps eps cy false mt m iv l idx.
Proof. exact sync_multi_scale_idx. Qed.
Print Assumptions C08_sync_multi_scale_idx.
Theorem C08_order_multi_scale_idx : forall eps cy nrm mt m k l idx ts te, 0 < k -> cy = true \/ 0 <= eps ->
  Forall (vtrain ts te) l ->
  spike_train_order_multi ROps eps cy false nrm (k * mt) (k * m) (map (scale_train k) l) idx
  = spike_train_order_multi ROps eps cy false nrm mt m l idx.
Proof. exact order_multi_scale_idx. Qed.
Print Assumptions C08_order_multi_scale_idx.
Theorem C08_isi_multi_mirror_idx : forall eps cy m l idx ts te, Forall (vtrain ts te) l ->
  isi_distance_multi ROps eps cy false m None (map mirror_tr l) idx
  = isi_distance_multi ROps eps cy false m None l idx.
Proof. exact isi_multi_mirror_idx. Qed.
Print Assumptions C08_isi_multi_mirror_idx.
Theorem C08_spike_multi_mirror_idx : forall eps cy m ri l idx ts te, Forall (vtrain ts te) l ->
  spike_distance_multi ROps eps cy false m ri None (map mirror_tr l) idx
  = spike_distance_multi ROps eps cy false m ri None l idx.
Proof. exact spike_multi_mirror_idx. Qed.
Print Assumptions C08_spike_multi_mirror_idx.
Theorem C08_sync_multi_mirror_idx : forall eps cy mt m l idx ts te, Forall (vtrain ts te) l ->
  spike_sync_multi ROps eps cy false mt m None (map mirror_tr l) idx
  = spike_sync_multi ROps eps cy false mt m None l idx.
Proof. exact sync_multi_mirror_idx. Qed.
Print Assumptions C08_sync_multi_mirror_idx.
Theorem C08_order_multi_mirror_idx : forall eps cy mt m l idx ts te, Forall (vtrain ts te) l ->
  spike_train_order_multi ROps eps cy false false mt m (map mirror_tr l) idx
  = rmap Ropp (spike_train_order_multi ROps eps cy false false mt m l idx).
Proof. exact order_multi_mirror_idx. Qed.
Print Assumptions C08_order_multi_mirror_idx.

(* ---- from Lem_API8.v ---- *)
Theorem C08_isi_profile_multi_mirror : forall eps cy m l idx ts te, Forall (vtrain ts te) l ->
  isi_profile_multi ROps eps cy false m (map mirror_tr l) idx
  = rmap (mirror_pwc ts te) (isi_profile_multi ROps eps cy false m l idx).
Proof. exact isi_profile_multi_mirror. Qed.
Print Assumptions C08_isi_profile_multi_mirror.
Theorem C08_spike_profile_multi_mirror : forall eps cy m ri l idx ts te, Forall (vtrain ts te) l ->
  spike_profile_multi ROps eps cy false m ri (map mirror_tr l) idx
  = rmap (mirror_pwl ts te) (spike_profile_multi ROps eps cy false m ri l idx).
Proof. exact spike_profile_multi_mirror. Qed.
Print Assumptions C08_spike_profile_multi_mirror.
Theorem C08_sync_profile_multi_mirror : forall eps cy mt m l idx ts te, Forall (vtrain ts te) l ->
  spike_sync_profile_multi ROps eps cy false mt m (map mirror_tr l) idx
  = rmap (mirror_df ts te) (spike_sync_profile_multi ROps eps cy false mt m l idx).
Proof. exact sync_profile_multi_mirror. Qed.
Print Assumptions C08_sync_profile_multi_mirror.
Theorem C08_order_profile_multi_mirror : forall eps cy mt m l idx ts te P, Forall (vtrain ts te) l ->
  order_profile_multi ROps eps cy false mt m l idx = Ok P -> removelast (tl P) <> [] ->
  order_profile_multi ROps eps cy false mt m (map mirror_tr l) idx = Ok (mirror_neg_df ts te P).
Proof. exact order_profile_multi_mirror. Qed.
Print Assumptions C08_order_profile_multi_mirror.
Theorem C08_order_profile_multi_mirror_partial : forall eps cy mt m l idx ts te, Forall (vtrain ts te) l ->
  match order_profile_multi ROps eps cy false mt m l idx,
        order_profile_multi ROps eps cy false mt m (map mirror_tr l) idx with
  | Ok P, Ok P' =>
      removelast (tl P') = rev (map (gT ts te Ropp) (removelast (tl P)))
      /\ (removelast (tl P) <> [] -> P' = mirror_neg_df ts te P)
      /\ (removelast (tl P) = [] -> P' = P)
  | Err e, Err e' => e = e'
  | _, _ => False
  end.
Proof. exact order_profile_multi_mirror_partial. Qed.
Print Assumptions C08_order_profile_multi_mirror_partial.

(* ---- from Lem_API10.v ---- *)
Theorem C08_auto_thr_shift : forall c l, auto_thr (map (shift_train c) l) = auto_thr l.
Proof. exact auto_thr_shift. Qed.
Print Assumptions C08_auto_thr_shift.
Theorem C08_auto_thr_scale : forall k l, 0 < k -> auto_thr (map (scale_train k) l) = k * auto_thr l.
Proof. exact auto_thr_scale. Qed.
Print Assumptions C08_auto_thr_scale.
Theorem C08_auto_thr_mirror : forall l ts te, Forall (vtrain ts te) l ->
  auto_thr (map mirror_tr l) = auto_thr l.
Proof. exact auto_thr_mirror. Qed.
Print Assumptions C08_auto_thr_mirror.
Theorem C08_multi_scalars_shift_auto : forall eps cy nrm mt ri iv c l idx ts te,
  Forall (vtrain ts te) l -> iv_ok ts te iv ->
  let m := auto_thr l in let m' := auto_thr (map (shift_train c) l) in
  isi_distance_multi ROps eps cy false m' (shift_iv c iv) (map (shift_train c) l) idx
    = isi_distance_multi ROps eps cy false m iv l idx /\
  spike_distance_multi ROps eps cy false m' ri (shift_iv c iv) (map (shift_train c) l) idx
    = spike_distance_multi ROps eps cy false m ri iv l idx /\
  spike_sync_multi ROps eps cy false mt m' (shift_iv c iv) (map (shift_train c) l) idx
    = spike_sync_multi ROps eps cy false mt m iv l idx /\
  spike_train_order_multi ROps eps cy false nrm mt m' (map (shift_train c) l) idx
    = spike_train_order_multi ROps eps cy false nrm mt m l idx /\
  isi_distance_matrix ROps eps cy false m' (shift_iv c iv) (map (shift_train c) l) idx
    = isi_distance_matrix ROps eps cy false m iv l idx /\
  spike_distance_matrix ROps eps cy false m' ri (shift_iv c iv) (map (shift_train c) l) idx
    = spike_distance_matrix ROps eps cy false m ri iv l idx /\
  spike_sync_matrix ROps eps cy false mt m' (shift_iv c iv) (map (shift_train c) l) idx
    = spike_sync_matrix ROps eps cy false mt m iv l idx /\
  isi_profile_multi ROps eps cy false m' (map (shift_train c) l) idx
    = rmap (shift_pwc c) (isi_profile_multi ROps eps cy false m l idx) /\
  spike_profile_multi ROps eps cy false m' ri (map (shift_train c) l) idx
    = rmap (shift_pwl c) (spike_profile_multi ROps eps cy false m ri l idx) /\
  spike_sync_profile_multi ROps eps cy false mt m' (map (shift_train c) l) idx
    = rmap (shift_df c) (spike_sync_profile_multi ROps eps cy false mt m l idx) /\
  order_profile_multi ROps eps cy false mt m' (map (shift_train c) l) idx
    = rmap (shift_df c) (order_profile_multi ROps eps cy false mt m l idx).
Proof. exact multi_scalars_shift_auto. Qed.
Print Assumptions C08_multi_scalars_shift_auto.
Theorem C08_multi_scalars_scale_auto : forall eps cy nrm mt ri iv k l idx ts te,
  0 < k -> cy = true \/ 0 <= eps -> Forall (vtrain ts te) l -> iv_ok ts te iv ->
  let m := auto_thr l in let m' := auto_thr (map (scale_train k) l) in
  isi_distance_multi ROps eps cy false m' (scale_iv k iv) (map (scale_train k) l) idx
    = isi_distance_multi ROps eps cy false m iv l idx /\
  spike_distance_multi ROps eps cy false m' ri (scale_iv k iv) (map (scale_train k) l) idx
    = spike_distance_multi ROps eps cy false m ri iv l idx /\
  spike_sync_multi ROps eps cy false (k * mt) m' (scale_iv k iv) (map (scale_train k) l) idx
    = spike_sync_multi ROps eps cy false mt m iv l idx /\
  spike_train_order_multi ROps eps cy false nrm (k * mt) m' (map (scale_train k) l) idx
    = spike_train_order_multi ROps eps cy false nrm mt m l idx /\
  isi_distance_matrix ROps eps cy false m' (scale_iv k iv) (map (scale_train k) l) idx
    = isi_distance_matrix ROps eps cy false m iv l idx /\
  spike_distance_matrix ROps eps cy false m' ri (scale_iv k iv) (map (scale_train k) l) idx
    = spike_distance_matrix ROps eps cy false m ri iv l idx /\
  spike_sync_matrix ROps eps cy false (k * mt) m' (scale_iv k iv) (map (scale_train k) l) idx
    = spike_sync_matrix ROps eps cy false mt m iv l idx /\
  isi_profile_multi ROps eps cy false m' (map (scale_train k) l) idx
    = rmap (scale_pwc k) (isi_profile_multi ROps eps cy false m l idx) /\
  spike_profile_multi ROps eps cy false m' ri (map (scale_train k) l) idx
    = rmap (scale_pwl k) (spike_profile_multi ROps eps cy false m ri l idx) /\
  spike_sync_profile_multi ROps eps cy false (k * mt) m' (map (scale_train k) l) idx
    = rmap (scale_df k) (spike_sync_profile_multi ROps eps cy false mt m l idx) /\
  order_profile_multi ROps eps cy false (k * mt) m' (map (scale_train k) l) idx
    = rmap (scale_df k) (order_profile_multi ROps eps cy false mt m l idx).
Proof. exact multi_scalars_scale_auto. Qed.
Print Assumptions C08_multi_scalars_scale_auto.
Theorem C08_multi_scalars_mirror_auto : forall eps cy mt ri l idx ts te, Forall (vtrain ts te) l ->
  let m := auto_thr l in let m' := auto_thr (map mirror_tr l) in
  isi_distance_multi ROps eps cy false m' None (map mirror_tr l) idx
    = isi_distance_multi ROps eps cy false m None l idx /\
  spike_distance_multi ROps eps cy false m' ri None (map mirror_tr l) idx
    = spike_distance_multi ROps eps cy false m ri None l idx /\
  spike_sync_multi ROps eps cy false mt m' None (map mirror_tr l) idx
    = spike_sync_multi ROps eps cy false mt m None l idx /\
  spike_train_order_multi ROps eps cy false false mt m' (map mirror_tr l) idx
    = rmap Ropp (spike_train_order_multi ROps eps cy false false mt m l idx) /\
  isi_distance_matrix ROps eps cy false m' None (map mirror_tr l) idx
    = isi_distance_matrix ROps eps cy false m None l idx /\
  spike_distance_matrix ROps eps cy false m' ri None (map mirror_tr l) idx
    = spike_distance_matrix ROps eps cy false m ri None l idx /\
  spike_sync_matrix ROps eps cy false mt m' None (map mirror_tr l) idx
    = spike_sync_matrix ROps eps cy false mt m None l idx /\
  isi_profile_multi ROps eps cy false m' (map mirror_tr l) idx
    = rmap (mirror_pwc ts te) (isi_profile_multi ROps eps cy false m l idx) /\
  spike_profile_multi ROps eps cy false m' ri (map mirror_tr l) idx
    = rmap (mirror_pwl ts te) (spike_profile_multi ROps eps cy false m ri l idx) /\
  spike_sync_profile_multi ROps eps cy false mt m' (map mirror_tr l) idx
    = rmap (mirror_df ts te) (spike_sync_profile_multi ROps eps cy false mt m l idx) /\
  (forall P, order_profile_multi ROps eps cy false mt m l idx = Ok P -> removelast (tl P) <> [] ->
     order_profile_multi ROps eps cy false mt m' (map mirror_tr l) idx = Ok (mirror_neg_df ts te P)).
Proof. exact multi_scalars_mirror_auto. Qed.
Print Assumptions C08_multi_scalars_mirror_auto.
Theorem C08_bi_scalars_shift_auto : forall eps cy nrm mt ri iv c a b ts te,
  vtrain ts te a -> vtrain ts te b -> iv_ok ts te iv ->
  let m := auto_thr [a; b] in let m' := auto_thr [shift_train c a; shift_train c b] in
  isi_distance_bi ROps eps cy false m' (shift_iv c iv) (shift_train c a) (shift_train c b)
    = isi_distance_bi ROps eps cy false m iv a b /\
  spike_distance_bi ROps eps cy false m' ri (shift_iv c iv) (shift_train c a) (shift_train c b)
    = spike_distance_bi ROps eps cy false m ri iv a b /\
  spike_sync_bi ROps eps cy false mt m' (shift_iv c iv) (shift_train c a) (shift_train c b)
    = spike_sync_bi ROps eps cy false mt m iv a b /\
  spike_train_order_bi ROps eps cy false nrm mt m' (shift_train c a) (shift_train c b)
    = spike_train_order_bi ROps eps cy false nrm mt m a b /\
  spike_directionality ROps eps cy false nrm mt m' (shift_train c a) (shift_train c b)
    = spike_directionality ROps eps cy false nrm mt m a b.
Proof. exact bi_scalars_shift_auto. Qed.
Print Assumptions C08_bi_scalars_shift_auto.
Theorem C08_bi_scalars_scale_auto : forall eps cy nrm mt ri iv k a b ts te, 0 < k -> cy = true \/ 0 <= eps ->
  vtrain ts te a -> vtrain ts te b -> iv_ok ts te iv ->
  let m := auto_thr [a; b] in let m' := auto_thr [scale_train k a; scale_train k b] in
  isi_distance_bi ROps eps cy false m' (scale_iv k iv) (scale_train k a) (scale_train k b)
    = isi_distance_bi ROps eps cy false m iv a b /\
  spike_distance_bi ROps eps cy false m' ri (scale_iv k iv) (scale_train k a) (scale_train k b)
    = spike_distance_bi ROps eps cy false m ri iv a b /\
  spike_sync_bi ROps eps cy false (k * mt) m' (scale_iv k iv) (scale_train k a) (scale_train k b)
    = spike_sync_bi ROps eps cy false mt m iv a b /\
  spike_train_order_bi ROps eps cy false nrm (k * mt) m' (scale_train k a) (scale_train k b)
    = spike_train_order_bi ROps eps cy false nrm mt m a b /\
  spike_directionality ROps eps cy false nrm (k * mt) m' (scale_train k a) (scale_train k b)
    = spike_directionality ROps eps cy false nrm mt m a b.
Proof. exact bi_scalars_scale_auto. Qed.
Print Assumptions C08_bi_scalars_scale_auto.
Theorem C08_bi_scalars_mirror_auto : forall eps cy nrm mt ri a b ts te,
  vtrain ts te a -> vtrain ts te b ->
  let m := auto_thr [a; b] in let m' := auto_thr [mirror_tr a; mirror_tr b] in
  isi_distance_bi ROps eps cy false m' None (mirror_tr a) (mirror_tr b)
    = isi_distance_bi ROps eps cy false m None a b /\
  spike_distance_bi ROps eps cy false m' ri None (mirror_tr a) (mirror_tr b)
    = spike_distance_bi ROps eps cy false m ri None a b /\
  spike_sync_bi ROps eps cy false mt m' None (mirror_tr a) (mirror_tr b)
    = spike_sync_bi ROps eps cy false mt m None a b /\
  spike_train_order_bi ROps eps cy false false mt m' (mirror_tr a) (mirror_tr b)
    = rmap Ropp (spike_train_order_bi ROps eps cy false false mt m a b) /\
  spike_directionality ROps eps cy false nrm mt m' (mirror_tr a) (mirror_tr b)
    = rmap Ropp (spike_directionality ROps eps cy false nrm mt m a b).
Proof. exact bi_scalars_mirror_auto. Qed.
Print Assumptions C08_bi_scalars_mirror_auto.

(* ---- from Lem_API11.v ---- *)
Theorem C08_pwc_avrg_mirror : forall ts te P iv, Lem_WF.good_pwc ts te P -> iv_ok ts te iv ->
  pwc_avrg ROps (mirror_pwc ts te P) (iv_of (mirror_iv ts te iv)) = pwc_avrg ROps P (iv_of iv).
Proof. exact pwc_avrg_mirror. Qed.
Print Assumptions C08_pwc_avrg_mirror.
Theorem C08_pwl_avrg_mirror : forall ts te P iv, Lem_WF.good_pwl ts te P -> iv_ok ts te iv ->
  pwl_avrg ROps (mirror_pwl ts te P) (iv_of (mirror_iv ts te iv)) = pwl_avrg ROps P (iv_of iv).
Proof. exact pwl_avrg_mirror. Qed.
Print Assumptions C08_pwl_avrg_mirror.
Theorem C08_df_integral_mirror : forall ts te f iv, Lem_WF.good_df ts te f -> iv_ok ts te iv ->
  df_integral ROps (mirror_df ts te f) (iv_of (mirror_iv ts te iv)) = df_integral ROps f (iv_of iv).
Proof. exact df_integral_mirror. Qed.
Print Assumptions C08_df_integral_mirror.
Theorem C08_isi_distance_mirror_iv : forall eps cy m iv a b ts te,
  vtrain ts te a -> vtrain ts te b -> iv_ok ts te iv ->
  isi_distance_bi ROps eps cy false m (mirror_iv ts te iv) (mirror_tr a) (mirror_tr b)
  = isi_distance_bi ROps eps cy false m iv a b.
Proof. exact isi_distance_mirror_iv. Qed.
Print Assumptions C08_isi_distance_mirror_iv.
Theorem C08_spike_distance_mirror_iv : forall eps cy m ri iv a b ts te,
  vtrain ts te a -> vtrain ts te b -> iv_ok ts te iv ->
  spike_distance_bi ROps eps cy false m ri (mirror_iv ts te iv) (mirror_tr a) (mirror_tr b)
  = spike_distance_bi ROps eps cy false m ri iv a b.
Proof. exact spike_distance_mirror_iv. Qed.
Print Assumptions C08_spike_distance_mirror_iv.
Theorem C08_spike_sync_mirror_iv : forall eps cy mt m iv a b ts te,
  vtrain ts te a -> vtrain ts te b -> iv_ok ts te iv ->
  spike_sync_bi ROps eps cy false mt m (mirror_iv ts te iv) (mirror_tr a) (mirror_tr b)
  = spike_sync_bi ROps eps cy false mt m iv a b.
Proof. exact spike_sync_mirror_iv. Qed.
Print Assumptions C08_spike_sync_mirror_iv.
Theorem C08_isi_multi_mirror_iv_idx : forall eps cy m iv l idx ts te,
  Forall (vtrain ts te) l -> iv_ok ts te iv ->
  isi_distance_multi ROps eps cy false m (mirror_iv ts te iv) (map mirror_tr l) idx
  = isi_distance_multi ROps eps cy false m iv l idx.
Proof. exact isi_multi_mirror_iv_idx. Qed.
Print Assumptions C08_isi_multi_mirror_iv_idx.
Theorem C08_spike_multi_mirror_iv_idx : forall eps cy m ri iv l idx ts te,
  Forall (vtrain ts te) l -> iv_ok ts te iv ->
  spike_distance_multi ROps eps cy false m ri (mirror_iv ts te iv) (map mirror_tr l) idx
  = spike_distance_multi ROps eps cy false m ri iv l idx.
Proof. exact spike_multi_mirror_iv_idx. Qed.
Print Assumptions C08_spike_multi_mirror_iv_idx.
Theorem C08_sync_multi_mirror_iv_idx : forall eps cy mt m iv l idx ts te,
  Forall (vtrain ts te) l -> iv_ok ts te iv ->
  spike_sync_multi ROps eps cy false mt m (mirror_iv ts te iv) (map mirror_tr l) idx
  = spike_sync_multi ROps eps cy false mt m iv l idx.
Proof. exact sync_multi_mirror_iv_idx. Qed.
Print Assumptions C08_sync_multi_mirror_iv_idx.
Theorem C08_isi_matrix_mirror_iv : forall eps cy m iv l idx ts te,
  Forall (vtrain ts te) l -> iv_ok ts te iv ->
  isi_distance_matrix ROps eps cy false m (mirror_iv ts te iv) (map mirror_tr l) idx
  = isi_distance_matrix ROps eps cy false m iv l idx.
Proof. exact isi_matrix_mirror_iv. Qed.
Print Assumptions C08_isi_matrix_mirror_iv.
Theorem C08_spike_matrix_mirror_iv : forall eps cy m ri iv l idx ts te,
  Forall (vtrain ts te) l -> iv_ok ts te iv ->
  spike_distance_matrix ROps eps cy false m ri (mirror_iv ts te iv) (map mirror_tr l) idx
  = spike_distance_matrix ROps eps cy false m ri iv l idx.
Proof. exact spike_matrix_mirror_iv. Qed.
Print Assumptions C08_spike_matrix_mirror_iv.
Theorem C08_sync_matrix_mirror_iv : forall eps cy mt m iv l idx ts te,
  Forall (vtrain ts te) l -> iv_ok ts te iv ->
  spike_sync_matrix ROps eps cy false mt m (mirror_iv ts te iv) (map mirror_tr l) idx
  = spike_sync_matrix ROps eps cy false mt m iv l idx.
Proof. exact sync_matrix_mirror_iv. Qed.
Print Assumptions C08_sync_matrix_mirror_iv.

Example C08_nonvacuous : valid 0 1 [1/4; 5/8; 1] /\ valid 0 1 [0] /\ valid 0 1 (mirror_train 0 1 [1/4; 5/8; 1]).
Proof. split; [valid_tac|split; [valid_tac|]]. apply valid_mirror. valid_tac. Qed.

(* ---- executed instance (Q, extracted to OCaml and run against /repo) = the real-number functions
   the theorems above are about: kernel-checked parametricity bridge (Bridge.v).  qL = map Q2R etc. ---- *)
From Coq Require Import QArith Qreals.
From PS Require Import Bridge.
Local Close Scope Q_scope.
Theorem C08_exec_isi_profile_py_transfer : forall (s1 s2 : list Q) (ts te m : Q), qLL (isi_profile_py QOps s1 s2 ts te m) = isi_profile_py ROps (qL s1) (qL s2) (Q2R ts) (Q2R te) (Q2R m).
Proof. exact isi_profile_py_transfer. Qed.
Print Assumptions C08_exec_isi_profile_py_transfer.
Theorem C08_exec_spike_profile_py_transfer : forall (t1 t2 : list Q) (ts te m : Q) (ri : bool), qLLL (spike_profile_py QOps t1 t2 ts te m ri) = spike_profile_py ROps (qL t1) (qL t2) (Q2R ts) (Q2R te) (Q2R m) ri.
Proof. exact spike_profile_py_transfer. Qed.
Print Assumptions C08_exec_spike_profile_py_transfer.
Theorem C08_exec_sync_kernel_transfer : forall (s1 s2 : list Q) (ts te mt mrts : Q), map q3 (sync_kernel QOps s1 s2 ts te mt mrts) = sync_kernel ROps (qL s1) (qL s2) (Q2R ts) (Q2R te) (Q2R mt) (Q2R mrts).
Proof. exact sync_kernel_transfer. Qed.
Print Assumptions C08_exec_sync_kernel_transfer.
Theorem C08_exec_order_kernel_transfer : forall (s1 s2 : list Q) (ts te mt mrts : Q), map q3 (order_kernel QOps s1 s2 ts te mt mrts) = order_kernel ROps (qL s1) (qL s2) (Q2R ts) (Q2R te) (Q2R mt) (Q2R mrts).
Proof. exact order_kernel_transfer. Qed.
Print Assumptions C08_exec_order_kernel_transfer.
