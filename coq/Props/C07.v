(* Props/C07.v — measures respect range, symmetry and identity axioms.
   Only statements, `exact`, Print Assumptions and non-vacuity examples. *)
From Coq Require Import List Bool Arith Reals Lra Sorted.
Import ListNotations.
From PS Require Import Num RLemmas Valid ModelKernels ModelFuncs ModelAPI Spec SyncDefs Lem_IsiProps Lem_Spike Lem_Mrts Lem_API Lem_WF Lem_API2 Lem_API3 Lem_API4 Lem_API5 Lem_API7 Lem_API10.
From PS Require Lem_Order Lem_OrderSpec.
Require Import PS.Props.PropTac.
Local Open Scope R_scope.

(* ---- ranges ---- *)
Theorem C07_isi_profile_range : forall s1 s2 ts te m, valid ts te s1 -> valid ts te s2 -> s1 <> [] -> s2 <> [] -> 0 <= m ->
  Forall (fun y => 0 <= y <= 1) (snd (isi_profile_py ROps s1 s2 ts te m)).
Proof. exact isi_profile_range. Qed.
Print Assumptions C07_isi_profile_range.
Theorem C07_isi_distance_range : forall eps cy m a b ts te d, vtrain ts te a -> vtrain ts te b ->
  isi_distance_bi ROps eps cy false m None a b = Ok d -> 0 <= d <= 1.
Proof. exact isi_distance_range. Qed.
Print Assumptions C07_isi_distance_range.
(* SPIKE profile values lie in [0,1] — the upper bound is the non-linear one (supremum exactly 1) *)
Theorem C07_spike_profile_nonneg : forall s1 s2 ts te m ri, valid ts te s1 -> valid ts te s2 -> 0 <= m ->
  Forall (fun y => 0 <= y) (snd (fst (spike_profile_py ROps (eff ts te s1) (eff ts te s2) ts te m ri))) /\
  Forall (fun y => 0 <= y) (snd (spike_profile_py ROps (eff ts te s1) (eff ts te s2) ts te m ri)).
Proof. exact spike_profile_nonneg. Qed.
Print Assumptions C07_spike_profile_nonneg.
Theorem C07_spike_profile_le1 : forall s1 s2 ts te m ri, valid ts te s1 -> valid ts te s2 -> 0 <= m ->
  Forall (fun y => y <= 1) (snd (fst (spike_profile_py ROps (eff ts te s1) (eff ts te s2) ts te m ri))) /\
  Forall (fun y => y <= 1) (snd (spike_profile_py ROps (eff ts te s1) (eff ts te s2) ts te m ri)).
Proof. exact spike_profile_le1. Qed.
Print Assumptions C07_spike_profile_le1.
(* SPIKE-Sync: each profile entry between 0 and its multiplicity; value in [0,1] on every interval *)
Theorem C07_sync_entries_range : forall evs : list (@sev R), clean_from None evs = true ->
  Forall (fun e => 0 <= e_y e <= e_mp e) (mark_events ROps 1 1 2 evs []) /\
  Forall (fun e => Rabs (e_y e) <= e_mp e) (mark_events ROps (0 - 1) 1 0 evs []).
Proof. exact Lem_Order.mark_range. Qed.
Print Assumptions C07_sync_entries_range.
Theorem C07_sync_range : forall eps cy mt m iv a b ts te d, vtrain ts te a -> vtrain ts te b ->
  spike_sync_bi ROps eps cy false mt m iv a b = Ok d -> 0 <= d <= 1.
Proof. exact sync_range. Qed.
Print Assumptions C07_sync_range.
(* spike-train order in [-1,1]; directionality values in {-1,0,1} *)
Theorem C07_order_range : forall eps cy mt m a b ts te d, 0 < eps -> vtrain ts te a -> vtrain ts te b ->
  spike_train_order_bi ROps eps cy false true mt m a b = Ok d -> -1 <= d <= 1.
Proof. exact order_range. Qed.
Print Assumptions C07_order_range.
Theorem C07_directionality_values_range : forall (evs : list (@sev R)) a1 a2,
  Forall Lem_Order.tri a1 -> Forall Lem_Order.tri a2 ->
  Forall Lem_Order.tri (fst (dir_marks ROps evs a1 a2)) /\ Forall Lem_Order.tri (snd (dir_marks ROps evs a1 a2)).
Proof. exact Lem_Order.dir_marks_range_gen. Qed.
Print Assumptions C07_directionality_values_range.

(* ---- symmetry (whole profiles, hence every derived scalar; both backends) ---- *)
Theorem C07_isi_symmetric : forall s1 s2 ts te m, isi_profile_py ROps s1 s2 ts te m = isi_profile_py ROps s2 s1 ts te m.
Proof. exact isi_profile_sym. Qed.
Print Assumptions C07_isi_symmetric.
Theorem C07_spike_symmetric : forall t1 t2 ts te m ri, spike_profile_py ROps t2 t1 ts te m ri = spike_profile_py ROps t1 t2 ts te m ri.
Proof. exact spike_profile_sym. Qed.
Print Assumptions C07_spike_symmetric.
Theorem C07_sync_symmetric : forall s1 s2 ts te mt m, ssorted s1 -> ssorted s2 ->
  coincidence_profile_gen ROps (get_tau ROps) s2 s1 ts te mt m = coincidence_profile_gen ROps (get_tau ROps) s1 s2 ts te mt m.
Proof. exact Lem_Order.sync_profile_sym. Qed.
Print Assumptions C07_sync_symmetric.
Theorem C07_isi_distance_symmetric : forall eps cy m iv a b ts te, vtrain ts te a -> vtrain ts te b ->
  isi_distance_bi ROps eps cy false m iv a b = isi_distance_bi ROps eps cy false m iv b a.
Proof. exact isi_distance_symmetric. Qed.
Print Assumptions C07_isi_distance_symmetric.
Theorem C07_sync_value_symmetric : forall eps cy mt m iv a b ts te, vtrain ts te a -> vtrain ts te b ->
  spike_sync_bi ROps eps cy false mt m iv a b = spike_sync_bi ROps eps cy false mt m iv b a.
Proof. exact sync_symmetric. Qed.
Print Assumptions C07_sync_value_symmetric.

(* ---- identity: a train compared with itself (or an equal copy) ---- *)
Theorem C07_isi_self : forall s ts te m, Forall (fun y => y = 0) (snd (isi_profile_py ROps s s ts te m)).
Proof. exact isi_profile_self. Qed.
Print Assumptions C07_isi_self.
Theorem C07_isi_distance_self : forall eps cy m a ts te, vtrain ts te a -> isi_distance_bi ROps eps cy false m None a a = Ok 0.
Proof. exact isi_distance_self. Qed.
Print Assumptions C07_isi_distance_self.
Theorem C07_spike_self : forall s ts te m ri, valid ts te s ->
  Forall (fun y => y = 0) (snd (fst (spike_profile_py ROps (eff ts te s) (eff ts te s) ts te m ri))) /\
  Forall (fun y => y = 0) (snd (spike_profile_py ROps (eff ts te s) (eff ts te s) ts te m ri)).
Proof. exact spike_profile_self_zero. Qed.
Print Assumptions C07_spike_self.
Theorem C07_sync_self : forall eps cy mt m a ts te, vtrain ts te a -> spike_sync_bi ROps eps cy false mt m None a a = Ok 1.
Proof. exact sync_self. Qed.
Print Assumptions C07_sync_self.
Theorem C07_directionality_self : forall eps cy mt m a, valid (tr_start a) (tr_end a) (tr_spikes a) ->
  spike_directionality ROps eps cy false false mt m a a = Ok 0.
Proof. exact Lem_OrderSpec.directionality_self_zero. Qed.
Print Assumptions C07_directionality_self.

(* ---- API level, SPIKE distance and sub-intervals, both backends (Lem_API2.v) ---- *)
Theorem C07_spike_distance_range : forall eps cy m ri iv a b ts te d, vtrain ts te a -> vtrain ts te b -> 0 <= m -> iv_ok ts te iv ->
  spike_distance_bi ROps eps cy false m ri iv a b = Ok d -> 0 <= d <= 1.
Proof. exact spike_distance_range. Qed.
Print Assumptions C07_spike_distance_range.
Theorem C07_spike_distance_symmetric : forall eps cy m ri iv a b ts te, vtrain ts te a -> vtrain ts te b ->
  spike_distance_bi ROps eps cy false m ri iv a b = spike_distance_bi ROps eps cy false m ri iv b a.
Proof. exact spike_distance_symmetric. Qed.
Print Assumptions C07_spike_distance_symmetric.
Theorem C07_spike_distance_self : forall eps cy m ri iv a ts te, vtrain ts te a -> iv_ok ts te iv ->
  spike_distance_bi ROps eps cy false m ri iv a a = Ok 0.
Proof. exact spike_distance_self. Qed.
Print Assumptions C07_spike_distance_self.
Theorem C07_isi_distance_range_iv : forall eps cy m iv a b ts te d, vtrain ts te a -> vtrain ts te b -> iv_ok ts te iv ->
  isi_distance_bi ROps eps cy false m iv a b = Ok d -> 0 <= d <= 1.
Proof. exact isi_distance_range_iv. Qed.
Print Assumptions C07_isi_distance_range_iv.
Theorem C07_isi_distance_self_iv : forall eps cy m iv a ts te, vtrain ts te a -> iv_ok ts te iv ->
  isi_distance_bi ROps eps cy false m iv a a = Ok 0.
Proof. exact isi_distance_self_iv. Qed.
Print Assumptions C07_isi_distance_self_iv.
(* multivariate values stay in [0,1] (they are averages / pooled ratios of pair values) *)
Theorem C07_multi_ranges : forall eps cy m mt ri iv l ts te, (2 <= length l)%nat -> Forall (vtrain ts te) l -> iv_ok ts te iv -> 0 <= m ->
  (exists d, isi_distance_multi ROps eps cy false m iv l None = Ok d /\ 0 <= d <= 1) /\
  (exists d, spike_distance_multi ROps eps cy false m ri iv l None = Ok d /\ 0 <= d <= 1) /\
  (exists d, spike_sync_multi ROps eps cy false mt m iv l None = Ok d /\ 0 <= d <= 1).
Proof. exact multi_ranges. Qed.
Print Assumptions C07_multi_ranges.

(* ---- from Lem_API5.v ---- *)
Theorem C07_isi_matrix_props : forall eps cy m iv l idx ts te,
  Forall (vtrain ts te) l -> iv_ok ts te iv -> idx_ok (length l) idx ->
  exists M, isi_distance_matrix ROps eps cy false m iv l idx = Ok M /\
    dist_matrix (msize l idx) 0 M /\
    (forall i j, (i < j)%nat -> (j < msize l idx)%nat ->
       isi_distance_bi ROps eps cy false m iv (sel l idx i) (sel l idx j) = Ok (ent M i j)).
Proof. exact isi_matrix_props. Qed.
Print Assumptions C07_isi_matrix_props.
Theorem C07_spike_matrix_props : forall eps cy m ri iv l idx ts te,
  Forall (vtrain ts te) l -> iv_ok ts te iv -> 0 <= m -> idx_ok (length l) idx ->
  exists M, spike_distance_matrix ROps eps cy false m ri iv l idx = Ok M /\
    dist_matrix (msize l idx) 0 M /\
    (forall i j, (i < j)%nat -> (j < msize l idx)%nat ->
       spike_distance_bi ROps eps cy false m ri iv (sel l idx i) (sel l idx j) = Ok (ent M i j)).
Proof. exact spike_matrix_props. Qed.
Print Assumptions C07_spike_matrix_props.
Theorem C07_sync_matrix_props : forall eps cy mt m iv l idx ts te,
  Forall (vtrain ts te) l -> iv_ok ts te iv -> idx_ok (length l) idx ->
  exists M, spike_sync_matrix ROps eps cy false mt m iv l idx = Ok M /\
    dist_matrix (msize l idx) 1 M /\
    (forall i j, (i < j)%nat -> (j < msize l idx)%nat ->
       spike_sync_bi ROps eps cy false mt m iv (sel l idx i) (sel l idx j) = Ok (ent M i j)).
Proof. exact sync_matrix_props. Qed.
Print Assumptions C07_sync_matrix_props.

(* ---- from Lem_API7.v ---- *)
Theorem C07_multi_ranges_idx : forall eps cy m mt ri iv l idx ts te,
  idx_ok (length l) idx -> (2 <= msize l idx)%nat -> Forall (vtrain ts te) l -> iv_ok ts te iv ->
  0 <= m ->
  (exists d, isi_distance_multi ROps eps cy false m iv l idx = Ok d /\ 0 <= d <= 1) /\
  (exists d, spike_distance_multi ROps eps cy false m ri iv l idx = Ok d /\ 0 <= d <= 1) /\
  (exists d, spike_sync_multi ROps eps cy false mt m iv l idx = Ok d /\ 0 <= d <= 1).
Proof. exact multi_ranges_idx. Qed.
Print Assumptions C07_multi_ranges_idx.
Theorem C07_multi_bad_index : forall eps cy nrm m mt ri iv (l : list (@train R)) idx,
  ~ idx_ok (length l) idx ->
  isi_distance_multi ROps eps cy false m iv l idx = Err AssertionError /\
  spike_distance_multi ROps eps cy false m ri iv l idx = Err AssertionError /\
  spike_sync_multi ROps eps cy false mt m iv l idx = Err AssertionError /\
  spike_train_order_multi ROps eps cy false nrm mt m l idx = Err AssertionError.
Proof. exact multi_bad_index. Qed.
Print Assumptions C07_multi_bad_index.

(* ---- from Lem_API10.v ---- *)
Theorem C07_bi_auto_symmetric : forall eps cy mt ri iv a b ts te, vtrain ts te a -> vtrain ts te b ->
  isi_distance_bi ROps eps cy false (auto_thr [b; a]) iv b a
    = isi_distance_bi ROps eps cy false (auto_thr [a; b]) iv a b /\
  spike_distance_bi ROps eps cy false (auto_thr [b; a]) ri iv b a
    = spike_distance_bi ROps eps cy false (auto_thr [a; b]) ri iv a b /\
  spike_sync_bi ROps eps cy false mt (auto_thr [b; a]) iv b a
    = spike_sync_bi ROps eps cy false mt (auto_thr [a; b]) iv a b.
Proof. exact bi_auto_symmetric. Qed.
Print Assumptions C07_bi_auto_symmetric.

Example C07_nonvacuous : vtrain 0 1 ([0; 1/2; 1], 0, 1) /\ vtrain 0 1 ([], 0, 1).
Proof. unfold vtrain; cbn [tr_spikes tr_start tr_end fst snd]; repeat split; try lra; valid_tac. Qed.

(* ---- executed instance (Q, extracted to OCaml and run against /repo) = the real-number functions
   the theorems above are about: kernel-checked parametricity bridge (Bridge.v).  qL = map Q2R etc. ---- *)
From Coq Require Import QArith Qreals.
From PS Require Import Bridge.
Local Close Scope Q_scope.
Theorem C07_exec_isi_distance_bi_transfer : forall (eps : Q) (cy rc : bool) (m : Q) (iv : option (Q * Q)) (a b : train), rmap Q2R (isi_distance_bi QOps eps cy rc m iv a b) = isi_distance_bi ROps (Q2R eps) cy rc (Q2R m) (qIv iv) (qTrain a) (qTrain b).
Proof. exact isi_distance_bi_transfer. Qed.
Print Assumptions C07_exec_isi_distance_bi_transfer.
Theorem C07_exec_spike_sync_bi_transfer : forall (eps : Q) (cy rc : bool) (mt m : Q) (iv : option (Q * Q)) (a b : train), rmap Q2R (spike_sync_bi QOps eps cy rc mt m iv a b) = spike_sync_bi ROps (Q2R eps) cy rc (Q2R mt) (Q2R m) (qIv iv) (qTrain a) (qTrain b).
Proof. exact spike_sync_bi_transfer. Qed.
Print Assumptions C07_exec_spike_sync_bi_transfer.
Theorem C07_exec_spike_train_order_bi_transfer : forall (eps : Q) (cy rc normalize : bool) (mt m : Q) (a b : train), rmap Q2R (spike_train_order_bi QOps eps cy rc normalize mt m a b) = spike_train_order_bi ROps (Q2R eps) cy rc normalize (Q2R mt) (Q2R m) (qTrain a) (qTrain b).
Proof. exact spike_train_order_bi_transfer. Qed.
Print Assumptions C07_exec_spike_train_order_bi_transfer.
Theorem C07_exec_spike_directionality_transfer : forall (eps : Q) (cy rc normalize : bool) (mt m : Q) (a b : train), rmap Q2R (spike_directionality QOps eps cy rc normalize mt m a b) = spike_directionality ROps (Q2R eps) cy rc normalize (Q2R mt) (Q2R m) (qTrain a) (qTrain b).
Proof. exact spike_directionality_transfer. Qed.
Print Assumptions C07_exec_spike_directionality_transfer.
