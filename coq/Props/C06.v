(* Props/C06.v — multivariate results are the all-pairs aggregate and ignore list order.
   Only statements, `exact`, Print Assumptions and non-vacuity examples. *)
From Coq Require Import List Bool Arith Reals Lra Sorted Permutation.
Import ListNotations.
From PS Require Import Num RLemmas Valid ModelKernels ModelFuncs ModelAPI Spec Lem_Multi Lem_MultiAPI.
From PS Require Import Lem_API Lem_WF Lem_API2 Lem_API3 Lem_API4 Lem_API5 Lem_API7 Lem_API12.
Require Import PS.Props.PropTac.
Local Open Scope R_scope.

Local Notation pairs l := (pairs_of (seq 0 (length l))).
Local Notation tr l i := (nth_train ROps l i).

(* the recursive divide-and-conquer summation equals the plain left-to-right sum of the pair
   profiles, for any add routine that is closed and associative on well-formed profiles
   (fuel S|ps| always suffices) *)
Theorem C06_divide_and_conquer_is_sum : forall (P : Type) (padd : P -> P -> res P) (pf : nat * nat -> res P)
  (good : P -> Prop) (ps0 : list (nat * nat)),
  (forall p, In p ps0 -> exists v, pf p = Ok v /\ good v) ->
  (forall a b, good a -> good b -> exists c, padd a b = Ok c /\ good c) ->
  (forall a b c ab bc, good a -> good b -> good c -> padd a b = Ok ab -> padd b c = Ok bc -> padd ab c = padd a bc) ->
  forall ps, incl ps ps0 -> ps <> [] -> dc padd pf (S (length ps)) ps = lsum padd pf ps.
Proof. exact dc_fold_model. Qed.
Print Assumptions C06_divide_and_conquer_is_sum.

(* ISI multivariate profile: at every time the arithmetic mean of the N(N-1)/2 bivariate profiles;
   breakpoints = strictly increasing union of the pair breakpoints, from t_start to t_end *)
Theorem C06_isi_profile_is_mean_of_pairs : forall eps cy m (l : list train) ts te,
  (2 <= length l)%nat -> Forall (mtrain ts te) l ->
  exists P, isi_profile_multi ROps eps cy false m l None = Ok P /\ wf_pwc P /\
    forall t, ts < t < te -> ~ In t (fst P) ->
      pwc_at ROps (fst P) (snd P) t =
      Some (sumF ROps (map (fun p => match pwc_at ROps (fst (isi_profile_bi ROps eps cy false m (tr l (fst p)) (tr l (snd p))))
                                                   (snd (isi_profile_bi ROps eps cy false m (tr l (fst p)) (tr l (snd p)))) t
                                     with Some v => v | None => 0 end) (pairs l))
            * (1 / INR (length (pairs l)))).
Proof. exact isi_multi_profile_pointwise. Qed.
Print Assumptions C06_isi_profile_is_mean_of_pairs.
Theorem C06_isi_profile_breakpoints : forall eps cy m (l : list train) ts te,
  (2 <= length l)%nat -> Forall (mtrain ts te) l ->
  exists P, isi_profile_multi ROps eps cy false m l None = Ok P /\
    fst P = sort_unique ROps (concat (map (fun p => fst (isi_profile_bi ROps eps cy false m (tr l (fst p)) (tr l (snd p)))) (pairs l))) /\
    ssorted (fst P) /\ nthF ROps (fst P) 0 = ts /\ lastF ROps (fst P) = te.
Proof. exact isi_multi_breakpoints. Qed.
Print Assumptions C06_isi_profile_breakpoints.
(* ... does not depend on the order of the trains (representation equality) *)
Theorem C06_isi_profile_order_independent : forall eps cy m (l l' : list train) ts te,
  (2 <= length l)%nat -> Forall (mtrain ts te) l -> Permutation l l' ->
  isi_profile_multi ROps eps cy false m l None = isi_profile_multi ROps eps cy false m l' None.
Proof. exact isi_multi_profile_perm. Qed.
Print Assumptions C06_isi_profile_order_independent.

(* multivariate distance = mean of the pair distances, order independent, = average of the
   multivariate profile (whole recording and every sub-interval, both backends) *)
Theorem C06_isi_distance_is_mean_of_pairs : forall eps cy m iv (l : list train) ts te,
  Forall (mtrain ts te) l -> iv_ok ts te iv ->
  isi_distance_multi ROps eps cy false m iv l None =
  Ok (sumF ROps (map (fun p => valOf (isi_distance_bi ROps eps cy false m iv (tr l (fst p)) (tr l (snd p)))) (pairs l))
      / INR (length (pairs l))).
Proof. exact isi_distance_multi_mean. Qed.
Print Assumptions C06_isi_distance_is_mean_of_pairs.
Theorem C06_isi_distance_order_independent : forall eps cy m iv (l l' : list train) ts te,
  Forall (mtrain ts te) l -> iv_ok ts te iv -> Permutation l l' ->
  isi_distance_multi ROps eps cy false m iv l None = isi_distance_multi ROps eps cy false m iv l' None.
Proof. exact isi_distance_multi_perm. Qed.
Print Assumptions C06_isi_distance_order_independent.
Theorem C06_isi_distance_is_profile_average : forall eps cy m iv (l : list train) ts te,
  (2 <= length l)%nat -> Forall (mtrain ts te) l -> iv_ok ts te iv ->
  exists P, isi_profile_multi ROps eps cy false m l None = Ok P /\
            isi_distance_multi ROps eps cy false m iv l None = pwc_avrg ROps P (iv_of iv).
Proof. exact isi_multi_distance_is_profile_average_uncond. Qed.
Print Assumptions C06_isi_distance_is_profile_average.
(* generic: the mean over pairs is invariant under permutation for every symmetric pair measure *)
Theorem C06_pair_mean_order_independent : forall (bi : train -> train -> res R) (l l' : list train),
  (forall a b, bi a b = bi b a) -> (forall a b, exists v, bi a b = Ok v) -> Permutation l l' ->
  distance_multi_gen ROps 0 bi false l None = distance_multi_gen ROps 0 bi false l' None.
Proof. exact distance_multi_perm. Qed.
Print Assumptions C06_pair_mean_order_independent.

(* SPIKE-Sync multivariate profile: at every spike time the summed coincidence counts and
   multiplicities of all pairs; well-formed from t_start to t_end; order independent per time *)
Theorem C06_sync_profile_sums_pairs : forall eps cy mt m (l : list train) ts te,
  (2 <= length l)%nat -> Forall (mtrain ts te) l ->
  exists P, spike_sync_profile_multi ROps eps cy false mt m l None = Ok P /\ Lem_Df.wf_df P /\
    fst (fst (hd (0, 0, 0) P)) = ts /\ fst (fst (last P (0, 0, 0))) = te /\
    forall t, sum_at ROps t (interior_entries P) =
      (sumF ROps (map (fun p => fst (sum_at ROps t (interior_entries (spike_sync_profile_bi ROps eps cy false mt m (tr l (fst p)) (tr l (snd p)))))) (pairs l)),
       sumF ROps (map (fun p => snd (sum_at ROps t (interior_entries (spike_sync_profile_bi ROps eps cy false mt m (tr l (fst p)) (tr l (snd p)))))) (pairs l))).
Proof. exact sync_multi_events. Qed.
Print Assumptions C06_sync_profile_sums_pairs.
Theorem C06_sync_profile_order_independent : forall eps cy mt m (l l' : list train) ts te,
  (2 <= length l)%nat -> Forall (mtrain ts te) l -> Permutation l l' ->
  exists P P', spike_sync_profile_multi ROps eps cy false mt m l None = Ok P /\
               spike_sync_profile_multi ROps eps cy false mt m l' None = Ok P' /\
               forall t, sum_at ROps t (interior_entries P) = sum_at ROps t (interior_entries P').
Proof. exact sync_multi_events_perm. Qed.
Print Assumptions C06_sync_profile_order_independent.

(* distance matrices: exactly the bivariate values, symmetric, 0 on the diagonal (SPIKE-Sync: 1) *)
Theorem C06_isi_matrix : forall eps cy m iv (l : list train) ts te, Forall (mtrain ts te) l -> iv_ok ts te iv ->
  exists M, isi_distance_matrix ROps eps cy false m iv l None = Ok M /\ length M = length l /\
    (forall i, (i < length l)%nat -> length (nth i M []) = length l) /\
    (forall i j, (i < length l)%nat -> (j < length l)%nat ->
       nth j (nth i M []) 0 = if (i =? j)%nat then 0
                              else if (i <? j)%nat then valOf (isi_distance_bi ROps eps cy false m iv (tr l i) (tr l j))
                              else valOf (isi_distance_bi ROps eps cy false m iv (tr l j) (tr l i))) /\
    (forall i j, (i < length l)%nat -> (j < length l)%nat -> nth j (nth i M []) 0 = nth i (nth j M []) 0) /\
    (forall i, (i < length l)%nat -> nth i (nth i M []) 0 = 0).
Proof. exact isi_matrix_entries. Qed.
Print Assumptions C06_isi_matrix.
Theorem C06_matrix_generic : forall (bi : train -> train -> res R) diag (l : list train),
  (forall a b, exists v, bi a b = Ok v) ->
  exists M, matrix_gen ROps 0 bi diag (fun x => x) false l None = Ok M /\ length M = length l /\
    (forall i j, (i < length l)%nat -> (j < length l)%nat -> nth j (nth i M []) 0 = nth i (nth j M []) 0) /\
    (forall i, (i < length l)%nat -> nth i (nth i M []) 0 = diag).
Proof. exact matrix_gen_symmetric. Qed.
Print Assumptions C06_matrix_generic.

From PS Require Lem_MultiAPI2.
Import Lem_MultiAPI2.
(* SPIKE multivariate profile: both one-sided limits at every time are the mean of the pair profiles' limits; well-formed from t_start to t_end *)
Theorem C06_spike_profile_is_mean_of_pairs : forall (eps : R) (cy : bool) (m : R) (ri : bool) (l : list train) (ts te : R), (2 <= length l)%nat -> Forall (wtrain ts te) l -> exists P : pwl, spike_profile_multi ROps eps cy false m ri l None = Ok P /\ wf_pwl P /\ nthF ROps (fst (fst P)) 0 = ts /\ lastF ROps (fst (fst P)) = te /\ (forall t : R, ts <= t < te -> pwl_right ROps (fst (fst P)) (snd (fst P)) (snd P) t = Some (sumF ROps (map (fun p : nat * nat => let Q := spike_profile_bi ROps eps cy false m ri (nth_train ROps l (fst p)) (nth_train ROps l (snd p)) in match pwl_right ROps (fst (fst Q)) (snd (fst Q)) (snd Q) t with | Some v => v | None => 0 end) (pairs_of (seq 0 (length l)))) * (1 / INR (length (pairs_of (seq 0 (length l))))))) /\ (forall t : R, ts < t <= te -> pwl_left ROps (fst (fst P)) (snd (fst P)) (snd P) t = Some (sumF ROps (map (fun p : nat * nat => let Q := spike_profile_bi ROps eps cy false m ri (nth_train ROps l (fst p)) (nth_train ROps l (snd p)) in match pwl_left ROps (fst (fst Q)) (snd (fst Q)) (snd Q) t with | Some v => v | None => 0 end) (pairs_of (seq 0 (length l)))) * (1 / INR (length (pairs_of (seq 0 (length l))))))).
Proof. exact spike_multi_profile_limits. Qed.
Print Assumptions C06_spike_profile_is_mean_of_pairs.
(* ... on the strictly increasing union of the pair breakpoints *)
Theorem C06_spike_profile_breakpoints : forall (eps : R) (cy : bool) (m : R) (ri : bool) (l : list train) (ts te : R), (2 <= length l)%nat -> Forall (wtrain ts te) l -> exists P : pwl, spike_profile_multi ROps eps cy false m ri l None = Ok P /\ fst (fst P) = sort_unique ROps (concat (map (fun p : nat * nat => fst (fst (spike_profile_bi ROps eps cy false m ri (nth_train ROps l (fst p)) (nth_train ROps l (snd p))))) (pairs_of (seq 0 (length l))))) /\ ssorted (fst (fst P)).
Proof. exact spike_multi_breakpoints. Qed.
Print Assumptions C06_spike_profile_breakpoints.

(* ---- from Lem_API7.v ---- *)
Theorem C06_isi_distance_multi_mean_idx : forall eps cy m iv l idx ts te,
  idx_ok (length l) idx -> Forall (vtrain ts te) l -> iv_ok ts te iv ->
  isi_distance_multi ROps eps cy false m iv l idx
  = Ok (pair_sum (isi_distance_bi ROps eps cy false m iv) l (ixs l idx)
        / INR (length (pairs_of (ixs l idx)))).
Proof. exact isi_distance_multi_mean_idx. Qed.
Print Assumptions C06_isi_distance_multi_mean_idx.
Theorem C06_spike_distance_multi_mean_idx : forall eps cy m ri iv l idx ts te,
  idx_ok (length l) idx -> Forall (vtrain ts te) l -> iv_ok ts te iv ->
  spike_distance_multi ROps eps cy false m ri iv l idx
  = Ok (pair_sum (spike_distance_bi ROps eps cy false m ri iv) l (ixs l idx)
        / INR (length (pairs_of (ixs l idx)))).
Proof. exact spike_distance_multi_mean_idx. Qed.
Print Assumptions C06_spike_distance_multi_mean_idx.

(* ---- from Lem_API12.v: the SPIKE profile does not depend on the order of the trains either - REPRESENTATION equality
   (same breakpoints, same y1 / y2 arrays), for the whole list and for every admissible index selection ---- *)
Theorem C06_spike_profile_order_independent : forall eps cy m ri ts te (l l' : list (@train R)),
  (2 <= length l)%nat -> Forall (Lem_MultiAPI2.wtrain ts te) l -> Permutation l l' ->
  spike_profile_multi ROps eps cy false m ri l None = spike_profile_multi ROps eps cy false m ri l' None.
Proof. exact spike_multi_profile_perm. Qed.
Print Assumptions C06_spike_profile_order_independent.
Theorem C06_spike_profile_selection_order_independent : forall eps cy m ri ts te (l : list (@train R)) ix ix',
  (2 <= length ix)%nat -> Forall (Lem_MultiAPI2.wtrain ts te) l -> Forall (fun i => (i < length l)%nat) ix -> Permutation ix ix' ->
  spike_profile_multi ROps eps cy false m ri l (Some ix) = spike_profile_multi ROps eps cy false m ri l (Some ix').
Proof. exact spike_multi_profile_idx_perm. Qed.
Print Assumptions C06_spike_profile_selection_order_independent.

Example C06_nonvacuous : Forall (mtrain 0 1) [([1/8; 1/2], 0, 1); ([1/8], 0, 1); ([], 0, 1); ([1/8; 1/2], 0, 1)].
Proof. repeat (first [apply Forall_nil | apply Forall_cons]); unfold mtrain; cbn [tr_spikes tr_start tr_end fst snd]; repeat split; try lra; valid_tac. Qed.

(* ---- executed instance (Q, extracted to OCaml and run against /repo) = the real-number functions
   the theorems above are about: kernel-checked parametricity bridge (Bridge.v).  qL = map Q2R etc. ---- *)
From Coq Require Import QArith Qreals.
From PS Require Import Bridge.
Local Close Scope Q_scope.
Theorem C06_exec_isi_profile_multi_transfer : forall (eps : Q) (cy rc : bool) (m : Q) (l : list train) (idx : option (list nat)), rmap qLL (isi_profile_multi QOps eps cy rc m l idx) = isi_profile_multi ROps (Q2R eps) cy rc (Q2R m) (map qTrain l) idx.
Proof. exact isi_profile_multi_transfer. Qed.
Print Assumptions C06_exec_isi_profile_multi_transfer.
Theorem C06_exec_spike_profile_multi_transfer : forall (eps : Q) (cy rc : bool) (m : Q) (ri : bool) (l : list train) (idx : option (list nat)), rmap qLLL (spike_profile_multi QOps eps cy rc m ri l idx) = spike_profile_multi ROps (Q2R eps) cy rc (Q2R m) ri (map qTrain l) idx.
Proof. exact spike_profile_multi_transfer. Qed.
Print Assumptions C06_exec_spike_profile_multi_transfer.
Theorem C06_exec_spike_sync_profile_multi_transfer : forall (eps : Q) (cy rc : bool) (mt m : Q) (l : list train) (idx : option (list nat)), rmap (map q3) (spike_sync_profile_multi QOps eps cy rc mt m l idx) = spike_sync_profile_multi ROps (Q2R eps) cy rc (Q2R mt) (Q2R m) (map qTrain l) idx.
Proof. exact spike_sync_profile_multi_transfer. Qed.
Print Assumptions C06_exec_spike_sync_profile_multi_transfer.
Theorem C06_exec_isi_distance_multi_transfer : forall (eps : Q) (cy rc : bool) (m : Q) (iv : option (Q * Q)) (l : list train) (idx : option (list nat)), rmap Q2R (isi_distance_multi QOps eps cy rc m iv l idx) = isi_distance_multi ROps (Q2R eps) cy rc (Q2R m) (qIv iv) (map qTrain l) idx.
Proof. exact isi_distance_multi_transfer. Qed.
Print Assumptions C06_exec_isi_distance_multi_transfer.
Theorem C06_exec_isi_distance_matrix_transfer : forall (eps : Q) (cy rc : bool) (m : Q) (iv : option (Q * Q)) (l : list train) (idx : option (list nat)), rmap (map qL) (isi_distance_matrix QOps eps cy rc m iv l idx) = isi_distance_matrix ROps (Q2R eps) cy rc (Q2R m) (qIv iv) (map qTrain l) idx.
Proof. exact isi_distance_matrix_transfer. Qed.
Print Assumptions C06_exec_isi_distance_matrix_transfer.
