(* Props/C09.v — adding piecewise profiles is pointwise addition on the merged support.
   Only statements, `exact`, Print Assumptions and non-vacuity examples. *)
From Coq Require Import List Bool Arith Reals Lra Lia Sorted.
Import ListNotations.
From PS Require Import Num RLemmas Valid ModelKernels ModelFuncs ModelAPI Spec Lem_Pwc Lem_Pwl Heap Lem_History.
Require Import PS.Props.PropTac.
Local Open Scope R_scope.

Local Notation x0 f := (nthF ROps (fst f) 0).
Local Notation xn f := (lastF ROps (fst f)).
Local Notation lx0 f := (nthF ROps (fst (fst f)) 0).
Local Notation lxn f := (lastF ROps (fst (fst f))).

(* ---- one addition: the two-cursor merge with its three branches and three tail-copy branches
   equals the declarative pointwise sum on the strictly increasing union of the breakpoints ---- *)
Theorem C09_pwc_add_is_pointwise_sum : forall f g, wf_pwc f -> wf_pwc g -> x0 f = x0 g -> xn f = xn g ->
  pwc_add ROps f g = Ok (pwc_add_spec ROps f g).
Proof. exact pwc_add_eq_spec. Qed.
Print Assumptions C09_pwc_add_is_pointwise_sum.
Theorem C09_pwl_add_is_pointwise_sum : forall f g, wf_pwl f -> wf_pwl g -> lx0 f = lx0 g -> lxn f = lxn g ->
  pwl_add ROps f g = Ok (pwl_add_spec ROps f g).
Proof. exact pwl_add_eq_spec. Qed.
Print Assumptions C09_pwl_add_is_pointwise_sum.
(* the value of the sum at every time inside a piece is the sum of the operands' values *)
Theorem C09_pwc_sum_values : forall f g m lo hi, In lo (fst f ++ fst g) -> In hi (fst f ++ fst g) -> lo < m < hi ->
  ~ In m (fst f ++ fst g) ->
  pwc_at ROps (fst (pwc_add_spec ROps f g)) (snd (pwc_add_spec ROps f g)) m =
  Some (optsum ROps (pwc_at ROps (fst f) (snd f) m) (pwc_at ROps (fst g) (snd g) m)).
Proof. exact add_spec_at. Qed.
Print Assumptions C09_pwc_sum_values.
(* well-formed result (strictly increasing breakpoints, unchanged end points), integrals add *)
Theorem C09_pwc_sum_wf : forall f g, wf_pwc f -> wf_pwc g -> x0 f = x0 g -> xn f = xn g -> wf_pwc (pwc_add_spec ROps f g).
Proof. exact pwc_add_wf. Qed.
Print Assumptions C09_pwc_sum_wf.
Theorem C09_pwc_sum_integral : forall f g, wf_pwc f -> wf_pwc g -> x0 f = x0 g -> xn f = xn g ->
  pwc_int_all ROps (fst (pwc_add_spec ROps f g)) (snd (pwc_add_spec ROps f g)) =
  pwc_int_all ROps (fst f) (snd f) + pwc_int_all ROps (fst g) (snd g).
Proof. exact pwc_add_integral. Qed.
Print Assumptions C09_pwc_sum_integral.
Theorem C09_pwl_sum_wf : forall f g, wf_pwl f -> wf_pwl g -> lx0 f = lx0 g -> lxn f = lxn g -> wf_pwl (pwl_add_spec ROps f g).
Proof. exact pwl_add_wf. Qed.
Print Assumptions C09_pwl_sum_wf.
Theorem C09_pwl_sum_integral : forall f g, wf_pwl f -> wf_pwl g -> lx0 f = lx0 g -> lxn f = lxn g ->
  let h := pwl_add_spec ROps f g in
  pwl_int_all ROps (fst (fst h)) (snd (fst h)) (snd h) =
  pwl_int_all ROps (fst (fst f)) (snd (fst f)) (snd f) + pwl_int_all ROps (fst (fst g)) (snd (fst g)) (snd g).
Proof. exact pwl_add_integral. Qed.
Print Assumptions C09_pwl_sum_integral.
(* the result does not depend on the order of the additions (exact arithmetic) *)
Theorem C09_pwc_commutative : forall f g, wf_pwc f -> wf_pwc g -> x0 f = x0 g -> xn f = xn g ->
  pwc_add_spec ROps f g = pwc_add_spec ROps g f.
Proof. exact pwc_add_comm. Qed.
Print Assumptions C09_pwc_commutative.
Theorem C09_pwc_associative : forall f g h, wf_pwc f -> wf_pwc g -> wf_pwc h ->
  x0 f = x0 g -> xn f = xn g -> x0 g = x0 h -> xn g = xn h ->
  pwc_add_spec ROps (pwc_add_spec ROps f g) h = pwc_add_spec ROps f (pwc_add_spec ROps g h).
Proof. exact pwc_add_assoc. Qed.
Print Assumptions C09_pwc_associative.
Theorem C09_pwl_commutative : forall f g, wf_pwl f -> wf_pwl g -> lx0 f = lx0 g -> lxn f = lxn g ->
  pwl_add_spec ROps f g = pwl_add_spec ROps g f.
Proof. exact pwl_add_comm. Qed.
Print Assumptions C09_pwl_commutative.
(* scalar multiplication is pointwise *)
Theorem C09_pwc_mul : forall f c t,
  pwc_at ROps (fst (pwc_mul ROps f c)) (snd (pwc_mul ROps f c)) t = option_map (fun y => y * c) (pwc_at ROps (fst f) (snd f) t).
Proof. exact pwc_mul_pointwise. Qed.
Print Assumptions C09_pwc_mul.

(* ---- any sequence of add / mul_scalar / copy / new (invariant by induction over the history):
   no error, every object stays well-formed on [x0, xn] ... ---- *)
Theorem C09_history_wellformed : forall x0 xn (bs : list (@pwc R)) ops,
  Forall (good x0 xn) bs -> ops_ok x0 xn (length bs) ops ->
  let v := vrun ROps ops (bs, []) in
  snd v = [] /\ Forall (fun f => wf_pwc f /\ nthF ROps (fst f) 0 = x0 /\ lastF ROps (fst f) = xn) (fst v).
Proof. exact history_wf. Qed.
Print Assumptions C09_history_wellformed.
(* ... and represents exactly the linear combination (coefficients tracked symbolically by [trun]):
   value at every generic time and integral are the combination of the operands' *)
Theorem C09_history_is_linear_combination : forall x0 xn (bs : list (@pwc R)) ops,
  Forall (good x0 xn) bs -> ops_ok x0 xn (length bs) ops ->
  let v := vrun ROps ops (bs, []) in
  let tr := trun ops (tbases bs) in
  let B := bs ++ news ops in
  length (snd tr) = length (fst v) /\
  (forall k f, nth_error (fst v) k = Some f ->
     exists inf, nth_error (snd tr) k = Some inf /\ (length (coef inf) <= length B)%nat /\
       (forall t, x0 < t < xn -> generic B t ->
          pwc_at ROps (fst f) (snd f) t = Some (dot (coef inf) (map (valat t) B))) /\
       pwc_int_all ROps (fst f) (snd f) = dot (coef inf) (map intof B)).
Proof. exact history_pointwise. Qed.
Print Assumptions C09_history_is_linear_combination.
Theorem C09_history_breakpoints : forall x0 xn (bs : list (@pwc R)) ops,
  Forall (good x0 xn) bs -> ops_ok x0 xn (length bs) ops ->
  let v := vrun ROps ops (bs, []) in
  let tr := trun ops (tbases bs) in
  let B := bs ++ news ops in
  forall k f, nth_error (fst v) k = Some f ->
    exists inf, nth_error (snd tr) k = Some inf /\ Forall (fun i => (i < length B)%nat) (srcs inf) /\
      fst f = sort_unique ROps (bps B (srcs inf)) /\ ssorted (fst f) /\
      nthF ROps (fst f) 0 = x0 /\ lastF ROps (fst f) = xn /\
      (forall z, In z (fst f) <-> exists i, In i (srcs inf) /\ In z (fst (nth i B ([], [])))).
Proof. exact history_breakpoints. Qed.
Print Assumptions C09_history_breakpoints.
Theorem C09_history_pwl : forall x0 xn (bs : list (@pwl R)) ops,
  Forall (good_l x0 xn) bs -> lops_ok x0 xn (length bs) ops ->
  let v := lrun ROps ops (bs, []) in
  snd v = [] /\ Forall (fun f => wf_pwl f /\ nthF ROps (fst (fst f)) 0 = x0 /\ lastF ROps (fst (fst f)) = xn) (fst v).
Proof. exact history_wf_pwl. Qed.
Print Assumptions C09_history_pwl.

(* ---- objects with array references (heap model of the Python classes): no two live objects ever
   share an array; the added operand is never modified; an in-place mul_scalar is invisible
   through every other object; copies are independent of their originals ---- *)
Theorem C09_no_sharing_invariant : forall ops : list (@op R), inv (run ROps ops empty_state).
Proof. exact (inv_run ROps). Qed.
Print Assumptions C09_no_sharing_invariant.
Theorem C09_add_leaves_others_untouched : forall (s : @state R) i j k, inv s -> k <> i ->
  denote (step ROps (OAdd i j) s) k = denote s k.
Proof. exact (frame_add ROps). Qed.
Print Assumptions C09_add_leaves_others_untouched.
Theorem C09_mul_leaves_others_untouched : forall (s : @state R) i c k, inv s -> k <> i ->
  denote (step ROps (OMul i c) s) k = denote s k.
Proof. exact (frame_mul ROps). Qed.
Print Assumptions C09_mul_leaves_others_untouched.
Theorem C09_copies_independent : forall (s : @state R) i f, inv s -> denote s i = Some f ->
  let n := length (st_objs s) in
  let s' := step ROps (OCopy i) s in
  n <> i /\ denote s' n = Some f /\ denote s' i = Some f /\
  (forall ops, no_target n ops -> denote (run ROps ops s') n = Some f) /\
  (forall ops, no_target i ops -> denote (run ROps ops s') i = Some f).
Proof. exact (copy_independent ROps). Qed.
Print Assumptions C09_copies_independent.
Theorem C09_heap_refines_values : forall (ops : list (@op R)) k,
  denote (run ROps ops empty_state) k = nth_error (fst (vrun ROps ops vempty)) k /\
  st_errs (run ROps ops empty_state) = snd (vrun ROps ops vempty).
Proof. exact (refines ROps). Qed.
Print Assumptions C09_heap_refines_values.

Example C09_nonvacuous : good 0 1 ([0; 1/4; 1], [1; -2]) /\ good 0 1 ([0; 1/2; 3/4; 1], [3; 0; 1]).
Proof. unfold good, wf_pwc, wf_x, nthF, lastF; cbn [fst snd length nth last]; repeat split; try lia; try reflexivity; valid_tac. Qed.

(* ---- executed instance (Q, extracted to OCaml and run against /repo) = the real-number functions
   the theorems above are about: kernel-checked parametricity bridge (Bridge.v).  qL = map Q2R etc. ---- *)
From Coq Require Import QArith Qreals.
From PS Require Import Bridge.
Local Close Scope Q_scope.
Theorem C09_exec_pwc_add_transfer : forall f g : pwc, rmap qLL (pwc_add QOps f g) = pwc_add ROps (qLL f) (qLL g).
Proof. exact pwc_add_transfer. Qed.
Print Assumptions C09_exec_pwc_add_transfer.
Theorem C09_exec_pwl_add_transfer : forall f g : pwl, rmap qLLL (pwl_add QOps f g) = pwl_add ROps (qLLL f) (qLLL g).
Proof. exact pwl_add_transfer. Qed.
Print Assumptions C09_exec_pwl_add_transfer.
Theorem C09_exec_pwc_add_spec_transfer : forall f g : list Q * list Q, qLL (pwc_add_spec QOps f g) = pwc_add_spec ROps (qLL f) (qLL g).
Proof. exact pwc_add_spec_transfer. Qed.
Print Assumptions C09_exec_pwc_add_spec_transfer.
Theorem C09_exec_pwl_add_spec_transfer : forall f g : list Q * list Q * list Q, qLLL (pwl_add_spec QOps f g) = pwl_add_spec ROps (qLLL f) (qLLL g).
Proof. exact pwl_add_spec_transfer. Qed.
Print Assumptions C09_exec_pwl_add_spec_transfer.
Theorem C09_exec_pwc_mul_transfer : forall (f : pwc) (c : Q), qLL (pwc_mul QOps f c) = pwc_mul ROps (qLL f) (Q2R c).
Proof. exact pwc_mul_transfer. Qed.
Print Assumptions C09_exec_pwc_mul_transfer.
