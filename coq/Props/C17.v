(* Props/C17.v — the SPIKE-Sync filter keeps exactly the spikes above threshold.
   Only statements, `exact`, Print Assumptions and non-vacuity examples. *)
From Coq Require Import List Bool Arith Reals Lra Sorted.
Import ListNotations.
From PS Require Import Num RLemmas Valid ModelKernels ModelFuncs ModelAPI Spec SyncDefs Lem_Lists Lem_Sync Lem_API.
Require Import PS.Props.PropTac.
Local Open Scope R_scope.

(* FULL STATEMENT: for every list of valid trains on a common interval, every threshold, max_tau
   and MRTS, and both backends, the filter returns exactly what the declarative [filter_spec] says:
   the per-spike count is the number of other trains containing a spike coincident with it (pairwise
   definition of C03, or at the same time); kept iff thr*(N-1) < count, removed otherwise *)
Theorem C17_filter_is_definition : forall eps cy mt m thr (l : list train) ts te, Forall (vtrain ts te) l ->
  map (fun kr => (tr_spikes (fst kr), tr_spikes (snd kr))) (filter_by_spike_sync ROps eps cy false mt m thr l)
  = filter_spec ROps mt m thr l.
Proof. exact filter_is_spec. Qed.
Print Assumptions C17_filter_is_definition.

(* strictness: a spike is kept iff its count is STRICTLY above thr*(N-1) *)
Theorem C17_keep_iff : forall eps cy mt m thr (l : list train) ts te i k (d : train * train),
  Forall (vtrain ts te) l -> (i < length l)%nat ->
  let st := nth_train ROps l i in
  (k < length (tr_spikes st))%nat ->
  let x := nth k (tr_spikes st) 0 in
  let cnt := sumF ROps (map (fun t => nth k (single_spec ROps (tr_spikes st) (tr_spikes t) ts te mt m) 0) (others l i)) in
  let kr := nth i (filter_by_spike_sync ROps eps cy false mt m thr l) d in
  (In x (tr_spikes (fst kr)) <-> thr * INR (length l - 1) < cnt) /\
  (In x (tr_spikes (snd kr)) <-> ~ thr * INR (length l - 1) < cnt).
Proof. exact filter_keep_iff. Qed.
Print Assumptions C17_keep_iff.

(* the per-spike scan of the filter = the pairwise definition (= what the profile code marks) *)
Theorem C17_indicator_is_pairwise : forall s1 s2 ts te mt m, valid ts te s1 -> valid ts te s2 ->
  coincidence_single_gen ROps (get_tau ROps) s1 s2 ts te mt m = single_spec ROps s1 s2 ts te mt m.
Proof. exact single_profile_spec. Qed.
Print Assumptions C17_indicator_is_pairwise.

(* kept and removed spikes are a partition of each input train, in the original order, on the
   original interval (any input, reconciled or not) *)
Theorem C17_partition : forall eps cy rc mt m thr (l : list train) k r,
  In (k, r) (filter_by_spike_sync ROps eps cy rc mt m thr l) ->
  exists st mask, In st (if rc then reconcile ROps eps l else l) /\
    tr_start k = tr_start st /\ tr_end k = tr_end st /\ tr_start r = tr_start st /\ tr_end r = tr_end st /\
    length mask = length (tr_spikes st) /\
    tr_spikes k = select mask (tr_spikes st) /\ tr_spikes r = select (map negb mask) (tr_spikes st) /\
    (forall x, In x (tr_spikes st) <-> In x (tr_spikes k) \/ In x (tr_spikes r)) /\
    subseq (tr_spikes k) (tr_spikes st) /\ subseq (tr_spikes r) (tr_spikes st) /\
    (NoDup (tr_spikes st) ->
       (exists p, tr_spikes k = filter p (tr_spikes st) /\ tr_spikes r = filter (fun x => negb (p x)) (tr_spikes st)) /\
       (forall x, In x (tr_spikes k) -> In x (tr_spikes r) -> False)).
Proof. exact filter_partition. Qed.
Print Assumptions C17_partition.

(* a higher threshold never keeps more spikes *)
Theorem C17_monotone_threshold : forall eps cy rc mt m thr thr' (l : list train), thr <= thr' ->
  Forall2 (fun kr kr' => incl (tr_spikes (fst kr')) (tr_spikes (fst kr)))
          (filter_by_spike_sync ROps eps cy rc mt m thr l) (filter_by_spike_sync ROps eps cy rc mt m thr' l).
Proof. exact filter_mono_thr. Qed.
Print Assumptions C17_monotone_threshold.

From PS Require Lem_MultiAPI2.
Import Lem_MultiAPI2.
(* link with the multivariate SPIKE-Sync profile: for a spike time unique to its train the profile entry has multiplicity N-1 and value = the filter's count, so kept iff value/multiplicity > threshold *)
Theorem C17_count_is_profile_value : forall (eps : R) (cy : bool) (mt m thr : R) (l : list train) (ts te : R) (i k : nat) (d : train * train), (2 <= length l)%nat -> Forall (wtrain ts te) l -> (i < length l)%nat -> let st := nth_train ROps l i in (k < length (tr_spikes st))%nat -> let x := nth k (tr_spikes st) 0 in (forall j : nat, (j < length l)%nat -> j <> i -> ~ In x (tr_spikes (nth_train ROps l j))) -> let kr := nth i (filter_by_spike_sync ROps eps cy false mt m thr l) d in exists (P : list dentry) (v mp : R), spike_sync_profile_multi ROps eps cy false mt m l None = Ok P /\ sum_at ROps x (interior_entries P) = (v, mp) /\ mp = INR (length l - 1) /\ 0 < mp /\ (In x (tr_spikes (fst kr)) <-> thr < v / mp) /\ (In x (tr_spikes (snd kr)) <-> ~ thr < v / mp).
Proof. exact filter_keep_iff_profile_value. Qed.
Print Assumptions C17_count_is_profile_value.

Example C17_nonvacuous : Forall (vtrain 0 1) [([1/8; 1/2], 0, 1); ([1/8], 0, 1); ([], 0, 1)].
Proof. repeat (first [apply Forall_nil | apply Forall_cons]); unfold vtrain; cbn [tr_spikes tr_start tr_end fst snd]; repeat split; try lra; valid_tac. Qed.

(* ---- executed instance (Q, extracted to OCaml and run against /repo) = the real-number functions
   the theorems above are about: kernel-checked parametricity bridge (Bridge.v).  qL = map Q2R etc. ---- *)
From Coq Require Import QArith Qreals.
From PS Require Import Bridge.
Local Close Scope Q_scope.
Theorem C17_exec_filter_by_spike_sync_transfer : forall (eps : Q) (cy rc : bool) (mt m thr : Q) (l : list train), map (pmap qTrain qTrain) (filter_by_spike_sync QOps eps cy rc mt m thr l) = filter_by_spike_sync ROps (Q2R eps) cy rc (Q2R mt) (Q2R m) (Q2R thr) (map qTrain l).
Proof. exact filter_by_spike_sync_transfer. Qed.
Print Assumptions C17_exec_filter_by_spike_sync_transfer.
Theorem C17_exec_filter_spec_transfer : forall (mt mrts thr : Q) (l : list (list Q * Q * Q)), map qLL (filter_spec QOps mt mrts thr l) = filter_spec ROps (Q2R mt) (Q2R mrts) (Q2R thr) (map qTrain l).
Proof. exact filter_spec_transfer. Qed.
Print Assumptions C17_exec_filter_spec_transfer.
Theorem C17_exec_single_kernel_transfer : forall (s1 s2 : list Q) (ts te mt mrts : Q), qL (single_kernel QOps s1 s2 ts te mt mrts) = single_kernel ROps (qL s1) (qL s2) (Q2R ts) (Q2R te) (Q2R mt) (Q2R mrts).
Proof. exact single_kernel_transfer. Qed.
Print Assumptions C17_exec_single_kernel_transfer.
