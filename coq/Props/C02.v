(* Props/C02.v — the SPIKE-profile equals the SPIKE-distance definition (plain, RI, adaptive).
   Only statements, `exact`, Print Assumptions and non-vacuity examples. *)
From Coq Require Import List Bool Arith Reals Lra Sorted.
Import ListNotations.
From PS Require Import Num RLemmas Valid ModelKernels ModelFuncs ModelAPI Spec Lem_MinDist Lem_Spike.
Require Import PS.Props.PropTac.
Local Open Scope R_scope.

(* FULL STATEMENT: for all valid trains (empty, one-spike, edge and shared spikes included), RI in
   {false,true} and every MRTS, the scan of the Python fall-back (incremental nearest-spike search
   restarted at the other train's cursor, mirrored auxiliary spikes, simultaneous-spike branch,
   edge branches) returns exactly the declarative profile [spike_spec]: breakpoints as for the ISI
   profile; on every piece and for each train the linear interpolation between the nearest-spike
   distances of its previous and following spike (constant before the first / after the last
   spike), combined by the ISI-weighted formula; y1/y2 are the right/left limits at the piece ends *)
Theorem C02_spike_profile_is_definition : forall s1 s2 ts te m ri,
  valid ts te s1 -> valid ts te s2 ->
  spike_profile_py ROps (eff ts te s1) (eff ts te s2) ts te m ri = spike_spec ROps s1 s2 ts te m ri.
Proof. exact spike_profile_spec. Qed.
Print Assumptions C02_spike_profile_is_definition.

(* the .pyx text (auxiliary spikes written 2*t0 - t1) computes the same *)
Theorem C02_spike_profile_cython_text : forall t1 t2 ts te m ri,
  spike_profile_cy ROps t1 t2 ts te m ri = spike_profile_py ROps t1 t2 ts te m ri.
Proof. exact spike_profile_cy_eq. Qed.
Print Assumptions C02_spike_profile_cython_text.

(* (a) the incremental early-exit search equals the global minimum, for every position of x *)
Theorem C02_nearest_spike_search : forall x l a0 a1, ssorted l -> Forall (fun y => a0 <= y <= a1) l -> a0 <= a1 ->
  get_min_dist ROps x l a0 a1 = nearest ROps (a0, a1) l x.
Proof. exact get_min_dist_nearest. Qed.
Print Assumptions C02_nearest_spike_search.
(* ... also when restarted at a cursor of the other train whose spike is <= x *)
Theorem C02_nearest_spike_search_from_cursor : forall x pre suf a0 a1,
  ssorted (pre ++ suf) -> Forall (fun y => a0 <= y <= a1) (pre ++ suf) -> a0 <= a1 ->
  (exists s0, hd_error suf = Some s0 /\ s0 <= x) ->
  get_min_dist ROps x suf a0 a1 = nearest ROps (a0, a1) (pre ++ suf) x.
Proof. intros; apply get_min_dist_suffix; assumption. Qed.
Print Assumptions C02_nearest_spike_search_from_cursor.

(* same breakpoints as the ISI profile *)
Theorem C02_breakpoints : forall s1 s2 ts te m ri, valid ts te s1 -> valid ts te s2 ->
  fst (fst (spike_profile_py ROps (eff ts te s1) (eff ts te s2) ts te m ri)) = breaks ROps ts te s1 s2.
Proof. exact spike_profile_breakpoints. Qed.
Print Assumptions C02_breakpoints.

(* the profile is 0 (both one-sided limits) at every instant where both trains spike together *)
Theorem C02_zero_at_shared_spikes : forall s1 s2 ts te m ri x k,
  valid ts te s1 -> valid ts te s2 -> In x s1 -> In x s2 ->
  let P := spike_profile_py ROps (eff ts te s1) (eff ts te s2) ts te m ri in
  nth_error (fst (fst P)) k = Some x ->
  (forall v, nth_error (snd (fst P)) k = Some v -> v = 0) /\
  (forall j v, k = S j -> nth_error (snd P) j = Some v -> v = 0).
Proof. exact spike_zero_at_shared. Qed.
Print Assumptions C02_zero_at_shared_spikes.

(* the combination formula: plain and rate-independent variants, MRTS floor *)
Theorem C02_formula_plain : forall i1 i2 s1 s2, 0 < i1 -> 0 < i2 ->
  dist_at_t ROps i1 i2 s1 s2 0 false = (s1 * i2 + s2 * i1) / (2 * ((i1 + i2) / 2) ^ 2).
Proof. exact dist_at_t_plain_false. Qed.
Print Assumptions C02_formula_plain.
Theorem C02_formula_RI : forall i1 i2 s1 s2, 0 < i1 -> 0 < i2 ->
  dist_at_t ROps i1 i2 s1 s2 0 true = (s1 + s2) / (i1 + i2).
Proof. exact dist_at_t_plain_true. Qed.
Print Assumptions C02_formula_RI.

Example C02_nonvacuous : valid 0 1 [0] /\ valid 0 1 [0; 5/8] /\ valid 0 1 [1/8; 5/8; 1].
Proof. repeat split; try lra; valid_tac. Qed.

(* ---- executed instance (Q, extracted to OCaml and run against /repo) = the real-number functions
   the theorems above are about: kernel-checked parametricity bridge (Bridge.v).  qL = map Q2R etc. ---- *)
From Coq Require Import QArith Qreals.
From PS Require Import Bridge.
Local Close Scope Q_scope.
Theorem C02_exec_spike_profile_py_transfer : forall (t1 t2 : list Q) (ts te m : Q) (ri : bool), qLLL (spike_profile_py QOps t1 t2 ts te m ri) = spike_profile_py ROps (qL t1) (qL t2) (Q2R ts) (Q2R te) (Q2R m) ri.
Proof. exact spike_profile_py_transfer. Qed.
Print Assumptions C02_exec_spike_profile_py_transfer.
Theorem C02_exec_spike_profile_cy_transfer : forall (t1 t2 : list Q) (ts te m : Q) (ri : bool), qLLL (spike_profile_cy QOps t1 t2 ts te m ri) = spike_profile_cy ROps (qL t1) (qL t2) (Q2R ts) (Q2R te) (Q2R m) ri.
Proof. exact spike_profile_cy_transfer. Qed.
Print Assumptions C02_exec_spike_profile_cy_transfer.
Theorem C02_exec_spike_spec_transfer : forall (s1 s2 : list Q) (ts te m : Q) (ri : bool), qLLL (spike_spec QOps s1 s2 ts te m ri) = spike_spec ROps (qL s1) (qL s2) (Q2R ts) (Q2R te) (Q2R m) ri.
Proof. exact spike_spec_transfer. Qed.
Print Assumptions C02_exec_spike_spec_transfer.
