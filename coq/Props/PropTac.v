(* Props/PropTac.v — tactics used only by the non-vacuity Examples in Props/:
   decide concrete real-number instances of the boolean model functions. *)
From Coq Require Import List Bool Reals Lra Sorted.
Import ListNotations.
From PS Require Import Num RLemmas Valid.
Local Open Scope R_scope.

Ltac rstep :=
  match goal with
  | |- context [Rltb ?a ?b] => destruct (Rltb_spec a b); try lra
  | |- context [Reqb ?a ?b] => destruct (Reqb_spec a b); try lra
  | |- context [Rle_dec ?a ?b] => destruct (Rle_dec a b); try lra
  | |- context [Rcase_abs ?a] => destruct (Rcase_abs a); try lra
  | H : context [Rle_dec ?a ?b] |- _ => destruct (Rle_dec a b); try lra
  | H : context [Rltb ?a ?b] |- _ => destruct (Rltb_spec a b); try lra
  | H : context [Rcase_abs ?a] |- _ => destruct (Rcase_abs a); try lra
  end.

(* unfold the derived operations of ROps down to Rltb/Reqb and decide them *)
Ltac rdecide :=
  unfold nmax, nmin, nabs, nleb, ngtb, ngeb, n2, n4, nhalf in *;
  cbn [nadd nsub nmul ndiv n0 n1 nltb neqb nofZ ROps negb andb orb] in *;
  unfold Rmin, Rmax, Rabs in *;
  repeat (rstep; cbn [negb andb orb] in * );
  try reflexivity; try lra.

Ltac valid_tac :=
  repeat split; try lra;
  repeat (first [ apply SSorted_nil | apply SSorted_cons | apply Forall_nil | apply Forall_cons ]; try lra).
