(* Props/C11.v — discrete profiles add by event and integrate over open intervals.
   Only statements, `exact`, Print Assumptions and non-vacuity examples. *)
From Coq Require Import List Bool Arith Reals Lra Sorted.
Import ListNotations.
From PS Require Import Num RLemmas Valid ModelKernels ModelFuncs ModelAPI Spec Lem_Df Lem_Smooth.
Local Open Scope R_scope.

Local Notation x_of e := (fst (fst e)).
Local Notation first_x f := (fst (fst (hd (0, 0, 0) f))).
Local Notation last_x f := (fst (fst (last f (0, 0, 0)))).

(* adding two profiles on the same interval: the interior of the result has one entry per
   distinct event time in increasing order, values and multiplicities summed where both
   operands have an event at that time and copied otherwise; the two edge entries keep their times *)
Theorem C11_add_by_event : forall f g : list (R * R * R),
  wf_df f -> wf_df g -> first_x f = first_x g -> last_x f = last_x g ->
  exists r, df_add ROps f g = Ok r /\ interior_entries r = df_add_spec ROps f g /\
            first_x r = first_x f /\ last_x r = last_x f.
Proof. exact df_add_events. Qed.
Print Assumptions C11_add_by_event.

Theorem C11_add_wellformed : forall f g r : list (R * R * R),
  wf_df f -> wf_df g -> first_x f = first_x g -> last_x f = last_x g -> df_add ROps f g = Ok r -> wf_df r.
Proof. exact df_add_wf. Qed.
Print Assumptions C11_add_wellformed.

Theorem C11_add_commutes_on_events : forall f g : list (R * R * R),
  wf_df f -> wf_df g -> first_x f = first_x g -> last_x f = last_x g -> df_add_spec ROps f g = df_add_spec ROps g f.
Proof. exact df_add_comm_events. Qed.
Print Assumptions C11_add_commutes_on_events.

(* integral = (sum of values, sum of multiplicities) of exactly the events strictly inside (a, b);
   all events when no interval is given; several intervals add up; edge entries never count *)
Theorem C11_integral_all : forall f, df_integral ROps f (@IvNone R) = Ok (df_integral_spec ROps f (@IvNone R)).
Proof. exact df_integral_none. Qed.
Print Assumptions C11_integral_all.
Theorem C11_integral_open_interval : forall f a b,
  wf_df f -> first_x f <= a -> a < b -> b <= last_x f ->
  df_integral ROps f (IvOne a b) = Ok (df_integral_spec ROps f (IvOne a b)).
Proof. exact df_integral_one. Qed.
Print Assumptions C11_integral_open_interval.
Theorem C11_integral_several : forall f l, wf_df f ->
  Forall (fun p : R * R => first_x f <= fst p /\ fst p < snd p <= last_x f) l ->
  df_integral ROps f (IvMany l) = Ok (df_integral_spec ROps f (IvMany l)).
Proof. exact df_integral_many. Qed.
Print Assumptions C11_integral_several.

(* average = ratio, or 1 when no event lies inside *)
Theorem C11_average : forall f a b, wf_df f -> first_x f <= a -> a < b -> b <= last_x f ->
  df_avrg ROps f (IvOne a b) true =
  Ok (let '(v, m) := df_integral_spec ROps f (IvOne a b) in if Rltb 0 m then v / m else 1).
Proof. exact df_avrg_spec. Qed.
Print Assumptions C11_average.

(* the integral of a sum is the sum of the integrals, on every open interval (and without interval) *)
Theorem C11_integral_additive : forall (f g r : list (R * R * R)) (iv : option (R * R)),
  wf_df f -> wf_df g -> first_x f = first_x g -> last_x f = last_x g -> df_add ROps f g = Ok r ->
  df_integral_spec1 ROps r iv =
  (fst (df_integral_spec1 ROps f iv) + fst (df_integral_spec1 ROps g iv),
   snd (df_integral_spec1 ROps f iv) + snd (df_integral_spec1 ROps g iv)).
Proof. exact df_add_integral. Qed.
Print Assumptions C11_integral_additive.

(* plottable data without smoothing: values divided by their multiplicities *)
Theorem C11_plottable_k0 : forall f,
  df_plottable ROps f 0 = (map (fun e : R * R * R => x_of e) f, map (fun e : R * R * R => snd (fst e) / snd e) f).
Proof. exact df_plot0. Qed.
Print Assumptions C11_plottable_k0.

(* smoothing window k > 0: each plotted value is the mean over the entry's own unit contributions
   and the nearest contributions on either side, each side with a budget of (k+1) profiles' worth
   of multiplicity minus the entry's own ([smooth_spec]: whole entries while the budget lasts, then
   the fitting fraction of the next one); an entry whose multiplicity already reaches the budget
   is plotted as y/mp; values stay in [0,1] *)
Theorem C11_plottable_smoothing : forall (f : list (R * R * R)) k, (0 < k)%nat -> Forall (fun e => 0 < d_mp e) f ->
  df_plottable ROps f k =
  (map (@d_x R) f,
   map (fun i => smooth_spec (INR (k + 1) * d_mp (nth 0 f (0, 0, 0))) (rev (firstn i f)) (skipn (S i) f) (nth i f (0, 0, 0)))
       (seq 0 (length f))).
Proof. exact df_plottable_spec. Qed.
Print Assumptions C11_plottable_smoothing.
Theorem C11_smoothing_large_multiplicity : forall E l r (e : R * R * R), E <= d_mp e -> smooth_spec E l r e = d_y e / d_mp e.
Proof. exact smooth_large_mp. Qed.
Print Assumptions C11_smoothing_large_multiplicity.
Theorem C11_smoothing_range : forall (f : list (R * R * R)) k, Forall (fun e => 0 < d_mp e /\ 0 <= d_y e <= d_mp e) f ->
  Forall (fun v => 0 <= v <= 1) (snd (df_plottable ROps f k)).
Proof. exact smooth_range. Qed.
Print Assumptions C11_smoothing_range.

(* non-vacuity: profiles with an event on an edge time and one without events *)
Example C11_nonvacuous : wf_df [(0,1,1);(0,1,1);(1/2,0,1);(1,2,2);(1,2,2)] /\ wf_df [(0,1,1);(1,1,1)].
Proof. split; [exact wf_df_ex1 | exact wf_df_ex2]. Qed.

(* ---- executed instance (Q, extracted to OCaml and run against /repo) = the real-number functions
   the theorems above are about: kernel-checked parametricity bridge (Bridge.v).  qL = map Q2R etc. ---- *)
From Coq Require Import QArith Qreals.
From PS Require Import Bridge.
Local Close Scope Q_scope.
Theorem C11_exec_df_add_transfer : forall f g : list dentry, rmap (map q3) (df_add QOps f g) = df_add ROps (map q3 f) (map q3 g).
Proof. exact df_add_transfer. Qed.
Print Assumptions C11_exec_df_add_transfer.
Theorem C11_exec_df_integral_transfer : forall (f : list dentry) (iv : ivspec), rmap q2 (df_integral QOps f iv) = df_integral ROps (map q3 f) (ivmap Q2R iv).
Proof. exact df_integral_transfer. Qed.
Print Assumptions C11_exec_df_integral_transfer.
Theorem C11_exec_df_avrg_transfer : forall (f : list dentry) (iv : ivspec) (normalize : bool), rmap Q2R (df_avrg QOps f iv normalize) = df_avrg ROps (map q3 f) (ivmap Q2R iv) normalize.
Proof. exact df_avrg_transfer. Qed.
Print Assumptions C11_exec_df_avrg_transfer.
Theorem C11_exec_df_plottable_transfer : forall (f : list dentry) (k : nat), qLL (df_plottable QOps f k) = df_plottable ROps (map q3 f) k.
Proof. exact df_plottable_transfer. Qed.
Print Assumptions C11_exec_df_plottable_transfer.
Theorem C11_exec_df_add_spec_transfer : forall f g : list (Q * Q * Q), map q3 (df_add_spec QOps f g) = df_add_spec ROps (map q3 f) (map q3 g).
Proof. exact df_add_spec_transfer. Qed.
Print Assumptions C11_exec_df_add_spec_transfer.
Theorem C11_exec_df_integral_spec_transfer : forall (f : list (Q * Q * Q)) (iv : ivspec), q2 (df_integral_spec QOps f iv) = df_integral_spec ROps (map q3 f) (ivmap Q2R iv).
Proof. exact df_integral_spec_transfer. Qed.
Print Assumptions C11_exec_df_integral_spec_transfer.
