(* Props/C11.v — discrete profiles add by event and integrate over open intervals.
   Only statements, `exact`, Print Assumptions and non-vacuity examples. *)
From Coq Require Import List Bool Arith Reals Lra Sorted.
Import ListNotations.
From PS Require Import Num RLemmas Valid ModelKernels ModelFuncs ModelAPI Spec Lem_Df.
Local Open Scope R_scope.

Local Notation x_of e := (fst (fst e)).
Local Notation first_x f := (fst (fst (hd (0, 0, 0) f))).
Local Notation last_x f := (fst (fst (last f (0, 0, 0)))).

(* adding two profiles on the same interval: the interior of the result has one entry per
   distinct event time in increasing order, values and multiplicities summed where both
   operands have an event at that time and copied otherwise; the two edge entries keep their times *)
Theorem C11_add_by_event : forall f g : list (R * R * R),
  wf_df f -> wf_df g -> first_x f = first_x g -> last_x f = last_x g ->
  exists r, df_add ROps f g = Ok r /\ interior_entries r = df_add_spec ROps f g /\
            first_x r = first_x f /\ last_x r = last_x f.
Proof. exact df_add_events. Qed.
Print Assumptions C11_add_by_event.

Theorem C11_add_wellformed : forall f g r : list (R * R * R),
  wf_df f -> wf_df g -> first_x f = first_x g -> last_x f = last_x g -> df_add ROps f g = Ok r -> wf_df r.
Proof. exact df_add_wf. Qed.
Print Assumptions C11_add_wellformed.

Theorem C11_add_commutes_on_events : forall f g : list (R * R * R),
  wf_df f -> wf_df g -> first_x f = first_x g -> last_x f = last_x g -> df_add_spec ROps f g = df_add_spec ROps g f.
Proof. exact df_add_comm_events. Qed.
Print Assumptions C11_add_commutes_on_events.

(* integral = (sum of values, sum of multiplicities) of exactly the events strictly inside (a, b);
   all events when no interval is given; several intervals add up; edge entries never count *)
Theorem C11_integral_all : forall f, df_integral ROps f (@IvNone R) = Ok (df_integral_spec ROps f (@IvNone R)).
Proof. exact df_integral_none. Qed.
Print Assumptions C11_integral_all.
Theorem C11_integral_open_interval : forall f a b,
  wf_df f -> first_x f <= a -> a < b -> b <= last_x f ->
  df_integral ROps f (IvOne a b) = Ok (df_integral_spec ROps f (IvOne a b)).
Proof. exact df_integral_one. Qed.
Print Assumptions C11_integral_open_interval.
Theorem C11_integral_several : forall f l, wf_df f ->
  Forall (fun p : R * R => first_x f <= fst p /\ fst p < snd p <= last_x f) l ->
  df_integral ROps f (IvMany l) = Ok (df_integral_spec ROps f (IvMany l)).
Proof. exact df_integral_many. Qed.
Print Assumptions C11_integral_several.

(* average = ratio, or 1 when no event lies inside *)
Theorem C11_average : forall f a b, wf_df f -> first_x f <= a -> a < b -> b <= last_x f ->
  df_avrg ROps f (IvOne a b) true =
  Ok (let '(v, m) := df_integral_spec ROps f (IvOne a b) in if Rltb 0 m then v / m else 1).
Proof. exact df_avrg_spec. Qed.
Print Assumptions C11_average.

(* the integral of a sum is the sum of the integrals, on every open interval (and without interval) *)
Theorem C11_integral_additive : forall (f g r : list (R * R * R)) (iv : option (R * R)),
  wf_df f -> wf_df g -> first_x f = first_x g -> last_x f = last_x g -> df_add ROps f g = Ok r ->
  df_integral_spec1 ROps r iv =
  (fst (df_integral_spec1 ROps f iv) + fst (df_integral_spec1 ROps g iv),
   snd (df_integral_spec1 ROps f iv) + snd (df_integral_spec1 ROps g iv)).
Proof. exact df_add_integral. Qed.
Print Assumptions C11_integral_additive.

(* plottable data without smoothing: values divided by their multiplicities *)
Theorem C11_plottable_k0 : forall f,
  df_plottable ROps f 0 = (map (fun e : R * R * R => x_of e) f, map (fun e : R * R * R => snd (fst e) / snd e) f).
Proof. exact df_plot0. Qed.
Print Assumptions C11_plottable_k0.

(* non-vacuity: profiles with an event on an edge time and one without events *)
Example C11_nonvacuous : wf_df [(0,1,1);(0,1,1);(1/2,0,1);(1,2,2);(1,2,2)] /\ wf_df [(0,1,1);(1,1,1)].
Proof. split; [exact wf_df_ex1 | exact wf_df_ex2]. Qed.
