(* Props/C05.v — every scalar measure equals the average of its profile over the same interval.
   Only statements, `exact`, Print Assumptions and non-vacuity examples. *)
From Coq Require Import List Bool Arith Reals Lra Sorted.
Import ListNotations.
From PS Require Import Num RLemmas Valid ModelKernels ModelFuncs ModelAPI Spec SyncDefs Lem_IsiProps Lem_Spike Lem_Sync Lem_API.
From PS Require Lem_OrderSpec.
Require Import PS.Props.PropTac.
Local Open Scope R_scope.

(* ISI-distance = time average of the ISI profile: both backends (cy = compiled kernels importable:
   the separately written single-pass routine), whole recording and every sub-interval *)
Theorem C05_isi : forall eps cy m iv a b ts te, vtrain ts te a -> vtrain ts te b ->
  isi_distance_bi ROps eps cy false m iv a b = pwc_avrg ROps (isi_profile_bi ROps eps cy false m a b) (iv_of iv).
Proof. exact isi_distance_is_profile_average. Qed.
Print Assumptions C05_isi.

(* SPIKE-distance (plain, RI, adaptive): the single-pass trapezoid accumulation of the compiled
   backend = average of the profile; the fall-back route averages the profile by construction *)
Theorem C05_spike_single_pass : forall t1 t2 ts te m ri, valid ts te t1 -> valid ts te t2 -> t1 <> [] -> t2 <> [] ->
  Ok (spike_distance_cy ROps t1 t2 ts te m ri) = pwl_avrg ROps (spike_profile_cy ROps t1 t2 ts te m ri) (@IvNone R).
Proof. exact spike_distance_cy_avrg. Qed.
Print Assumptions C05_spike_single_pass.
Theorem C05_spike_fallback_route : forall eps m ri iv a b,
  spike_distance_bi ROps eps false false m ri iv a b = pwl_avrg ROps (spike_profile_bi ROps eps false false m ri a b) (iv_of iv).
Proof. intros; destruct iv; reflexivity. Qed.
Print Assumptions C05_spike_fallback_route.

(* SPIKE-Sync = summed profile values / summed multiplicities of the events strictly inside the
   interval, both backends; 1 by convention when no spike falls into the averaging interval *)
Theorem C05_sync_sums : forall eps cy mt m iv a b ts te, vtrain ts te a -> vtrain ts te b ->
  spike_sync_values ROps eps cy mt m iv a b = df_integral ROps (spike_sync_profile_bi ROps eps cy false mt m a b) (iv_of iv).
Proof. exact sync_values_are_profile_sums. Qed.
Print Assumptions C05_sync_sums.
Theorem C05_sync_ratio_and_convention : forall eps cy mt m iv a b ts te, vtrain ts te a -> vtrain ts te b ->
  spike_sync_bi ROps eps cy false mt m iv a b =
  rmap (fun cm => if Reqb (snd cm) 0 then 1 else fst cm / snd cm)
       (df_integral ROps (spike_sync_profile_bi ROps eps cy false mt m a b) (iv_of iv)).
Proof. exact sync_value_convention. Qed.
Print Assumptions C05_sync_ratio_and_convention.

(* spike-train order: the pooled (value sum, multiplicity sum), both backends *)
Theorem C05_order_sums : forall eps cy mt m a b ts te, 0 < eps -> vtrain ts te a -> vtrain ts te b ->
  order_impl ROps eps cy mt m a b =
  rbind (order_profile_bi ROps eps cy true mt m a b) (fun p => df_integral ROps p (@IvNone R)).
Proof. exact order_is_profile_sums. Qed.
Print Assumptions C05_order_sums.

(* the two backends return the same scalars *)
Theorem C05_backends_agree_isi : forall eps m iv a b ts te, vtrain ts te a -> vtrain ts te b ->
  isi_distance_bi ROps eps true false m iv a b = isi_distance_bi ROps eps false false m iv a b /\
  isi_profile_bi ROps eps true false m a b = isi_profile_bi ROps eps false false m a b.
Proof. exact isi_backends_agree. Qed.
Print Assumptions C05_backends_agree_isi.
Theorem C05_backends_agree_sync : forall eps mt m iv a b ts te, vtrain ts te a -> vtrain ts te b ->
  spike_sync_profile_bi ROps eps true false mt m a b = spike_sync_profile_bi ROps eps false false mt m a b /\
  spike_sync_values ROps eps true mt m iv a b = spike_sync_values ROps eps false mt m iv a b /\
  spike_sync_bi ROps eps true false mt m iv a b = spike_sync_bi ROps eps false false mt m iv a b.
Proof. exact sync_backends_agree. Qed.
Print Assumptions C05_backends_agree_sync.

Example C05_nonvacuous : vtrain 0 1 ([1], 0, 1) /\ vtrain 0 1 ([], 0, 1) /\ vtrain 0 1 ([0; 1/2], 0, 1).
Proof. unfold vtrain; cbn [tr_spikes tr_start tr_end fst snd]; repeat split; try lra; valid_tac. Qed.
