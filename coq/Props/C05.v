(* Props/C05.v — every scalar measure equals the average of its profile over the same interval.
   Only statements, `exact`, Print Assumptions and non-vacuity examples. *)
From Coq Require Import List Bool Arith Reals Lra Sorted.
Import ListNotations.
From PS Require Import Num RLemmas Valid ModelKernels ModelFuncs ModelAPI Spec SyncDefs Lem_IsiProps Lem_Spike Lem_Sync Lem_API.
From PS Require Import Lem_WF Lem_API2 Lem_API3 Lem_API4 Lem_API5 Lem_API7 Lem_API9.
From PS Require Lem_OrderSpec.
Require Import PS.Props.PropTac.
Local Open Scope R_scope.

(* ISI-distance = time average of the ISI profile: both backends (cy = compiled kernels importable:
   the separately written single-pass routine), whole recording and every sub-interval *)
Theorem C05_isi : forall eps cy m iv a b ts te, vtrain ts te a -> vtrain ts te b ->
  isi_distance_bi ROps eps cy false m iv a b = pwc_avrg ROps (isi_profile_bi ROps eps cy false m a b) (iv_of iv).
Proof. exact isi_distance_is_profile_average. Qed.
Print Assumptions C05_isi.

(* SPIKE-distance (plain, RI, adaptive): the single-pass trapezoid accumulation of the compiled
   backend = average of the profile; the fall-back route averages the profile by construction *)
Theorem C05_spike_single_pass : forall t1 t2 ts te m ri, valid ts te t1 -> valid ts te t2 -> t1 <> [] -> t2 <> [] ->
  Ok (spike_distance_cy ROps t1 t2 ts te m ri) = pwl_avrg ROps (spike_profile_cy ROps t1 t2 ts te m ri) (@IvNone R).
Proof. exact spike_distance_cy_avrg. Qed.
Print Assumptions C05_spike_single_pass.
Theorem C05_spike_fallback_route : forall eps m ri iv a b,
  spike_distance_bi ROps eps false false m ri iv a b = pwl_avrg ROps (spike_profile_bi ROps eps false false m ri a b) (iv_of iv).
Proof. intros; destruct iv; reflexivity. Qed.
Print Assumptions C05_spike_fallback_route.

(* SPIKE-Sync = summed profile values / summed multiplicities of the events strictly inside the
   interval, both backends; 1 by convention when no spike falls into the averaging interval *)
Theorem C05_sync_sums : forall eps cy mt m iv a b ts te, vtrain ts te a -> vtrain ts te b ->
  spike_sync_values ROps eps cy mt m iv a b = df_integral ROps (spike_sync_profile_bi ROps eps cy false mt m a b) (iv_of iv).
Proof. exact sync_values_are_profile_sums. Qed.
Print Assumptions C05_sync_sums.
Theorem C05_sync_ratio_and_convention : forall eps cy mt m iv a b ts te, vtrain ts te a -> vtrain ts te b ->
  spike_sync_bi ROps eps cy false mt m iv a b =
  rmap (fun cm => if Reqb (snd cm) 0 then 1 else fst cm / snd cm)
       (df_integral ROps (spike_sync_profile_bi ROps eps cy false mt m a b) (iv_of iv)).
Proof. exact sync_value_convention. Qed.
Print Assumptions C05_sync_ratio_and_convention.

(* spike-train order: the pooled (value sum, multiplicity sum), both backends *)
Theorem C05_order_sums : forall eps cy mt m a b ts te, 0 < eps -> vtrain ts te a -> vtrain ts te b ->
  order_impl ROps eps cy mt m a b =
  rbind (order_profile_bi ROps eps cy true mt m a b) (fun p => df_integral ROps p (@IvNone R)).
Proof. exact order_is_profile_sums. Qed.
Print Assumptions C05_order_sums.

(* the two backends return the same scalars *)
Theorem C05_backends_agree_isi : forall eps m iv a b ts te, vtrain ts te a -> vtrain ts te b ->
  isi_distance_bi ROps eps true false m iv a b = isi_distance_bi ROps eps false false m iv a b /\
  isi_profile_bi ROps eps true false m a b = isi_profile_bi ROps eps false false m a b.
Proof. exact isi_backends_agree. Qed.
Print Assumptions C05_backends_agree_isi.
Theorem C05_backends_agree_sync : forall eps mt m iv a b ts te, vtrain ts te a -> vtrain ts te b ->
  spike_sync_profile_bi ROps eps true false mt m a b = spike_sync_profile_bi ROps eps false false mt m a b /\
  spike_sync_values ROps eps true mt m iv a b = spike_sync_values ROps eps false mt m iv a b /\
  spike_sync_bi ROps eps true false mt m iv a b = spike_sync_bi ROps eps false false mt m iv a b.
Proof. exact sync_backends_agree. Qed.
Print Assumptions C05_backends_agree_sync.

From PS Require Lem_MultiAPI2.
Import Lem_MultiAPI2.
(* multivariate SPIKE distance = average of the multivariate SPIKE profile, whole recording and every sub-interval, both backends *)
Theorem C05_multi_spike_is_profile_average : forall (eps : R) (cy : bool) (m : R) (ri : bool) (iv : option (R * R)) (l : list train) (ts te : R), (2 <= length l)%nat -> Forall (wtrain ts te) l -> iv_ok ts te iv -> exists P : pwl, spike_profile_multi ROps eps cy false m ri l None = Ok P /\ spike_distance_multi ROps eps cy false m ri iv l None = pwl_avrg ROps P (iv_of iv).
Proof. exact spike_multi_distance_is_profile_average. Qed.
Print Assumptions C05_multi_spike_is_profile_average.
(* multivariate SPIKE-Sync = summed values / summed multiplicities of the multivariate profile's events strictly inside the interval (1 if none) *)
Theorem C05_multi_sync_is_profile_ratio : forall (eps : R) (cy : bool) (mt m : R) (iv : option (R * R)) (l : list train) (ts te : R), (2 <= length l)%nat -> Forall (wtrain ts te) l -> iv_ok ts te iv -> exists P : list dentry, spike_sync_profile_multi ROps eps cy false mt m l None = Ok P /\ spike_sync_multi ROps eps cy false mt m iv l None = rmap (fun cm : R * R => if Reqb (snd cm) 0 then 1 else fst cm / snd cm) (df_integral ROps P (iv_of iv)).
Proof. exact sync_multi_value_is_profile_ratio. Qed.
Print Assumptions C05_multi_sync_is_profile_ratio.

(* ---- from Lem_API9.v ---- *)
Theorem C05_isi_multi_distance_is_profile_average_idx : forall eps cy m iv l idx ts te,
  idx_ok (length l) idx -> (2 <= msize l idx)%nat -> Forall (wtrain ts te) l -> iv_ok ts te iv ->
  exists P, isi_profile_multi ROps eps cy false m l idx = Ok P /\
    isi_distance_multi ROps eps cy false m iv l idx = pwc_avrg ROps P (iv_of iv).
Proof. exact isi_multi_distance_is_profile_average_idx. Qed.
Print Assumptions C05_isi_multi_distance_is_profile_average_idx.
Theorem C05_spike_multi_distance_is_profile_average_idx : forall eps cy m ri iv l idx ts te,
  idx_ok (length l) idx -> (2 <= msize l idx)%nat -> Forall (wtrain ts te) l -> iv_ok ts te iv ->
  exists P, spike_profile_multi ROps eps cy false m ri l idx = Ok P /\
    spike_distance_multi ROps eps cy false m ri iv l idx = pwl_avrg ROps P (iv_of iv).
Proof. exact spike_multi_distance_is_profile_average_idx. Qed.
Print Assumptions C05_spike_multi_distance_is_profile_average_idx.
Theorem C05_sync_multi_value_is_profile_ratio_idx : forall eps cy mt m iv l idx ts te,
  idx_ok (length l) idx -> (2 <= msize l idx)%nat -> Forall (wtrain ts te) l -> iv_ok ts te iv ->
  exists P, spike_sync_profile_multi ROps eps cy false mt m l idx = Ok P /\
    spike_sync_multi ROps eps cy false mt m iv l idx
    = rmap (fun cm => if Reqb (snd cm) 0 then 1 else fst cm / snd cm)
           (df_integral ROps P (iv_of iv)).
Proof. exact sync_multi_value_is_profile_ratio_idx. Qed.
Print Assumptions C05_sync_multi_value_is_profile_ratio_idx.
Theorem C05_order_multi_is_profile_sums_idx : forall eps cy nz mt m l idx ts te,
  cy = true \/ 0 < eps ->
  idx_ok (length l) idx -> (2 <= msize l idx)%nat -> Forall (wtrain ts te) l ->
  exists P, order_profile_multi ROps eps cy false mt m l idx = Ok P /\
    spike_train_order_multi ROps eps cy false nz mt m l idx
    = rmap (fun cm => if nz then (if Reqb (snd cm) 0 then 1 else fst cm / snd cm) else fst cm)
           (df_integral ROps P (@IvNone R)).
Proof. exact order_multi_is_profile_sums_idx. Qed.
Print Assumptions C05_order_multi_is_profile_sums_idx.

Example C05_nonvacuous : vtrain 0 1 ([1], 0, 1) /\ vtrain 0 1 ([], 0, 1) /\ vtrain 0 1 ([0; 1/2], 0, 1).
Proof. unfold vtrain; cbn [tr_spikes tr_start tr_end fst snd]; repeat split; try lra; valid_tac. Qed.

(* ---- executed instance (Q, extracted to OCaml and run against /repo) = the real-number functions
   the theorems above are about: kernel-checked parametricity bridge (Bridge.v).  qL = map Q2R etc. ---- *)
From Coq Require Import QArith Qreals.
From PS Require Import Bridge.
Local Close Scope Q_scope.
Theorem C05_exec_isi_distance_bi_transfer : forall (eps : Q) (cy rc : bool) (m : Q) (iv : option (Q * Q)) (a b : train), rmap Q2R (isi_distance_bi QOps eps cy rc m iv a b) = isi_distance_bi ROps (Q2R eps) cy rc (Q2R m) (qIv iv) (qTrain a) (qTrain b).
Proof. exact isi_distance_bi_transfer. Qed.
Print Assumptions C05_exec_isi_distance_bi_transfer.
Theorem C05_exec_spike_distance_bi_transfer : forall (eps : Q) (cy rc : bool) (m : Q) (ri : bool) (iv : option (Q * Q)) (a b : train), rmap Q2R (spike_distance_bi QOps eps cy rc m ri iv a b) = spike_distance_bi ROps (Q2R eps) cy rc (Q2R m) ri (qIv iv) (qTrain a) (qTrain b).
Proof. exact spike_distance_bi_transfer. Qed.
Print Assumptions C05_exec_spike_distance_bi_transfer.
Theorem C05_exec_spike_sync_bi_transfer : forall (eps : Q) (cy rc : bool) (mt m : Q) (iv : option (Q * Q)) (a b : train), rmap Q2R (spike_sync_bi QOps eps cy rc mt m iv a b) = spike_sync_bi ROps (Q2R eps) cy rc (Q2R mt) (Q2R m) (qIv iv) (qTrain a) (qTrain b).
Proof. exact spike_sync_bi_transfer. Qed.
Print Assumptions C05_exec_spike_sync_bi_transfer.
Theorem C05_exec_order_impl_transfer : forall (eps : Q) (cy : bool) (mt m : Q) (a b : train), rmap q2 (order_impl QOps eps cy mt m a b) = order_impl ROps (Q2R eps) cy (Q2R mt) (Q2R m) (qTrain a) (qTrain b).
Proof. exact order_impl_transfer. Qed.
Print Assumptions C05_exec_order_impl_transfer.
Theorem C05_exec_isi_distance_cy_transfer : forall (s1 s2 : list Q) (ts te m : Q), Q2R (isi_distance_cy QOps s1 s2 ts te m) = isi_distance_cy ROps (qL s1) (qL s2) (Q2R ts) (Q2R te) (Q2R m).
Proof. exact isi_distance_cy_transfer. Qed.
Print Assumptions C05_exec_isi_distance_cy_transfer.
Theorem C05_exec_spike_distance_cy_transfer : forall (t1 t2 : list Q) (ts te m : Q) (ri : bool), Q2R (spike_distance_cy QOps t1 t2 ts te m ri) = spike_distance_cy ROps (qL t1) (qL t2) (Q2R ts) (Q2R te) (Q2R m) ri.
Proof. exact spike_distance_cy_transfer. Qed.
Print Assumptions C05_exec_spike_distance_cy_transfer.
