(* Props/C03.v — the SPIKE-Sync profile marks exactly the mutually coincident spikes.
   Only statements, `exact`, Print Assumptions and non-vacuity examples. *)
From Coq Require Import List Bool Arith Reals Lra Sorted.
Import ListNotations.
From PS Require Import Num RLemmas Valid ModelKernels ModelFuncs ModelAPI Spec SyncDefs Lem_Tau Lem_Sync.
Require Import PS.Props.PropTac.
Local Open Scope R_scope.

(* FULL STATEMENT: for all valid trains, every max_tau and every MRTS the merged scan with its
   look-back write (only neighbouring events are ever compared) returns exactly the pairwise,
   global definition [sync_spec]: one entry per distinct spike time (value 2, multiplicity 2 at
   shared times), a spike marked 1 iff SOME spike of the other train, at a different time, is
   strictly closer than the window [tau_spec] of the two spikes; framed by the two edge entries. *)
Theorem C03_sync_profile_is_pairwise_definition : forall s1 s2 ts te mt m,
  valid ts te s1 -> valid ts te s2 ->
  coincidence_profile_gen ROps (get_tau ROps) s1 s2 ts te mt m = sync_spec ROps s1 s2 ts te mt m.
Proof. exact sync_profile_spec. Qed.
Print Assumptions C03_sync_profile_is_pairwise_definition.

(* the same for the text of the Cython window routine *)
Theorem C03_sync_profile_cython_window : forall c1 c2 lim m,
  get_tau_cy ROps c1 c2 lim m = get_tau ROps c1 c2 lim m.
Proof. exact get_tau_cy_eq. Qed.
Print Assumptions C03_sync_profile_cython_window.

(* the window: half of the smallest adjacent inter-spike interval, a missing neighbour counting
   as lim (MRTS = 0); with MRTS > 0 the thresholded interpolation; stated symmetrically *)
Theorem C03_window_is_definition : forall c1 c2 lim m,
  get_tau ROps (Some c1) (Some c2) lim m = tau_spec ROps lim m c1 c2.
Proof. exact get_tau_spec. Qed.
Print Assumptions C03_window_is_definition.
Theorem C03_window_plain : forall a b, 0 < a -> 0 < b -> interp ROps a b 0 = Rmin a b.
Proof. exact interp_zero. Qed.
Print Assumptions C03_window_plain.

(* exact ties are not coincident: the comparison is strict *)
Theorem C03_ties_not_coincident : forall lim m c1 c2,
  Rabs (c_cur c1 - c_cur c2) = tau_spec ROps lim m c1 c2 -> coinc ROps lim m c1 c2 = false.
Proof.
  intros lim m c1 c2 H. apply Bool.not_true_is_false. rewrite coinc_true. intros [_ H1]. lra.
Qed.
Print Assumptions C03_ties_not_coincident.

(* coincidence is mutual ... *)
Theorem C03_mutual : forall lim m c1 c2, coinc ROps lim m c1 c2 = coinc ROps lim m c2 c1.
Proof. exact coinc_sym. Qed.
Print Assumptions C03_mutual.
(* ... and one-to-one ... *)
Theorem C03_one_to_one : forall s1 s2 ts te mt m c d d',
  valid ts te s1 -> valid ts te s2 -> In c (contexts s1) -> In d (contexts s2) -> In d' (contexts s2) ->
  coinc ROps (lim_of ROps ts te mt) m c d = true -> coinc ROps (lim_of ROps ts te mt) m c d' = true -> d = d'.
Proof. exact one_to_one. Qed.
Print Assumptions C03_one_to_one.
(* ... coincident spikes are neighbours in the merged sequence ... *)
Theorem C03_adjacent : forall lim m c1 c2, ctx_pos c1 -> ctx_pos c2 -> c_cur c2 < c_cur c1 ->
  c_cur c1 - c_cur c2 < tau_spec ROps lim m c1 c2 ->
  (forall p, c_prev c1 = Some p -> p < c_cur c2) /\ (forall n, c_next c2 = Some n -> c_cur c1 < n).
Proof. exact adjacent. Qed.
Print Assumptions C03_adjacent.
(* ... so both trains contribute the same number of coincident spikes *)
Theorem C03_balanced : forall s1 s2 ts te mt m, valid ts te s1 -> valid ts te s2 ->
  sumF ROps (single_spec ROps s1 s2 ts te mt m) = sumF ROps (single_spec ROps s2 s1 ts te mt m).
Proof. exact sync_balanced. Qed.
Print Assumptions C03_balanced.

(* the independent per-spike scan used by the filter agrees with the pairwise definition
   (value 1 also where both trains spike together) *)
Theorem C03_per_spike_indicator : forall s1 s2 ts te mt m, valid ts te s1 -> valid ts te s2 ->
  coincidence_single_gen ROps (get_tau ROps) s1 s2 ts te mt m = single_spec ROps s1 s2 ts te mt m.
Proof. exact single_profile_spec. Qed.
Print Assumptions C03_per_spike_indicator.

(* the look-back write always hits an unmarked multiplicity-1 entry of the other train *)
Theorem C03_scan_clean : forall s1 s2 ts te mt m, valid ts te s1 -> valid ts te s2 ->
  clean_from None (coinc_scan ROps (tau_fn ROps (get_tau ROps) ts te mt m) s1 s2) = true.
Proof. exact scan_clean. Qed.
Print Assumptions C03_scan_clean.

Example C03_nonvacuous : valid 0 1 [0; 1/8; 1/2] /\ valid 0 1 [1/8; 3/8; 1] /\ valid 0 1 [].
Proof. repeat split; try lra; valid_tac. Qed.

(* ---- executed instance (Q, extracted to OCaml and run against /repo) = the real-number functions
   the theorems above are about: kernel-checked parametricity bridge (Bridge.v).  qL = map Q2R etc. ---- *)
From Coq Require Import QArith Qreals.
From PS Require Import Bridge.
Local Close Scope Q_scope.
Theorem C03_exec_sync_kernel_transfer : forall (s1 s2 : list Q) (ts te mt mrts : Q), map q3 (sync_kernel QOps s1 s2 ts te mt mrts) = sync_kernel ROps (qL s1) (qL s2) (Q2R ts) (Q2R te) (Q2R mt) (Q2R mrts).
Proof. exact sync_kernel_transfer. Qed.
Print Assumptions C03_exec_sync_kernel_transfer.
Theorem C03_exec_sync_kernel_cy_transfer : forall (s1 s2 : list Q) (ts te mt mrts : Q), map q3 (sync_kernel_cy QOps s1 s2 ts te mt mrts) = sync_kernel_cy ROps (qL s1) (qL s2) (Q2R ts) (Q2R te) (Q2R mt) (Q2R mrts).
Proof. exact sync_kernel_cy_transfer. Qed.
Print Assumptions C03_exec_sync_kernel_cy_transfer.
Theorem C03_exec_single_kernel_transfer : forall (s1 s2 : list Q) (ts te mt mrts : Q), qL (single_kernel QOps s1 s2 ts te mt mrts) = single_kernel ROps (qL s1) (qL s2) (Q2R ts) (Q2R te) (Q2R mt) (Q2R mrts).
Proof. exact single_kernel_transfer. Qed.
Print Assumptions C03_exec_single_kernel_transfer.
Theorem C03_exec_sync_spec_transfer : forall (s1 s2 : list Q) (ts te mt mrts : Q), map q3 (sync_spec QOps s1 s2 ts te mt mrts) = sync_spec ROps (qL s1) (qL s2) (Q2R ts) (Q2R te) (Q2R mt) (Q2R mrts).
Proof. exact sync_spec_transfer. Qed.
Print Assumptions C03_exec_sync_spec_transfer.
Theorem C03_exec_single_spec_transfer : forall (s1 s2 : list Q) (ts te mt mrts : Q), qL (single_spec QOps s1 s2 ts te mt mrts) = single_spec ROps (qL s1) (qL s2) (Q2R ts) (Q2R te) (Q2R mt) (Q2R mrts).
Proof. exact single_spec_transfer. Qed.
Print Assumptions C03_exec_single_spec_transfer.
