(* Props/C16.v — max_tau is an upper bound on the coincidence window.
   Only statements, `exact`, Print Assumptions and non-vacuity examples. *)
From Coq Require Import List Bool Reals Lra.
Import ListNotations.
From PS Require Import Num RLemmas Valid ModelKernels Spec Lem_Tau.
Require Import PS.Props.PropTac.
Local Open Scope R_scope.

(* the window routine of the code (Python and Cython text), for ANY two cursor
   contexts (missing neighbours included), never exceeds max_tau when max_tau > 0:
   every comparison `distance < tau` made by the sync / order / directionality /
   filter scans is therefore a comparison with something <= max_tau *)
Theorem C16_window_py : forall ts te mt m c1 c2, 0 < mt ->
  get_tau ROps c1 c2 (true_max ROps ts te mt) m <= mt.
Proof.
  intros. pose proof (get_tau_le_half c1 c2 (true_max ROps ts te mt) m).
  rewrite true_max_eq_lim_of in *. pose proof (lim_of_le_2mt ts te mt H). lra.
Qed.
Print Assumptions C16_window_py.

Theorem C16_window_cy : forall ts te mt m c1 c2, 0 < mt ->
  get_tau_cy ROps c1 c2 (true_max ROps ts te mt) m <= mt.
Proof. intros. rewrite get_tau_cy_eq. apply C16_window_py; assumption. Qed.
Print Assumptions C16_window_cy.

(* pairwise definition: two spikes max_tau or more apart are never coincident *)
Theorem C16_bound : forall ts te mt m c1 c2, 0 < mt ->
  coinc ROps (lim_of ROps ts te mt) m c1 c2 = true -> Rabs (c_cur c1 - c_cur c2) < mt.
Proof. exact Lem_Tau.C16_bound. Qed.
Print Assumptions C16_bound.

(* enlarging max_tau never removes a coincidence; no bound (0) removes none either *)
Theorem C16_mono : forall ts te mt mt' m c1 c2, ts < te -> 0 < mt -> mt <= mt' ->
  coinc ROps (lim_of ROps ts te mt) m c1 c2 = true -> coinc ROps (lim_of ROps ts te mt') m c1 c2 = true.
Proof. exact Lem_Tau.C16_mono. Qed.
Print Assumptions C16_mono.

Theorem C16_unbounded_keeps : forall ts te mt m c1 c2, ts < te -> 0 < mt ->
  coinc ROps (lim_of ROps ts te mt) m c1 c2 = true -> coinc ROps (lim_of ROps ts te 0) m c1 c2 = true.
Proof. exact Lem_Tau.C16_none. Qed.
Print Assumptions C16_unbounded_keeps.

(* the code's window is the pairwise window of the definition *)
Theorem C16_window_is_spec : forall c1 c2 lim m,
  get_tau ROps (Some c1) (Some c2) lim m = tau_spec ROps lim m c1 c2.
Proof. exact get_tau_spec. Qed.
Print Assumptions C16_window_is_spec.

(* non-vacuity: a concrete pair that is coincident under the bound 8 and excluded by the bound 3
   (the input of the defect repaired by fix commit 0986aa4) *)
Example C16_nonvacuous :
  coinc ROps (lim_of ROps 0 100 8) 0 (mkCtx (Some 10) 50 (Some 90)) (mkCtx (Some 15) 55 (Some 95)) = true /\
  coinc ROps (lim_of ROps 0 100 3) 0 (mkCtx (Some 10) 50 (Some 90)) (mkCtx (Some 15) 55 (Some 95)) = false.
Proof.
  split; [apply coinc_true | apply Bool.not_true_is_false; rewrite coinc_true; intros [_ H]; revert H];
  rewrite tau_spec_R, lim_of_R; unfold tau_el; rewrite !interp_R; unfold gapP, gapF; cbn [c_cur c_prev c_next];
  [split; [lra|]|]; rdecide.
Qed.

(* ---- executed instance (Q, extracted to OCaml and run against /repo) = the real-number functions
   the theorems above are about: kernel-checked parametricity bridge (Bridge.v).  qL = map Q2R etc. ---- *)
From Coq Require Import QArith Qreals.
From PS Require Import Bridge.
Local Close Scope Q_scope.
Theorem C16_exec_get_tau_transfer : forall (c1 c2 : option ctx) (lim mrts : Q), Q2R (get_tau QOps c1 c2 lim mrts) = get_tau ROps (qCtx c1) (qCtx c2) (Q2R lim) (Q2R mrts).
Proof. exact get_tau_transfer. Qed.
Print Assumptions C16_exec_get_tau_transfer.
Theorem C16_exec_get_tau_cy_transfer : forall (c1 c2 : option ctx) (lim mrts : Q), Q2R (get_tau_cy QOps c1 c2 lim mrts) = get_tau_cy ROps (qCtx c1) (qCtx c2) (Q2R lim) (Q2R mrts).
Proof. exact get_tau_cy_transfer. Qed.
Print Assumptions C16_exec_get_tau_cy_transfer.
Theorem C16_exec_true_max_transfer : forall ts te mt : Q, Q2R (true_max QOps ts te mt) = true_max ROps (Q2R ts) (Q2R te) (Q2R mt).
Proof. exact true_max_transfer. Qed.
Print Assumptions C16_exec_true_max_transfer.
Theorem C16_exec_coinc_transfer : forall (lim mrts : Q) (c1 c2 : ctx), coinc QOps lim mrts c1 c2 = coinc ROps (Q2R lim) (Q2R mrts) (ctxmap Q2R c1) (ctxmap Q2R c2).
Proof. exact coinc_transfer. Qed.
Print Assumptions C16_exec_coinc_transfer.
Theorem C16_exec_tau_spec_transfer : forall (lim mrts : Q) (c1 c2 : ctx), Q2R (tau_spec QOps lim mrts c1 c2) = tau_spec ROps (Q2R lim) (Q2R mrts) (ctxmap Q2R c1) (ctxmap Q2R c2).
Proof. exact tau_spec_transfer. Qed.
Print Assumptions C16_exec_tau_spec_transfer.
