(* Lem_IO.v — framing of the text format (C19), time-series import and edge
   parsing (C19), PSTH bins and Poisson generator (C20). *)
From Coq Require Import List Bool Arith ZArith QArith Reals Lra Lia Sorted Permutation.
Import ListNotations.
From PS Require Import Num RLemmas Valid ModelFuncs ModelAPI ModelIO.
Close Scope Q_scope.

(* ------------------------------------------------------------------ *)
(* executable checks *)

(* "1.5, 2" *)
Eval vm_compute in (join [44;32] [[49;46;53];[50]]).
Eval vm_compute in (split [44;32] (join [44;32] [[49;46;53];[50]])).
Eval vm_compute in (split [44;32] [49;44;32;44;32;50;44;51;44;32]).   (* "1, , 2,3, " *)
Eval vm_compute in (split [32] [49;32;50;32;32;51]).
Eval vm_compute in (split [] [49;32], split [32] []).
Eval vm_compute in
  (load_lines [44;32] [35] false
     (save_lines [44;32] [[[49;46;53];[50]]; []; [[55]]] ++ [[35;32;104;105]])).
Eval vm_compute in
  (load_lines [44;32] [35] true
     (save_lines [44;32] [[[49;46;53];[50]]; []; [[55]]] ++ [[35;32;104;105]])).
Eval vm_compute in (psth_edges QOps (0#1)%Q (2#1)%Q 4).
Eval vm_compute in (psth_counts QOps (0#1)%Q (2#1)%Q 4 [1#4; 1#2; 2#1; 3#1]%Q).
Eval vm_compute in (poisson_spikes QOps (1#1)%Q (3#1)%Q [1#2; 1#2; 3#4; 1#2; 1#8]%Q).
Eval vm_compute in (time_series_row QOps (1#1)%Q (1#2)%Q [true;false;true;true]).

Goal split [44;32] (join [44;32] [[49;46;53];[50]]) = [[49;46;53];[50]].
Proof. reflexivity. Qed.
Goal load_lines [44;32] [35] false
       (save_lines [44;32] [[[49;46;53];[50]]; []; [[55]]] ++ [[35;32;104;105]])
     = [[[49;46;53];[50]]; []; [[55]]].
Proof. reflexivity. Qed.

(* ================================================================== *)
(* Framing (C19)                                                       *)

Definition clean (sep tok : list nat) : Prop :=
  tok <> [] /\ forall c, In c tok -> ~ In c sep.

Lemma starts_with_app p r : starts_with p (p ++ r) = true.
Proof. induction p as [|a p IH]; cbn; auto. rewrite Nat.eqb_refl; auto. Qed.

Lemma starts_with_head_neq a p c s : a <> c -> starts_with (a :: p) (c :: s) = false.
Proof. intros H; cbn. apply Nat.eqb_neq in H. rewrite H. reflexivity. Qed.

Lemma starts_with_notin sep c s : ~ In c sep -> sep <> [] -> starts_with sep (c :: s) = false.
Proof.
  destruct sep as [|a p]; [congruence|]. intros H _.
  apply starts_with_head_neq. intros ->. apply H; left; reflexivity.
Qed.

(* scanning over a token that contains no separator character *)
Lemma split_go_tok sep tok : sep <> [] -> (forall c, In c tok -> ~ In c sep) ->
  forall cur rest, split_go sep 0 cur (tok ++ rest) = split_go sep 0 (rev tok ++ cur) rest.
Proof.
  intros Hs. induction tok as [|c tok IH]; intros Hc cur rest.
  - reflexivity.
  - cbn [app split_go]. rewrite starts_with_notin; auto.
    2:{ apply Hc; left; reflexivity. }
    rewrite IH. 2:{ intros d Hd; apply Hc; right; exact Hd. }
    cbn [rev]. rewrite <- app_assoc. reflexivity.
Qed.

(* dropping the remaining characters of a separator occurrence *)
Lemma split_go_skip sep l : forall cur rest,
  split_go sep (length l) cur (l ++ rest) = split_go sep 0 cur rest.
Proof. induction l as [|c l IH]; intros; cbn [length app split_go]; auto. Qed.

Lemma split_go_sep sep cur rest : sep <> [] ->
  split_go sep 0 cur (sep ++ rest) = rev cur :: split_go sep 0 [] rest.
Proof.
  intros Hs. destruct sep as [|a p]; [congruence|].
  change ((a :: p) ++ rest) with (a :: (p ++ rest)).
  cbn [split_go]. change (a :: p ++ rest) with ((a :: p) ++ rest).
  rewrite starts_with_app. f_equal.
  cbn [length]. rewrite Nat.sub_succ, Nat.sub_0_r. apply split_go_skip.
Qed.

Lemma split_go_join sep toks : sep <> [] -> toks <> [] -> Forall (clean sep) toks ->
  split_go sep 0 [] (join sep toks) = toks.
Proof.
  intros Hs. induction toks as [|t r IH]; [congruence|]. intros _ Hc.
  inversion Hc as [|? ? [Ht1 Ht2] Hr]; subst.
  destruct r as [|t' r'].
  - cbn [join]. rewrite <- (app_nil_r t) at 1. rewrite split_go_tok; auto.
    cbn [split_go]. rewrite app_nil_r, rev_involutive. reflexivity.
  - change (join sep (t :: t' :: r')) with (t ++ sep ++ join sep (t' :: r')).
    rewrite split_go_tok; auto. rewrite split_go_sep; auto.
    rewrite app_nil_r, rev_involutive. f_equal. apply IH; [congruence|exact Hr].
Qed.

Theorem join_nonempty sep toks : toks <> [] -> Forall (clean sep) toks -> join sep toks <> [].
Proof.
  destruct toks as [|t r]; [congruence|]. intros _ Hc.
  inversion Hc as [|? ? [Ht1 Ht2] Hr]; subst.
  destruct r; cbn [join]; [exact Ht1|].
  destruct t; [congruence|]. discriminate.
Qed.

Theorem split_join sep toks : sep <> [] -> Forall (clean sep) toks ->
  split sep (join sep toks) = toks.
Proof.
  intros Hs Hc. destruct toks as [|t r]; [reflexivity|].
  assert (Hne : join sep (t :: r) <> []) by (apply join_nonempty; [congruence|exact Hc]).
  unfold split. destruct (join sep (t :: r)) as [|c s] eqn:E; [congruence|].
  destruct sep as [|a p]; [congruence|].
  rewrite <- E. apply split_go_join; [congruence|congruence|exact Hc].
Qed.

(* ------------------------------------------------------------------ *)
(* load / save *)

Lemma load_app sep comment ie l1 l2 :
  load_lines sep comment ie (l1 ++ l2)
  = load_lines sep comment ie l1 ++ load_lines sep comment ie l2.
Proof. unfold load_lines. apply flat_map_app. Qed.

Theorem load_skips_comments sep comment ie l1 l2 c :
  starts_with comment c = true ->
  load_lines sep comment ie (l1 ++ c :: l2) = load_lines sep comment ie (l1 ++ l2).
Proof.
  intros Hc. rewrite !load_app. f_equal.
  unfold load_lines. cbn [flat_map]. unfold load_line at 1. rewrite Hc. reflexivity.
Qed.

Lemma load_line_saved sep comment ie t :
  sep <> [] -> comment <> [] -> Forall (clean sep) t ->
  (t <> [] -> starts_with comment (join sep t) = false) ->
  load_line sep comment ie (join sep t)
  = if is_empty t then (if ie then [] else [[]]) else [t].
Proof.
  intros Hs Hcm Hc Hst. unfold load_line. destruct t as [|tok r].
  - cbn [join is_empty]. destruct comment; [congruence|]. reflexivity.
  - rewrite Hst by congruence.
    assert (Hne : join sep (tok :: r) <> []) by (apply join_nonempty; [congruence|exact Hc]).
    rewrite split_join by assumption.
    destruct (join sep (tok :: r)); [congruence|]. reflexivity.
Qed.

Theorem load_save_roundtrip sep comment trains :
  sep <> [] -> comment <> [] ->
  (forall t, In t trains -> Forall (clean sep) t) ->
  (forall t, In t trains -> t <> [] -> starts_with comment (join sep t) = false) ->
  load_lines sep comment false (save_lines sep trains) = trains.
Proof.
  intros Hs Hcm. unfold load_lines, save_lines.
  induction trains as [|t r IH]; intros Hc Hst; [reflexivity|].
  cbn [map flat_map]. rewrite load_line_saved; auto.
  2:{ apply Hc; left; reflexivity. }
  2:{ apply Hst; left; reflexivity. }
  rewrite IH.
  - destruct t; reflexivity.
  - intros; apply Hc; right; assumption.
  - intros; apply Hst; [right|]; assumption.
Qed.

Theorem load_save_ignore_empty sep comment trains :
  sep <> [] -> comment <> [] ->
  (forall t, In t trains -> Forall (clean sep) t) ->
  (forall t, In t trains -> t <> [] -> starts_with comment (join sep t) = false) ->
  load_lines sep comment true (save_lines sep trains)
  = filter (fun t => negb (is_empty t)) trains.
Proof.
  intros Hs Hcm. unfold load_lines, save_lines.
  induction trains as [|t r IH]; intros Hc Hst; [reflexivity|].
  cbn [map flat_map filter]. rewrite load_line_saved; auto.
  2:{ apply Hc; left; reflexivity. }
  2:{ apply Hst; left; reflexivity. }
  rewrite IH.
  - destruct t; reflexivity.
  - intros; apply Hc; right; assumption.
  - intros; apply Hst; [right|]; assumption.
Qed.

(* the hypotheses are needed (executable counterexamples) *)
(* a token containing the separator is split in two *)
Goal load_lines [32] [35] false (save_lines [32] [[[49;32;50]]]) = [[[49];[50]]].
Proof. reflexivity. Qed.
(* a train whose only token is empty comes back as the empty train *)
Goal load_lines [32] [35] false (save_lines [32] [[[]]]) = [[]].
Proof. reflexivity. Qed.
(* a train whose first token starts with the comment string is dropped *)
Goal load_lines [32] [35] false (save_lines [32] [[[35;49]]; [[50]]]) = [[[50]]].
Proof. reflexivity. Qed.
(* with the empty comment string every line is a comment *)
Goal load_lines [32] [] false (save_lines [32] [[[49]]; [[50]]]) = [].
Proof. reflexivity. Qed.

(* the simple sufficient condition: the first character of the comment string
   occurs in no token *)
Lemma comment_char_sufficient sep comment (trains : list (list (list nat))) :
  comment <> [] ->
  (forall t tok, In t trains -> In tok t -> ~ In (hd O comment) tok) ->
  (forall t, In t trains -> Forall (clean sep) t) ->
  forall t, In t trains -> t <> [] -> starts_with comment (join sep t) = false.
Proof.
  intros Hcm Hch Hc t Ht Hne. destruct comment as [|a p]; [congruence|].
  destruct t as [|tok r]; [congruence|].
  specialize (Hc _ Ht). inversion Hc as [|? ? [Hk _] _]; subst.
  destruct tok as [|c tok]; [congruence|].
  assert (Hac : a <> c).
  { intros ->. apply (Hch _ (c :: tok) Ht); [left; reflexivity|]. cbn [hd]. left; reflexivity. }
  destruct r; cbn [join app]; apply starts_with_head_neq; exact Hac.
Qed.

Corollary load_save_roundtrip' sep comment trains :
  sep <> [] -> comment <> [] ->
  (forall t, In t trains -> Forall (clean sep) t) ->
  (forall t tok, In t trains -> In tok t -> ~ In (hd O comment) tok) ->
  load_lines sep comment false (save_lines sep trains) = trains.
Proof.
  intros Hs Hcm Hc Hch. apply load_save_roundtrip; auto.
  apply comment_char_sufficient; auto.
Qed.

Corollary load_save_ignore_empty' sep comment trains :
  sep <> [] -> comment <> [] ->
  (forall t, In t trains -> Forall (clean sep) t) ->
  (forall t tok, In t trains -> In tok t -> ~ In (hd O comment) tok) ->
  load_lines sep comment true (save_lines sep trains)
  = filter (fun t => negb (is_empty t)) trains.
Proof.
  intros Hs Hcm Hc Hch. apply load_save_ignore_empty; auto.
  apply comment_char_sufficient; auto.
Qed.

Local Open Scope R_scope.

(* ================================================================== *)
(* Time series import and edges (C19)                                  *)

Lemma nofnat_INR k : nofnat ROps k = INR k.
Proof. unfold nofnat; cbn [nofZ ROps]. symmetry; apply INR_IZR_INZ. Qed.

(* indices selected by [time_series > 0], in increasing order *)
Lemma ts_indices_gen (row : list bool) : forall a,
  map fst (filter snd (combine (seq a (length row)) row))
  = filter (fun k => nth (k - a) row false) (seq a (length row)).
Proof.
  induction row as [|b row IH]; intros a; [reflexivity|].
  assert (E : filter (fun k => nth (k - a) (b :: row) false) (seq (S a) (length row))
              = filter (fun k => nth (k - S a) row false) (seq (S a) (length row))).
  { apply filter_ext_in. intros k Hk. apply in_seq in Hk.
    replace (k - a)%nat with (S (k - S a)) by lia. reflexivity. }
  cbn [length seq combine filter snd].
  rewrite Nat.sub_diag. change (nth 0 (b :: row) false) with b. rewrite E.
  destruct b; cbn [map fst]; rewrite IH; reflexivity.
Qed.

Lemma ts_indices (row : list bool) :
  map fst (filter snd (combine (seq 0 (length row)) row))
  = filter (fun k => nth k row false) (seq 0 (length row)).
Proof.
  rewrite ts_indices_gen. apply filter_ext. intros k. rewrite Nat.sub_0_r. reflexivity.
Qed.

Theorem time_series_row_spec start bin row : row <> [] ->
  time_series_row ROps start bin row
  = (map (fun k => start + (INR k + 1) * bin)
         (filter (fun k => nth k row false) (seq 0 (length row))),
     start,
     start + INR (length row) * bin).
Proof.
  intros Hne. unfold time_series_row. rewrite ts_indices.
  f_equal; [f_equal|].
  - apply map_ext. intros k. rewrite nofnat_INR. cbn [nadd nmul ROps]. ring.
  - rewrite nofnat_INR. cbn [nadd nmul ROps].
    destruct row as [|b r]; [congruence|].
    cbn [length]. rewrite Nat.sub_succ, Nat.sub_0_r, S_INR. ring.
Qed.

(* every produced spike time lies on the grid inside (start, end] *)
Corollary time_series_row_times start bin row x : row <> [] ->
  In x (tr_spikes (time_series_row ROps start bin row)) ->
  exists k, (k < length row)%nat /\ nth k row false = true /\ x = start + INR (S k) * bin.
Proof.
  intros Hne. rewrite time_series_row_spec by exact Hne. unfold tr_spikes; cbn [fst].
  intros Hx. apply in_map_iff in Hx as (k & <- & Hk).
  apply filter_In in Hk as [Hk1 Hk2]. apply in_seq in Hk1.
  exists k. repeat split; [lia|exact Hk2|]. rewrite S_INR. reflexivity.
Qed.

Theorem edges_scalar T : edges_of ROps (inl T) = (0, T).
Proof. reflexivity. Qed.
Theorem edges_pair a b : edges_of ROps (inr (a, b)) = (a, b).
Proof. reflexivity. Qed.

(* ================================================================== *)
(* PSTH bins (C20)                                                     *)

Lemma psth_edges_nth ts te n k : (k <= n)%nat ->
  nth k (psth_edges ROps ts te n) 0 = ts + INR k * ((te - ts) / INR n).
Proof.
  intros Hk. unfold psth_edges.
  set (f := fun k0 : nat => nadd ROps ts (nmul ROps (nofnat ROps k0)
                 (ndiv ROps (nsub ROps te ts) (nofnat ROps n)))).
  rewrite (nth_indep _ 0 (f O)) by (rewrite map_length, seq_length; lia).
  rewrite map_nth. rewrite seq_nth by lia. cbn [Nat.add].
  unfold f. rewrite !nofnat_INR. reflexivity.
Qed.

Theorem psth_edges_spec ts te n : (0 < n)%nat ->
  length (psth_edges ROps ts te n) = S n
  /\ hd 0 (psth_edges ROps ts te n) = ts
  /\ last (psth_edges ROps ts te n) 0 = te
  /\ (forall k, (k < n)%nat ->
        nth (S k) (psth_edges ROps ts te n) 0 - nth k (psth_edges ROps ts te n) 0
        = (te - ts) / INR n).
Proof.
  intros Hn.
  assert (Hn' : INR n <> 0) by (apply not_0_INR; lia).
  repeat split.
  - unfold psth_edges. rewrite map_length, seq_length. reflexivity.
  - unfold psth_edges. cbn [seq map hd]. rewrite !nofnat_INR. cbn [nadd nmul nsub ndiv ROps INR]. ring.
  - unfold psth_edges. rewrite seq_S, map_app. cbn [map Nat.add]. rewrite last_last.
    rewrite !nofnat_INR. cbn [nadd nmul nsub ndiv ROps]. field. exact Hn'.
  - intros k Hk. rewrite !psth_edges_nth by lia. rewrite S_INR. field. exact Hn'.
Qed.

Lemma ssorted_map_seq (f : nat -> R) : (forall i j, (i < j)%nat -> f i < f j) ->
  forall n a, ssorted (map f (seq a n)).
Proof.
  intros Hf. induction n as [|n IH]; intros a; cbn [seq map]; [constructor|].
  apply ssorted_cons; [apply IH|].
  apply Forall_forall. intros y Hy. apply in_map_iff in Hy as (j & <- & Hj).
  apply in_seq in Hj. apply Hf. lia.
Qed.

Theorem psth_edges_sorted ts te n : ts < te -> (0 < n)%nat ->
  ssorted (psth_edges ROps ts te n).
Proof.
  intros Ht Hn. unfold psth_edges. apply ssorted_map_seq.
  intros i j Hij. rewrite !nofnat_INR. cbn [nadd nmul nsub ndiv ROps].
  assert (Hn' : 0 < INR n) by (apply lt_0_INR; exact Hn).
  assert (Hs : 0 < (te - ts) / INR n) by (apply Rdiv_lt_0_compat; lra).
  apply lt_INR in Hij. nra.
Qed.

(* ================================================================== *)
(* Poisson generator (C20)                                             *)

Lemma cumsum_spec (draws : list R) : Forall (fun d => 0 < d) draws ->
  forall acc, ssorted (cumsum ROps acc draws) /\ Forall (fun x => acc < x) (cumsum ROps acc draws).
Proof.
  induction 1 as [|d r Hd Hr IH]; intros acc; cbn [cumsum].
  - split; constructor.
  - cbn [nadd ROps]. destruct (IH (acc + d)) as [S1 F1]. split.
    + apply ssorted_cons; assumption.
    + constructor; [lra|]. eapply Forall_impl; [|exact F1]. cbn; intros; lra.
Qed.

Lemma ssorted_map_plus t0 l : ssorted l -> ssorted (map (fun c => t0 + c) l).
Proof.
  induction l as [|a l IH]; intros H; cbn [map]; [constructor|].
  apply ssorted_cons_inv in H as [H1 H2]. apply ssorted_cons; [auto|].
  apply Forall_forall. intros y Hy. apply in_map_iff in Hy as (z & <- & Hz).
  rewrite Forall_forall in H2. specialize (H2 _ Hz). lra.
Qed.

Lemma poisson_cumsums_spec t0 draws : Forall (fun d => 0 < d) draws ->
  ssorted (poisson_cumsums ROps t0 draws) /\ Forall (fun x => t0 < x) (poisson_cumsums ROps t0 draws).
Proof.
  intros Hd. destruct (cumsum_spec draws Hd 0) as [S1 F1]. unfold poisson_cumsums.
  cbn [n0 nadd ROps]. split.
  - apply ssorted_map_plus; exact S1.
  - apply Forall_forall. intros y Hy. apply in_map_iff in Hy as (z & <- & Hz).
    rewrite Forall_forall in F1. specialize (F1 _ Hz). lra.
Qed.

Lemma ssorted_filter (p : R -> bool) l : ssorted l -> ssorted (filter p l).
Proof.
  induction l as [|a l IH]; intros H; cbn [filter]; [constructor|].
  apply ssorted_cons_inv in H as [H1 H2]. destruct (p a); [|auto].
  apply ssorted_cons; [auto|]. apply Forall_forall. intros y Hy.
  apply filter_In in Hy as [Hy _]. rewrite Forall_forall in H2; auto.
Qed.

Theorem poisson_spec t0 t1 draws : Forall (fun d => 0 < d) draws ->
  let s := poisson_spikes ROps t0 t1 draws in
  ssorted s /\ Forall (fun x => t0 < x < t1) s.
Proof.
  intros Hd s. subst s. unfold poisson_spikes.
  destruct (poisson_cumsums_spec t0 draws Hd) as [S1 F1]. split.
  - apply ssorted_filter; exact S1.
  - apply Forall_forall. intros x Hx. apply filter_In in Hx as [Hx1 Hx2].
    cbn [nltb ROps] in Hx2. apply Rltb_true in Hx2.
    rewrite Forall_forall in F1. specialize (F1 _ Hx1). lra.
Qed.

(* on a strictly increasing list, keeping the elements below a bound is
   taking a prefix *)
Lemma filter_lt_prefix t1 l : ssorted l ->
  filter (fun x => Rltb x t1) l = firstn (length (filter (fun x => Rltb x t1) l)) l.
Proof.
  induction l as [|a l IH]; intros H; cbn [filter]; [reflexivity|].
  apply ssorted_cons_inv in H as [H1 H2].
  destruct (Rltb_spec a t1) as [Ha|Ha].
  - cbn [length firstn]. f_equal. apply IH; exact H1.
  - assert (E : filter (fun x => Rltb x t1) l = []).
    { clear IH H1. induction l as [|b l IHl]; [reflexivity|]. cbn [filter].
      inversion H2 as [|? ? Hb Hl]; subst.
      destruct (Rltb_spec b t1) as [Hb'|Hb']; [lra|]. apply IHl; exact Hl. }
    rewrite E. reflexivity.
Qed.

Theorem poisson_prefix t0 t1 draws : Forall (fun d => 0 < d) draws ->
  let cums := poisson_cumsums ROps t0 draws in
  let k := length (filter (fun x => Rltb x t1) cums) in
  poisson_spikes ROps t0 t1 draws = firstn k cums
  /\ (forall x, In x (skipn k cums) -> t1 <= x).
Proof.
  intros Hd cums k. subst cums k. unfold poisson_spikes. cbn [nltb ROps].
  destruct (poisson_cumsums_spec t0 draws Hd) as [S1 _].
  set (l := poisson_cumsums ROps t0 draws) in *. clearbody l.
  split; [apply filter_lt_prefix; exact S1|].
  induction l as [|a l IH]; cbn [filter]; [intros x []|].
  apply ssorted_cons_inv in S1 as [H1 H2].
  destruct (Rltb_spec a t1) as [Ha|Ha].
  - cbn [length skipn]. apply IH; exact H1.
  - assert (E : filter (fun x => Rltb x t1) l = []).
    { clear IH H1. induction l as [|b l IHl]; [reflexivity|]. cbn [filter].
      inversion H2 as [|? ? Hb Hl]; subst.
      destruct (Rltb_spec b t1) as [Hb'|Hb']; [lra|]. apply IHl; exact Hl. }
    rewrite E. cbn [length skipn]. intros x [<-|Hx]; [lra|].
    rewrite Forall_forall in H2. specialize (H2 _ Hx). lra.
Qed.

(* the k-th cumulative sum written out: t0 + d1 + ... + dk *)
Lemma cumsum_nth (draws : list R) : forall acc k, (k < length draws)%nat ->
  nth k (cumsum ROps acc draws) 0 = acc + fold_right Rplus 0 (firstn (S k) draws).
Proof.
  induction draws as [|d r IH]; intros acc k Hk; cbn [length] in Hk; [lia|].
  cbn [cumsum nadd ROps]. destruct k as [|k].
  - cbn. ring.
  - cbn [nth]. rewrite IH by lia. cbn [firstn fold_right]. ring.
Qed.

Print Assumptions split_join.
Print Assumptions load_save_roundtrip.
Print Assumptions time_series_row_spec.
Print Assumptions psth_edges_spec.
Print Assumptions poisson_spec.
