(* Num.v — the number interface of the model.

   The whole model is written once, polymorphically over a record [NumOps F]
   of field operations and decidable comparisons.  It is instantiated at
   [F := R] (theorems) and at [F := Q] (execution / extraction).  The two
   instances are related in Bridge.v.  No proofs about the model live here. *)

From Coq Require Import List Bool ZArith QArith Qreals Reals Lra Lia.
Import ListNotations.

Record NumOps (F : Type) : Type := mkNumOps {
  n0   : F;
  n1   : F;
  nadd : F -> F -> F;
  nsub : F -> F -> F;
  nmul : F -> F -> F;
  ndiv : F -> F -> F;
  nltb : F -> F -> bool;
  neqb : F -> F -> bool;
  nofZ : Z -> F
}.

Arguments n0 {F} _.
Arguments n1 {F} _.
Arguments nadd {F} _ _ _.
Arguments nsub {F} _ _ _.
Arguments nmul {F} _ _ _.
Arguments ndiv {F} _ _ _.
Arguments nltb {F} _ _ _.
Arguments neqb {F} _ _ _.
Arguments nofZ {F} _ _.

Section Derived.
  Context {F : Type} (o : NumOps F).

  (* Python: a <= b  is  not (b < a) on totally ordered non-NaN values *)
  Definition nleb (a b : F) : bool := negb (nltb o b a).
  Definition ngtb (a b : F) : bool := nltb o b a.
  Definition ngeb (a b : F) : bool := negb (nltb o a b).

  (* Python max(a, b): keeps a unless b > a.  C fmax agrees on non-NaN. *)
  Definition nmax (a b : F) : F := if nltb o a b then b else a.
  (* Python min(a, b): keeps a unless b < a. *)
  Definition nmin (a b : F) : F := if nltb o b a then b else a.
  (* Python abs / C fabs *)
  Definition nabs (a : F) : F := if nltb o a (n0 o) then nsub o (n0 o) a else a.
  Definition nneg (a : F) : F := nsub o (n0 o) a.
  Definition n2 : F := nadd o (n1 o) (n1 o).
  Definition n4 : F := nadd o n2 n2.
  Definition nhalf (a : F) : F := ndiv o a n2.
  Definition nofnat (n : nat) : F := nofZ o (Z.of_nat n).
  Definition nsum (l : list F) : F := fold_left (nadd o) l (n0 o).
End Derived.

(* ------------------------------------------------------------------ *)
(* R instance *)

Definition Rltb (x y : R) : bool := if Rlt_dec x y then true else false.
Definition Reqb (x y : R) : bool := if Req_EM_T x y then true else false.

Definition ROps : NumOps R :=
  {| n0 := 0%R; n1 := 1%R; nadd := Rplus; nsub := Rminus; nmul := Rmult;
     ndiv := Rdiv; nltb := Rltb; neqb := Reqb; nofZ := IZR |}.

(* ------------------------------------------------------------------ *)
(* Q instance: every result is normalised with Qred, comparisons are the
   semantic ones (Qcompare), so the instance is representation independent. *)

Definition Qltb (x y : Q) : bool :=
  match Qcompare x y with Lt => true | _ => false end.
Definition Qeqb (x y : Q) : bool :=
  match Qcompare x y with Eq => true | _ => false end.

Definition QOps : NumOps Q :=
  {| n0 := 0%Q; n1 := 1%Q;
     nadd := fun a b => Qred (Qplus a b);
     nsub := fun a b => Qred (Qminus a b);
     nmul := fun a b => Qred (Qmult a b);
     ndiv := fun a b => Qred (Qdiv a b);
     nltb := Qltb; neqb := Qeqb;
     nofZ := inject_Z |}.
