(* Dispatch.v — numbered dispatcher over the Q-instance of the model.  The
   routine numbers are mirrored in harness/routines.py. *)

From Coq Require Import List Bool ZArith QArith Arith.
Import ListNotations.
From PS Require Import Num ModelKernels ModelFuncs ModelAPI ModelIO Heap ModelSort Val.
Local Open Scope nat_scope.

Definition o := QOps.
Definition eps : Q := (1 # 1000000)%Q.
Definition bad := VE BadArgs.

Definition gtq (cy : bool) := if cy then get_tau_cy o else get_tau o.

Definition dispatch (id : nat) (args : list val) : val :=
  match id, args with
  (* ---- L1 kernels ---- *)
  | 1, [VB cy; a; b; VQ ts; VQ te; VQ m] =>
      match asQs a, asQs b with
      | Some s1, Some s2 =>
          encPwc ((if cy then isi_profile_cy o else isi_profile_py o) s1 s2 ts te m)
      | _, _ => bad end
  | 2, [VB cy; a; b; VQ ts; VQ te; VQ m; VB ri] =>
      match asQs a, asQs b with
      | Some s1, Some s2 =>
          encPwl ((if cy then spike_profile_cy o else spike_profile_py o) s1 s2 ts te m ri)
      | _, _ => bad end
  | 3, [VQ x; l; VQ a0; VQ a1] =>
      match asQs l with Some s => VQ (get_min_dist o x s a0 a1) | None => bad end
  | 4, [VQ i1; VQ i2; VQ s1; VQ s2; VQ m; VB ri] => VQ (dist_at_t o i1 i2 s1 s2 m ri)
  | 5, [VB cy; c1; c2; VQ lim; VQ m] =>
      match asCtx c1, asCtx c2 with
      | Some x, Some y => VQ (gtq cy x y lim m)
      | _, _ => bad end
  | 6, [VB cy; a; b; VQ ts; VQ te; VQ mt; VQ m] =>
      match asQs a, asQs b with
      | Some s1, Some s2 => encDf (coincidence_profile_gen o (gtq cy) s1 s2 ts te mt m)
      | _, _ => bad end
  | 7, [VB cy; a; b; VQ ts; VQ te; VQ mt; VQ m] =>
      match asQs a, asQs b with
      | Some s1, Some s2 => encQs (coincidence_single_gen o (gtq cy) s1 s2 ts te mt m)
      | _, _ => bad end
  | 8, [VB cy; a; b; VQ ts; VQ te; VQ mt; VQ m] =>
      match asQs a, asQs b with
      | Some s1, Some s2 => encDf (order_profile_gen o (gtq cy) s1 s2 ts te mt m)
      | _, _ => bad end
  | 9, [VB cy; a; b; VQ ts; VQ te; VQ mt; VQ m] =>
      match asQs a, asQs b with
      | Some s1, Some s2 =>
          let d := directionality_profile_gen o (gtq cy) s1 s2 ts te mt m in
          VL [encQs (fst d); encQs (snd d)]
      | _, _ => bad end
  | 10, [a; b; VQ ts; VQ te; VQ m] =>
      match asQs a, asQs b with
      | Some s1, Some s2 => VQ (isi_distance_cy o s1 s2 ts te m)
      | _, _ => bad end
  | 11, [a; b; VQ ts; VQ te; VQ m; VB ri] =>
      match asQs a, asQs b with
      | Some s1, Some s2 => VQ (spike_distance_cy o s1 s2 ts te m ri)
      | _, _ => bad end
  | 12, [VB cy; a; b; VQ ts; VQ te; VQ mt; VQ m] =>
      match asQs a, asQs b with
      | Some s1, Some s2 => encPairQ (coincidence_value_gen o (gtq cy) s1 s2 ts te mt m)
      | _, _ => bad end
  | 13, [a; b; VQ ts; VQ te; VQ mt; VQ m] =>
      match asQs a, asQs b with
      | Some s1, Some s2 =>
          encPairQ (order_value o (coinc_scan o (tau_fn o (gtq true) ts te mt m) s1 s2) 0%Q 0%Q)
      | _, _ => bad end
  | 14, [a; b; VQ ts; VQ te; VQ mt; VQ m] =>
      match asQs a, asQs b with
      | Some s1, Some s2 =>
          VQ (dir_value o (coinc_scan o (tau_fn o (gtq true) ts te mt m) s1 s2) 0%Q)
      | _, _ => bad end
  (* ---- L2 function classes ---- *)
  | 20, [x1; y1; x2; y2] =>
      match asQs x1, asQs y1, asQs x2, asQs y2 with
      | Some a, Some b, Some c, Some d => encRes encPwc (pwc_add o (a, b) (c, d))
      | _, _, _, _ => bad end
  | 21, [x1; y11; y12; x2; y21; y22] =>
      match asQs x1, asQs y11, asQs y12, asQs x2, asQs y21, asQs y22 with
      | Some a, Some b, Some c, Some d, Some e, Some f =>
          encRes encPwl (pwl_add o (a, b, c) (d, e, f))
      | _, _, _, _, _, _ => bad end
  | 22, [x1; y1; m1; x2; y2; m2] =>
      match asEntries x1 y1 m1, asEntries x2 y2 m2 with
      | Some f, Some g => encRes encDf (df_add o f g)
      | _, _ => bad end
  | 23, [x; y; iv] =>
      match asQs x, asQs y, asIvspec iv with
      | Some xs, Some ys, Some i => encRes VQ (pwc_avrg o (xs, ys) i)
      | _, _, _ => bad end
  | 24, [x; y; iv] =>
      match asQs x, asQs y, asIv iv with
      | Some xs, Some ys, Some i => encRes VQ (pwc_integral o (xs, ys) i)
      | _, _, _ => bad end
  | 25, [x; y; VQ t] =>
      match asQs x, asQs y with
      | Some xs, Some ys => encRes VQ (pwc_call_scalar o (xs, ys) t)
      | _, _ => bad end
  | 26, [x; y; VQ t] =>
      match asQs x, asQs y with
      | Some xs, Some ys => encRes VQ (pwc_call_seq1 o (xs, ys) t)
      | _, _ => bad end
  | 27, [x; y] =>
      match asQs x, asQs y with
      | Some xs, Some ys => encPwc (pwc_plottable (xs, ys))
      | _, _ => bad end
  | 28, [x; y1; y2; iv] =>
      match asQs x, asQs y1, asQs y2, asIvspec iv with
      | Some xs, Some a, Some b, Some i => encRes VQ (pwl_avrg o (xs, a, b) i)
      | _, _, _, _ => bad end
  | 29, [x; y1; y2; iv] =>
      match asQs x, asQs y1, asQs y2, asIv iv with
      | Some xs, Some a, Some b, Some i => encRes VQ (pwl_integral o (xs, a, b) i)
      | _, _, _, _ => bad end
  | 30, [x; y1; y2; VQ t] =>
      match asQs x, asQs y1, asQs y2 with
      | Some xs, Some a, Some b => encRes VQ (pwl_call_scalar o (xs, a, b) t)
      | _, _, _ => bad end
  | 31, [x; y1; y2; VQ t] =>
      match asQs x, asQs y1, asQs y2 with
      | Some xs, Some a, Some b => encRes VQ (pwl_call_seq1 o (xs, a, b) t)
      | _, _, _ => bad end
  | 32, [x; y1; y2] =>
      match asQs x, asQs y1, asQs y2 with
      | Some xs, Some a, Some b => encPwc (pwl_plottable (xs, a, b))
      | _, _, _ => bad end
  | 33, [x; y; mp; iv] =>
      match asEntries x y mp, asIvspec iv with
      | Some f, Some i => encRes encPairQ (df_integral o f i)
      | _, _ => bad end
  | 34, [x; y; mp; iv; VB nrm] =>
      match asEntries x y mp, asIvspec iv with
      | Some f, Some i => encRes VQ (df_avrg o f i nrm)
      | _, _ => bad end
  | 35, [x; y; mp; VN k] =>
      match asEntries x y mp with
      | Some f => encPwc (df_plottable o f k)
      | _ => bad end
  (* ---- L3 helpers ---- *)
  | 40, [l] => match asQs l with Some s => encQs (sort_unique o s) | None => bad end
  | 41, [l] => match asTrains l with Some ts => VL (map encTrain (reconcile o eps ts)) | None => bad end
  | 42, [l; VQ ts; VQ te] => match asQs l with Some s => encQs (isi_lengths o s ts te) | None => bad end
  | 43, [l] => match asTrains l with Some ts => VQ (default_thresh_sq o ts) | None => bad end
  (* ---- L3 entry points ---- *)
  | 50, [VB cy; VB rc; VQ m; a; b] =>
      match asTrain a, asTrain b with
      | Some x, Some y => encPwc (isi_profile_bi o eps cy rc m x y)
      | _, _ => bad end
  | 51, [VB cy; VB rc; VQ m; VB ri; a; b] =>
      match asTrain a, asTrain b with
      | Some x, Some y => encPwl (spike_profile_bi o eps cy rc m ri x y)
      | _, _ => bad end
  | 52, [VB cy; VB rc; VQ mt; VQ m; a; b] =>
      match asTrain a, asTrain b with
      | Some x, Some y => encDf (spike_sync_profile_bi o eps cy rc mt m x y)
      | _, _ => bad end
  | 53, [VB cy; VB rc; VQ mt; VQ m; a; b] =>
      match asTrain a, asTrain b with
      | Some x, Some y => encRes encDf (order_profile_bi o eps cy rc mt m x y)
      | _, _ => bad end
  | 54, [VB cy; VB rc; VQ m; iv; a; b] =>
      match asIv iv, asTrain a, asTrain b with
      | Some i, Some x, Some y => encRes VQ (isi_distance_bi o eps cy rc m i x y)
      | _, _, _ => bad end
  | 55, [VB cy; VB rc; VQ m; VB ri; iv; a; b] =>
      match asIv iv, asTrain a, asTrain b with
      | Some i, Some x, Some y => encRes VQ (spike_distance_bi o eps cy rc m ri i x y)
      | _, _, _ => bad end
  | 56, [VB cy; VB rc; VQ mt; VQ m; iv; a; b] =>
      match asIv iv, asTrain a, asTrain b with
      | Some i, Some x, Some y => encRes VQ (spike_sync_bi o eps cy rc mt m i x y)
      | _, _, _ => bad end
  | 60, [VB cy; VB rc; VQ m; l; ix] =>
      match asTrains l, asIdx ix with
      | Some ts, Some i => encRes encPwc (isi_profile_multi o eps cy rc m ts i)
      | _, _ => bad end
  | 61, [VB cy; VB rc; VQ m; VB ri; l; ix] =>
      match asTrains l, asIdx ix with
      | Some ts, Some i => encRes encPwl (spike_profile_multi o eps cy rc m ri ts i)
      | _, _ => bad end
  | 62, [VB cy; VB rc; VQ mt; VQ m; l; ix] =>
      match asTrains l, asIdx ix with
      | Some ts, Some i => encRes encDf (spike_sync_profile_multi o eps cy rc mt m ts i)
      | _, _ => bad end
  | 63, [VB cy; VB rc; VQ mt; VQ m; l; ix] =>
      match asTrains l, asIdx ix with
      | Some ts, Some i => encRes encDf (order_profile_multi o eps cy rc mt m ts i)
      | _, _ => bad end
  | 64, [VB cy; VB rc; VQ m; iv; l; ix] =>
      match asIv iv, asTrains l, asIdx ix with
      | Some v, Some ts, Some i => encRes VQ (isi_distance_multi o eps cy rc m v ts i)
      | _, _, _ => bad end
  | 65, [VB cy; VB rc; VQ m; VB ri; iv; l; ix] =>
      match asIv iv, asTrains l, asIdx ix with
      | Some v, Some ts, Some i => encRes VQ (spike_distance_multi o eps cy rc m ri v ts i)
      | _, _, _ => bad end
  | 66, [VB cy; VB rc; VQ mt; VQ m; iv; l; ix] =>
      match asIv iv, asTrains l, asIdx ix with
      | Some v, Some ts, Some i => encRes VQ (spike_sync_multi o eps cy rc mt m v ts i)
      | _, _, _ => bad end
  | 67, [VB cy; VB rc; VQ m; iv; l; ix] =>
      match asIv iv, asTrains l, asIdx ix with
      | Some v, Some ts, Some i => encRes encMatrix (isi_distance_matrix o eps cy rc m v ts i)
      | _, _, _ => bad end
  | 68, [VB cy; VB rc; VQ m; VB ri; iv; l; ix] =>
      match asIv iv, asTrains l, asIdx ix with
      | Some v, Some ts, Some i => encRes encMatrix (spike_distance_matrix o eps cy rc m ri v ts i)
      | _, _, _ => bad end
  | 69, [VB cy; VB rc; VQ mt; VQ m; iv; l; ix] =>
      match asIv iv, asTrains l, asIdx ix with
      | Some v, Some ts, Some i => encRes encMatrix (spike_sync_matrix o eps cy rc mt m v ts i)
      | _, _, _ => bad end
  | 70, [VB cy; VB rc; VQ mt; VQ m; VQ thr; l] =>
      match asTrains l with
      | Some ts =>
          VL (map (fun kr => VL [encTrain (fst kr); encTrain (snd kr)])
                  (filter_by_spike_sync o eps cy rc mt m thr ts))
      | None => bad end
  | 71, [VB cy; VB rc; VB nrm; VQ mt; VQ m; a; b] =>
      match asTrain a, asTrain b with
      | Some x, Some y => encRes VQ (spike_train_order_bi o eps cy rc nrm mt m x y)
      | _, _ => bad end
  | 72, [VB cy; VB rc; VB nrm; VQ mt; VQ m; l; ix] =>
      match asTrains l, asIdx ix with
      | Some ts, Some i => encRes VQ (spike_train_order_multi o eps cy rc nrm mt m ts i)
      | _, _ => bad end
  | 73, [VB cy; VB rc; VQ mt; VQ m; l; ix] =>
      match asTrains l, asIdx ix with
      | Some ts, Some i => encRes encMatrix (directionality_values o eps cy rc mt m ts i)
      | _, _ => bad end
  | 74, [VB cy; VB rc; VB nrm; VQ mt; VQ m; a; b] =>
      match asTrain a, asTrain b with
      | Some x, Some y => encRes VQ (spike_directionality o eps cy rc nrm mt m x y)
      | _, _ => bad end
  | 75, [VB cy; VB rc; VB nrm; VQ mt; VQ m; l; ix] =>
      match asTrains l, asIdx ix with
      | Some ts, Some i => encRes encMatrix (spike_directionality_matrix o eps cy rc nrm mt m ts i)
      | _, _ => bad end
  (* ---- L4 ---- *)
  | 80, [l] => match asTrains l with Some ts => encTrain (merge_spike_trains o ts) | None => bad end
  | 81, [VQ start; VQ bin; row] =>
      match asBs row with Some r => encTrain (time_series_row o start bin r) | None => bad end
  | 82, [edges; xs] =>
      match asQs edges, asQs xs with
      | Some e, Some x => encQs (hist_counts o e x)
      | _, _ => bad end
  (* ---- text framing (ModelIO.v): strings are lists of character codes ---- *)
  | 90, [sep; trains] =>
      match asNs sep, asStrsL trains with
      | Some sp, Some ts => VL (map encStr (save_lines sp ts))
      | _, _ => bad end
  | 91, [sep; comment; VB ie; lines] =>
      match asNs sep, asNs comment, asStrs lines with
      | Some sp, Some cm, Some ls => VL (map (fun t => VL (map encStr t)) (load_lines sp cm ie ls))
      | _, _, _ => bad end
  | 92, [VQ ts; VQ te; VN n; xs] =>
      match asQs xs with
      | Some x => VL [encQs (psth_edges o ts te n); encQs (psth_counts o ts te n x)]
      | None => bad end
  | 93, [VQ t0; VQ t1; draws] =>
      match asQs draws with Some d => encQs (poisson_spikes o t0 t1 d) | None => bad end
  (* ---- histories of add / mul_scalar / copy on piecewise-constant objects (Heap.v) ---- *)
  | 94, [bases; ops] =>
      match asPwcs bases, asOps ops with
      | Some bs, Some os =>
          let st := run o (map (fun b => ONew (fst b) (snd b)) bs ++ os) empty_state in
          VL [VL (map (fun k => match denote st k with Some f => encPwc f | None => VNone end)
                      (seq 0 (length (st_objs st))));
              VL (map VE (st_errs st))]
      | _, _ => bad end
  (* ---- simulated annealing of optimal_spike_train_sorting (ModelSort.v): matrix, scripted rand() pattern ---- *)
  | 95, [m; pat] =>
      match asQss m, asNs pat with
      | Some D, Some pt =>
          match sorting_from_matrix o (cyc pt) metro_script D 120 with
          | Some (p, A, it) => VL [VL (map VN p); VQ A; VN it]
          | None => bad
          end
      | _, _ => bad end
  | 96, [m; p] =>
      match asQss m, asNs p with
      | Some D, Some pp => VL [encMatrix (permutate_matrix o D pp); VQ (triu_sum o D)]
      | _, _ => bad end
  | _, _ => bad
  end.
