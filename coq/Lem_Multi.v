(* Lem_Multi.v — property C06: the multivariate drivers.
   (1) divide_and_conquer (the fuelled tree fold [dc]) equals the plain
       left-to-right sum, never runs out of fuel, and is permutation invariant
       for a commutative add;
   (2) the pair means of _generic_distance_multi / spike_sync_multi and their
       invariance under permutation of the list of trains;
   (3) the entries and the (anti)symmetry of _generic_distance_matrix. *)

From Coq Require Import List Bool Arith ZArith Reals Lra Lia Sorted Permutation.
Import ListNotations.
From PS Require Import Num RLemmas Valid ModelKernels ModelFuncs ModelAPI Spec SyncDefs.
Local Open Scope R_scope.

(* ------------------------------------------------------------------ *)
(* 1-3. divide and conquer                                             *)

Section DCFold.
  Variable P : Type.
  Variable padd : P -> P -> res P.
  Variable pf : nat * nat -> res P.
  Variable good : P -> Prop.
  Variable ps0 : list (nat * nat).

  Hypothesis Hpf : forall p, In p ps0 -> exists v, pf p = Ok v /\ good v.
  Hypothesis Hclosed : forall a b, good a -> good b -> exists c, padd a b = Ok c /\ good c.
  Hypothesis Hassoc : forall a b c ab bc, good a -> good b -> good c ->
      padd a b = Ok ab -> padd b c = Ok bc -> padd ab c = padd a bc.

  Definition lstep (acc : res P) (q : nat * nat) : res P :=
    rbind acc (fun a => rbind (pf q) (fun b => padd a b)).

  Definition lsum (ps : list (nat * nat)) : res P :=
    match ps with
    | p :: r => fold_left lstep r (pf p)
    | [] => Err IndexError
    end.

  Definition goodres (r : res P) : Prop := exists v, r = Ok v /\ good v.

  Lemma fold_lstep_good : forall r a, incl r ps0 -> goodres a -> goodres (fold_left lstep r a).
  Proof.
    induction r as [|q r IH]; intros a Hin Ha; cbn [fold_left]; auto.
    apply IH.
    - intros x Hx; apply Hin; right; exact Hx.
    - destruct Ha as (va & -> & Ga).
      destruct (Hpf q) as (vq & Eq & Gq); [apply Hin; left; reflexivity|].
      unfold lstep; cbn [rbind]; rewrite Eq; cbn [rbind].
      destruct (Hclosed va vq Ga Gq) as (c & Ec & Gc). exists c; auto.
  Qed.

  Lemma lsum_good : forall ps, incl ps ps0 -> ps <> [] -> goodres (lsum ps).
  Proof.
    intros [|p r] Hin Hne; [congruence|]. cbn [lsum].
    apply fold_lstep_good.
    - intros x Hx; apply Hin; right; exact Hx.
    - destruct (Hpf p) as (v & E & G); [apply Hin; left; reflexivity|]. exists v; auto.
  Qed.

  (* associativity: pushing a left factor [a] through a left fold *)
  Lemma fold_lstep_assoc : forall r a b, incl r ps0 -> good a -> good b ->
      fold_left lstep r (padd a b) = rbind (fold_left lstep r (Ok b)) (fun c => padd a c).
  Proof.
    induction r as [|q r IH]; intros a b Hin Ga Gb; cbn [fold_left].
    - reflexivity.
    - assert (Hin' : incl r ps0) by (intros x Hx; apply Hin; right; exact Hx).
      destruct (Hpf q) as (vq & Eq & Gq); [apply Hin; left; reflexivity|].
      destruct (Hclosed a b Ga Gb) as (ab & Eab & Gab).
      destruct (Hclosed b vq Gb Gq) as (bq & Ebq & Gbq).
      rewrite Eab. unfold lstep at 2 4. cbn [rbind]. rewrite Eq. cbn [rbind].
      rewrite (Hassoc a b vq ab bq Ga Gb Gq Eab Ebq), Ebq.
      apply IH; auto.
  Qed.

  Lemma lsum_app : forall ps1 ps2, incl ps1 ps0 -> incl ps2 ps0 -> ps1 <> [] -> ps2 <> [] ->
      lsum (ps1 ++ ps2) = rbind (lsum ps1) (fun a => rbind (lsum ps2) (fun b => padd a b)).
  Proof.
    intros ps1 ps2 H1 H2 N1 N2.
    destruct (lsum_good ps1 H1 N1) as (a & Ea & Ga).
    destruct ps1 as [|p r1]; [congruence|]. destruct ps2 as [|q r2]; [congruence|].
    cbn [app lsum] in *. rewrite fold_left_app, Ea. cbn [fold_left rbind].
    destruct (Hpf q) as (vq & Eq & Gq); [apply H2; left; reflexivity|].
    unfold lstep at 2. cbn [rbind]. rewrite Eq. cbn [rbind].
    apply fold_lstep_assoc; auto.
    intros x Hx; apply H2; right; exact Hx.
  Qed.

  Lemma div2_bounds n : (2 <= n)%nat -> (1 <= Nat.div2 n /\ Nat.div2 n < n)%nat.
  Proof.
    intros H. split.
    - destruct n as [|[|n]]; try lia. cbn [Nat.div2]. lia.
    - apply Nat.lt_div2. lia.
  Qed.

  Theorem dc_fold : forall fuel ps, incl ps ps0 -> ps <> [] -> (length ps < fuel)%nat ->
      dc padd pf fuel ps = lsum ps.
  Proof.
    induction fuel as [|k IH]; intros ps Hin Hne Hlen; [lia|].
    destruct ps as [|p [|q r]]; [congruence|reflexivity|].
    set (ps := p :: q :: r) in *.
    assert (Hdc : dc padd pf (S k) ps =
                  rbind (dc padd pf k (firstn (Nat.div2 (length ps)) ps)) (fun d1 =>
                  rbind (dc padd pf k (skipn (Nat.div2 (length ps)) ps)) (fun d2 => padd d1 d2)))
      by reflexivity.
    rewrite Hdc. clear Hdc.
    assert (Hl2 : (2 <= length ps)%nat) by (unfold ps; cbn [length]; lia).
    destruct (div2_bounds (length ps) Hl2) as [Hh1 Hh2].
    set (h := Nat.div2 (length ps)) in *.
    assert (Lf : length (firstn h ps) = h) by (apply firstn_length_le; lia).
    assert (Ls : length (skipn h ps) = (length ps - h)%nat) by apply skipn_length.
    assert (Nf : firstn h ps <> []) by (intros E; rewrite E in Lf; change (0 = h)%nat in Lf; lia).
    assert (Ns : skipn h ps <> []) by (intros E; rewrite E in Ls; change (0 = length ps - h)%nat in Ls; lia).
    assert (If : incl (firstn h ps) ps0)
      by (intros x Hx; apply Hin; rewrite <- (firstn_skipn h ps); apply in_or_app; auto).
    assert (Is : incl (skipn h ps) ps0)
      by (intros x Hx; apply Hin; rewrite <- (firstn_skipn h ps); apply in_or_app; auto).
    rewrite (IH _ If Nf) by lia. rewrite (IH _ Is Ns) by lia.
    rewrite <- (lsum_app _ _ If Is Nf Ns). rewrite firstn_skipn. reflexivity.
  Qed.

  (* the fuel the model passes *)
  Theorem dc_fold_model : forall ps, incl ps ps0 -> ps <> [] ->
      dc padd pf (S (length ps)) ps = lsum ps.
  Proof. intros ps Hin Hne. apply dc_fold; auto. Qed.

  Theorem dc_model_good : forall ps, incl ps ps0 -> ps <> [] ->
      exists v, dc padd pf (S (length ps)) ps = Ok v /\ good v.
  Proof. intros ps Hin Hne. rewrite dc_fold_model by auto. apply lsum_good; auto. Qed.

  Theorem dc_never_out_of_fuel : forall ps, incl ps ps0 -> ps <> [] ->
      dc padd pf (S (length ps)) ps <> Err OutOfFuel.
  Proof.
    intros ps Hin Hne. destruct (dc_model_good ps Hin Hne) as (v & E & _).
    rewrite E. discriminate.
  Qed.

  (* 3. permutation invariance for a commutative add *)
  Hypothesis Hcomm : forall a b, good a -> good b -> padd a b = padd b a.

  Lemma lsum_cons : forall p r, incl (p :: r) ps0 -> r <> [] ->
      lsum (p :: r) = rbind (pf p) (fun a => rbind (lsum r) (fun b => padd a b)).
  Proof.
    intros p r Hin Hne.
    change (p :: r) with ([p] ++ r).
    apply lsum_app; auto; try discriminate.
    - intros x [<-|[]]. apply Hin; left; reflexivity.
    - intros x Hx; apply Hin; right; exact Hx.
  Qed.

  Theorem lsum_perm : forall ps ps', Permutation ps ps' -> incl ps ps0 -> lsum ps = lsum ps'.
  Proof.
    induction 1 as [|x l l' Hp IH|x y l|l l' l'' Hp1 IH1 Hp2 IH2]; intros Hin.
    - reflexivity.
    - destruct l as [|z l].
      + apply Permutation_nil in Hp. subst l'. reflexivity.
      + assert (Hl' : l' <> []).
        { intros E; subst l'. apply Permutation_sym, Permutation_nil in Hp. discriminate. }
        assert (Hin' : incl (x :: l') ps0).
        { intros u [<-|Hu]; [apply Hin; left; reflexivity|].
          apply Hin; right. apply Permutation_in with (l := l'); auto using Permutation_sym. }
        rewrite lsum_cons by (auto; discriminate). rewrite (lsum_cons x l') by auto.
        rewrite IH; auto. intros u Hu; apply Hin; right; exact Hu.
    - cbn [lsum fold_left].
      destruct (Hpf x) as (vx & Ex & Gx); [apply Hin; right; left; reflexivity|].
      destruct (Hpf y) as (vy & Ey & Gy); [apply Hin; left; reflexivity|].
      unfold lstep at 2 4. rewrite Ex, Ey. cbn [rbind]. rewrite (Hcomm vy vx Gy Gx). reflexivity.
    - rewrite IH1 by auto. apply IH2.
      intros u Hu. apply Hin. apply Permutation_in with (l := l'); auto using Permutation_sym.
  Qed.

  Corollary dc_perm : forall ps ps', Permutation ps ps' -> incl ps ps0 -> ps <> [] ->
      dc padd pf (S (length ps)) ps = dc padd pf (S (length ps')) ps'.
  Proof.
    intros ps ps' Hp Hin Hne.
    assert (Hin' : incl ps' ps0)
      by (intros u Hu; apply Hin; apply Permutation_in with (l := ps'); auto using Permutation_sym).
    assert (Hne' : ps' <> [])
      by (intros E; subst ps'; apply Permutation_sym, Permutation_nil in Hp; auto).
    rewrite !dc_fold_model by auto. apply lsum_perm; auto.
  Qed.
End DCFold.
Arguments lsum {P} padd pf ps.
Arguments lstep {P} padd pf acc q.
Arguments goodres {P} good r.

(* ------------------------------------------------------------------ *)
(* generic list facts                                                  *)

(* value of a result, 0 for an error *)
Definition valOf (r : res R) : R := match r with Ok v => v | Err _ => 0 end.
Definition valOf2 (r : res (R * R)) : R * R := match r with Ok v => v | Err _ => (0, 0) end.

Lemma check_indices_seq n : check_indices n (seq 0 n) = true.
Proof.
  unfold check_indices. apply forallb_forall. intros i Hi.
  apply in_seq in Hi. apply Nat.ltb_lt. lia.
Qed.

(* all unordered pairs (earlier, later) of a list *)
Fixpoint gpairs {A} (l : list A) : list (A * A) :=
  match l with
  | [] => []
  | a :: r => map (fun b => (a, b)) r ++ gpairs r
  end.

Lemma pairs_of_gpairs idx : pairs_of idx = gpairs idx.
Proof. induction idx as [|i r IH]; cbn [pairs_of gpairs]; congruence. Qed.

Lemma gpairs_map {A B} (f : A -> B) l :
  gpairs (map f l) = map (fun p => (f (fst p), f (snd p))) (gpairs l).
Proof.
  induction l as [|a r IH]; cbn [gpairs map]; [reflexivity|].
  rewrite map_app, !map_map, IH. reflexivity.
Qed.

Lemma gpairs_length {A} (l : list A) : (2 * length (gpairs l) = length l * (length l - 1))%nat.
Proof.
  induction l as [|a r IH]; cbn [gpairs length]; [reflexivity|].
  rewrite app_length, map_length. destruct r as [|b r]; cbn [length] in *; nia.
Qed.

Theorem pairs_of_seq_length n : (2 * length (pairs_of (seq 0 n)) = n * (n - 1))%nat.
Proof. rewrite pairs_of_gpairs, gpairs_length, seq_length. reflexivity. Qed.

Lemma pairs_of_seq_pos n : (2 <= n)%nat -> (0 < length (pairs_of (seq 0 n)))%nat.
Proof. intros H. pose proof (pairs_of_seq_length n). nia. Qed.

Lemma map_nth_seq {A} (l : list A) d : map (fun i => nth i l d) (seq 0 (length l)) = l.
Proof.
  apply nth_ext with (d := d) (d' := d).
  - rewrite map_length, seq_length. reflexivity.
  - intros n Hn. rewrite map_length, seq_length in Hn.
    rewrite nth_indep with (d' := nth 0%nat l d) by (rewrite map_length, seq_length; exact Hn).
    rewrite (map_nth (fun i => nth i l d) (seq 0 (length l)) 0%nat n).
    rewrite seq_nth by exact Hn. reflexivity.
Qed.

Lemma nth_map_seq {A} (f : nat -> A) n i d : (i < n)%nat -> nth i (map f (seq 0 n)) d = f i.
Proof.
  intros Hi.
  rewrite nth_indep with (d' := f 0%nat) by (rewrite map_length, seq_length; exact Hi).
  rewrite (map_nth f (seq 0 n) 0%nat i). rewrite seq_nth by exact Hi. reflexivity.
Qed.

(* the pairs of trains visited by the multivariate drivers *)
Lemma train_pairs (l : list (@train R)) :
  map (fun p => (nth_train ROps l (fst p), nth_train ROps l (snd p))) (pairs_of (seq 0 (length l)))
  = gpairs l.
Proof.
  rewrite pairs_of_gpairs. rewrite <- (gpairs_map (nth_train ROps l)).
  unfold nth_train. rewrite map_nth_seq. reflexivity.
Qed.

(* sums *)
Lemma sumF_app (l1 l2 : list R) : sumF ROps (l1 ++ l2) = sumF ROps l1 + sumF ROps l2.
Proof.
  unfold sumF. induction l1 as [|a l1 IH]; cbn [app fold_right nadd n0 ROps] in *; [lra|].
  rewrite IH. lra.
Qed.

Lemma sumF_perm (l1 l2 : list R) : Permutation l1 l2 -> sumF ROps l1 = sumF ROps l2.
Proof.
  unfold sumF. induction 1; cbn [fold_right nadd n0 ROps] in *; lra.
Qed.

Lemma nofnat_INR n : nofnat ROps n = INR n.
Proof. unfold nofnat. cbn [nofZ ROps]. symmetry. apply INR_IZR_INZ. Qed.

(* ------------------------------------------------------------------ *)
(* sum over the unordered pairs of a list, recursively on the list     *)

Section PSum.
  Variable T : Type.
  Variable v : T -> T -> R.

  Fixpoint psum (l : list T) : R :=
    match l with
    | [] => 0
    | a :: r => sumF ROps (map (v a) r) + psum r
    end.

  Lemma psum_gpairs l : sumF ROps (map (fun p => v (fst p) (snd p)) (gpairs l)) = psum l.
  Proof.
    induction l as [|a r IH]; cbn [gpairs psum map]; [reflexivity|].
    rewrite map_app, sumF_app, map_map, IH. cbn [fst snd]. reflexivity.
  Qed.

  Hypothesis vsym : forall a b, v a b = v b a.

  Lemma psum_perm l l' : Permutation l l' -> psum l = psum l'.
  Proof.
    induction 1 as [|x l l' Hp IH|x y l|l l' l'' Hp1 IH1 Hp2 IH2]; cbn [psum map].
    - reflexivity.
    - rewrite IH. f_equal. apply sumF_perm. apply Permutation_map. exact Hp.
    - unfold sumF. cbn [fold_right nadd ROps]. fold (sumF ROps (map (v x) l)).
      fold (sumF ROps (map (v y) l)). rewrite (vsym y x). lra.
    - congruence.
  Qed.
End PSum.
Arguments psum {T} v l.
Arguments psum_gpairs {T} v l.
Arguments psum_perm {T} v vsym l l'.

(* ------------------------------------------------------------------ *)
(* 4-5. _generic_distance_multi                                        *)

Section DistMulti.
  Variable bi : @train R -> @train R -> res R.
  Hypothesis bitot : forall a b, exists v, bi a b = Ok v.

  Definition bval (a b : @train R) : R := valOf (bi a b).

  Lemma bi_bval a b : bi a b = Ok (bval a b).
  Proof. unfold bval. destruct (bitot a b) as (v & ->). reflexivity. Qed.

  Lemma dist_fold l : forall ps a,
    fold_left (fun acc p =>
                 rbind acc (fun a =>
                 rmap (fun d => nadd ROps a d)
                      (bi (nth_train ROps l (fst p)) (nth_train ROps l (snd p)))))
              ps (Ok a)
    = Ok (a + sumF ROps (map (fun p => bval (nth_train ROps l (fst p)) (nth_train ROps l (snd p))) ps)).
  Proof.
    induction ps as [|p ps IH]; intros a; cbn [fold_left map].
    - unfold sumF; cbn [fold_right n0 ROps]. f_equal; lra.
    - cbn [rbind]. rewrite bi_bval. cbn [rmap]. rewrite IH.
      unfold sumF; cbn [fold_right nadd ROps]. f_equal; lra.
  Qed.

  (* the pair sum the driver accumulates, written over the index pairs *)
  Definition pair_sum (l : list (@train R)) : R :=
    sumF ROps (map (fun p => bval (nth_train ROps l (fst p)) (nth_train ROps l (snd p)))
                   (pairs_of (seq 0 (length l)))).

  Lemma pair_sum_psum l : pair_sum l = psum bval l.
  Proof.
    unfold pair_sum. rewrite <- psum_gpairs, <- train_pairs, map_map. reflexivity.
  Qed.

  Lemma distance_multi_value l :
    distance_multi_gen ROps 0 bi false l None
    = Ok (pair_sum l / INR (length (pairs_of (seq 0 (length l))))).
  Proof.
    unfold distance_multi_gen. cbn [indices_or_all].
    rewrite check_indices_seq. cbn [negb].
    rewrite (dist_fold l). cbn [rmap n0 ROps ndiv]. rewrite nofnat_INR.
    unfold pair_sum. f_equal. f_equal. lra.
  Qed.

  Lemma distance_multi_mean_sec l : (2 <= length l)%nat ->
    distance_multi_gen ROps 0 bi false l None
    = Ok (sumF ROps (map (fun p => valOf (bi (nth_train ROps l (fst p)) (nth_train ROps l (snd p))))
                         (pairs_of (seq 0 (length l))))
          / INR (length (pairs_of (seq 0 (length l))))).
  Proof. intros _. apply distance_multi_value. Qed.

  Hypothesis bisym : forall a b, bi a b = bi b a.

  Theorem distance_multi_perm_aux l l' : Permutation l l' ->
    distance_multi_gen ROps 0 bi false l None = distance_multi_gen ROps 0 bi false l' None.
  Proof.
    intros Hp. rewrite !distance_multi_value, !pair_sum_psum.
    rewrite (Permutation_length Hp).
    rewrite (psum_perm bval) with (l' := l'); auto.
    intros a b. unfold bval. rewrite bisym. reflexivity.
  Qed.
End DistMulti.

Theorem distance_multi_mean : forall bi l, (2 <= length l)%nat ->
  (forall a b, exists v, bi a b = Ok v) ->
  distance_multi_gen ROps 0 bi false l None
  = Ok (sumF ROps (map (fun p => valOf (bi (nth_train ROps l (fst p)) (nth_train ROps l (snd p))))
                       (pairs_of (seq 0 (length l))))
        / INR (length (pairs_of (seq 0 (length l))))).
Proof. intros bi l H2 Ht. apply distance_multi_mean_sec; auto. Qed.

Theorem distance_multi_perm : forall bi l l',
  (forall a b, bi a b = bi b a) -> (forall a b, exists v, bi a b = Ok v) -> Permutation l l' ->
  distance_multi_gen ROps 0 bi false l None = distance_multi_gen ROps 0 bi false l' None.
Proof. intros bi l l' Hs Ht Hp. apply distance_multi_perm_aux; auto. Qed.

(* the number of pairs is n(n-1)/2, so the mean divides by a positive number *)
Corollary distance_multi_count : forall (l : list (@train R)), (2 <= length l)%nat ->
  INR (length (pairs_of (seq 0 (length l)))) = INR (length l) * (INR (length l) - 1) / 2
  /\ 0 < INR (length (pairs_of (seq 0 (length l)))).
Proof.
  intros l H2. pose proof (pairs_of_seq_length (length l)) as Hc.
  pose proof (pairs_of_seq_pos (length l) H2) as Hp.
  split; [|apply lt_0_INR; exact Hp].
  apply (f_equal INR) in Hc. rewrite !mult_INR, minus_INR in Hc by lia.
  cbn [INR] in Hc. lra.
Qed.

(* ------------------------------------------------------------------ *)
(* 6. pooled pair values: spike_sync_multi                             *)

Definition ratio (cm : R * R) : R :=
  if neqb ROps (snd cm) (n0 ROps) then n1 ROps else ndiv ROps (fst cm) (snd cm).

(* the generic driver: component-wise sum of pair values, then the ratio *)
Definition pooled_multi (f : @train R -> @train R -> res (R * R)) (l : list (@train R)) : res R :=
  rmap ratio
       (fold_left (fun acc p =>
                     rbind acc (fun a =>
                     rmap (fun d => (nadd ROps (fst a) (fst d), nadd ROps (snd a) (snd d)))
                          (f (nth_train ROps l (fst p)) (nth_train ROps l (snd p)))))
                  (pairs_of (seq 0 (length l))) (Ok (n0 ROps, n0 ROps))).

Section Pooled.
  Variable f : @train R -> @train R -> res (R * R).
  Hypothesis ftot : forall a b, exists v, f a b = Ok v.

  Definition fv1 (a b : @train R) : R := fst (valOf2 (f a b)).
  Definition fv2 (a b : @train R) : R := snd (valOf2 (f a b)).

  Lemma f_fv a b : f a b = Ok (fv1 a b, fv2 a b).
  Proof. unfold fv1, fv2. destruct (ftot a b) as ([c m] & ->). reflexivity. Qed.

  Lemma pooled_fold l : forall ps a,
    fold_left (fun acc p =>
                 rbind acc (fun a =>
                 rmap (fun d => (nadd ROps (fst a) (fst d), nadd ROps (snd a) (snd d)))
                      (f (nth_train ROps l (fst p)) (nth_train ROps l (snd p)))))
              ps (Ok a)
    = Ok (fst a + sumF ROps (map (fun p => fv1 (nth_train ROps l (fst p)) (nth_train ROps l (snd p))) ps),
          snd a + sumF ROps (map (fun p => fv2 (nth_train ROps l (fst p)) (nth_train ROps l (snd p))) ps)).
  Proof.
    induction ps as [|p ps IH]; intros [c m]; cbn [fold_left map fst snd].
    - unfold sumF; cbn [fold_right n0 ROps]. f_equal; f_equal; lra.
    - cbn [rbind]. rewrite f_fv. cbn [rmap fst snd]. rewrite IH. cbn [fst snd].
      unfold sumF; cbn [fold_right nadd ROps]. f_equal; f_equal; lra.
  Qed.

  Lemma pooled_multi_value l :
    pooled_multi f l = Ok (ratio (psum fv1 l, psum fv2 l)).
  Proof.
    unfold pooled_multi. rewrite (pooled_fold l). cbn [rmap fst snd n0 ROps].
    f_equal. f_equal.
    rewrite <- !psum_gpairs, <- !train_pairs, !map_map. cbn [fst snd]. f_equal; lra.
  Qed.

  Hypothesis fsym : forall a b, f a b = f b a.

  Theorem pooled_multi_perm l l' : Permutation l l' -> pooled_multi f l = pooled_multi f l'.
  Proof.
    intros Hp. rewrite !pooled_multi_value.
    rewrite (psum_perm fv1) with (l' := l'), (psum_perm fv2) with (l' := l'); auto.
    - intros a b. unfold fv2. rewrite fsym. reflexivity.
    - intros a b. unfold fv1. rewrite fsym. reflexivity.
  Qed.
End Pooled.

Lemma spike_sync_multi_pooled cy mt m iv l :
  spike_sync_multi ROps 0 cy false mt m iv l None
  = pooled_multi (spike_sync_values ROps 0 cy mt m iv) l.
Proof.
  unfold spike_sync_multi, pooled_multi. cbn [indices_or_all].
  rewrite check_indices_seq. cbn [negb]. reflexivity.
Qed.

Theorem sync_multi_perm : forall cy mt m iv l l',
  (forall a b, spike_sync_values ROps 0 cy mt m iv a b = spike_sync_values ROps 0 cy mt m iv b a) ->
  (forall a b, exists v, spike_sync_values ROps 0 cy mt m iv a b = Ok v) ->
  Permutation l l' ->
  spike_sync_multi ROps 0 cy false mt m iv l None = spike_sync_multi ROps 0 cy false mt m iv l' None.
Proof.
  intros cy mt m iv l l' Hs Ht Hp. rewrite !spike_sync_multi_pooled.
  apply pooled_multi_perm; auto.
Qed.

(* the same driver shape is used by spike_train_order_multi: with normalize = true the ratio of the
   pooled sums, with normalize = false the pooled first component (the total numerator) *)
Definition pooled_total (f : @train R -> @train R -> res (R * R)) (l : list (@train R)) : res R :=
  rmap fst
       (fold_left (fun acc p =>
                     rbind acc (fun a =>
                     rmap (fun d => (nadd ROps (fst a) (fst d), nadd ROps (snd a) (snd d)))
                          (f (nth_train ROps l (fst p)) (nth_train ROps l (snd p)))))
                  (pairs_of (seq 0 (length l))) (Ok (n0 ROps, n0 ROps))).

Lemma pooled_total_value f l : (forall a b, exists v, f a b = Ok v) ->
  pooled_total f l = Ok (psum (fv1 f) l).
Proof.
  intros Ht. unfold pooled_total. rewrite (pooled_fold f Ht l). cbn [rmap fst snd n0 ROps].
  f_equal.
  rewrite <- !psum_gpairs, <- !train_pairs, !map_map. cbn [fst snd]. lra.
Qed.

Lemma spike_train_order_multi_pooled cy nz mt m l :
  spike_train_order_multi ROps 0 cy false nz mt m l None
  = if nz then pooled_multi (order_impl ROps 0 cy mt m) l
    else pooled_total (order_impl ROps 0 cy mt m) l.
Proof.
  unfold spike_train_order_multi, pooled_multi, pooled_total. cbn [indices_or_all].
  rewrite check_indices_seq. cbn [negb]. destruct nz; reflexivity.
Qed.

(* ------------------------------------------------------------------ *)
(* 7-8. _generic_distance_matrix                                       *)

Lemma sequence_ok {A B} (e : A -> res B) (g : A -> B) : forall js,
  (forall j, In j js -> e j = Ok (g j)) ->
  fold_right (fun j acc => rbind (e j) (fun x => rmap (cons x) acc)) (Ok []) js = Ok (map g js).
Proof.
  induction js as [|j js IH]; intros H; cbn [fold_right map]; [reflexivity|].
  rewrite IH by (intros k Hk; apply H; right; exact Hk).
  rewrite (H j) by (left; reflexivity). reflexivity.
Qed.

(* entry (i, j) of the matrix over all trains of [l] *)
Definition mentry (bi : @train R -> @train R -> res R) (diag : R) (sym : R -> R)
           (l : list (@train R)) (i j : nat) : R :=
  if (i =? j)%nat then diag
  else if (i <? j)%nat then valOf (bi (nth_train ROps l i) (nth_train ROps l j))
       else sym (valOf (bi (nth_train ROps l j) (nth_train ROps l i))).

Definition mmatrix bi diag sym (l : list (@train R)) : list (list R) :=
  map (fun i => map (mentry bi diag sym l i) (seq 0 (length l))) (seq 0 (length l)).

Lemma matrix_gen_value : forall bi diag sym l, (forall a b, exists v, bi a b = Ok v) ->
  matrix_gen ROps 0 bi diag sym false l None = Ok (mmatrix bi diag sym l).
Proof.
  intros bi diag sym l Ht. unfold matrix_gen. cbn [indices_or_all].
  rewrite check_indices_seq. cbn [negb]. rewrite seq_length. unfold mmatrix.
  apply sequence_ok. intros i Hi. apply in_seq in Hi.
  apply sequence_ok. intros j Hj. apply in_seq in Hj.
  unfold mentry. rewrite !seq_nth by lia. cbn [plus].
  destruct (i =? j)%nat; [reflexivity|].
  destruct (i <? j)%nat.
  - destruct (Ht (nth_train ROps l i) (nth_train ROps l j)) as (v & ->). reflexivity.
  - destruct (Ht (nth_train ROps l j) (nth_train ROps l i)) as (v & ->). reflexivity.
Qed.

Lemma mmatrix_nth bi diag sym l i j : (i < length l)%nat -> (j < length l)%nat ->
  nth j (nth i (mmatrix bi diag sym l) []) 0 = mentry bi diag sym l i j.
Proof.
  intros Hi Hj. unfold mmatrix. rewrite nth_map_seq by exact Hi.
  rewrite nth_map_seq by exact Hj. reflexivity.
Qed.

Theorem matrix_gen_entries : forall bi diag sym l, (forall a b, exists v, bi a b = Ok v) ->
  exists M, matrix_gen ROps 0 bi diag sym false l None = Ok M /\ length M = length l /\
    (forall i, (i < length l)%nat -> length (nth i M []) = length l) /\
    (forall i j, (i < length l)%nat -> (j < length l)%nat ->
       nth j (nth i M []) 0 =
         if (i =? j)%nat then diag
         else if (i <? j)%nat then valOf (bi (nth_train ROps l i) (nth_train ROps l j))
              else sym (valOf (bi (nth_train ROps l j) (nth_train ROps l i)))).
Proof.
  intros bi diag sym l Ht. exists (mmatrix bi diag sym l).
  split; [apply matrix_gen_value; exact Ht|]. split; [|split].
  - unfold mmatrix. rewrite map_length, seq_length. reflexivity.
  - intros i Hi. unfold mmatrix. rewrite nth_map_seq by exact Hi.
    rewrite map_length, seq_length. reflexivity.
  - intros i j Hi Hj. rewrite mmatrix_nth by assumption. reflexivity.
Qed.

Lemma mentry_sym bi diag l i j :
  mentry bi diag (fun x => x) l i j = mentry bi diag (fun x => x) l j i.
Proof.
  unfold mentry.
  destruct (Nat.eqb_spec i j) as [->|Hne].
  - rewrite Nat.eqb_refl. reflexivity.
  - destruct (Nat.eqb_spec j i) as [E|_]; [congruence|].
    destruct (Nat.ltb_spec i j), (Nat.ltb_spec j i); try lia; reflexivity.
Qed.

Lemma mentry_antisym bi l i j :
  mentry bi 0 (fun x => 0 - x) l i j = - mentry bi 0 (fun x => 0 - x) l j i.
Proof.
  unfold mentry.
  destruct (Nat.eqb_spec i j) as [->|Hne].
  - rewrite Nat.eqb_refl. lra.
  - destruct (Nat.eqb_spec j i) as [E|_]; [congruence|].
    destruct (Nat.ltb_spec i j), (Nat.ltb_spec j i); try lia; lra.
Qed.

Theorem matrix_gen_symmetric : forall bi diag l, (forall a b, exists v, bi a b = Ok v) ->
  exists M, matrix_gen ROps 0 bi diag (fun x => x) false l None = Ok M /\ length M = length l /\
    (forall i j, (i < length l)%nat -> (j < length l)%nat ->
       nth j (nth i M []) 0 = nth i (nth j M []) 0) /\
    (forall i, (i < length l)%nat -> nth i (nth i M []) 0 = diag).
Proof.
  intros bi diag l Ht. exists (mmatrix bi diag (fun x => x) l).
  split; [apply matrix_gen_value; exact Ht|]. split; [|split].
  - unfold mmatrix. rewrite map_length, seq_length. reflexivity.
  - intros i j Hi Hj. rewrite !mmatrix_nth by assumption. apply mentry_sym.
  - intros i Hi. rewrite mmatrix_nth by assumption. unfold mentry. rewrite Nat.eqb_refl. reflexivity.
Qed.

Theorem matrix_gen_antisymmetric : forall bi l, (forall a b, exists v, bi a b = Ok v) ->
  exists M, matrix_gen ROps 0 bi 0 (fun x => nsub ROps (n0 ROps) x) false l None = Ok M /\
    length M = length l /\
    (forall i j, (i < length l)%nat -> (j < length l)%nat ->
       nth j (nth i M []) 0 = - nth i (nth j M []) 0) /\
    (forall i, (i < length l)%nat -> nth i (nth i M []) 0 = 0).
Proof.
  intros bi l Ht. cbn [nsub n0 ROps]. exists (mmatrix bi 0 (fun x => 0 - x) l).
  split; [apply matrix_gen_value; exact Ht|]. split; [|split].
  - unfold mmatrix. rewrite map_length, seq_length. reflexivity.
  - intros i j Hi Hj. rewrite !mmatrix_nth by assumption. apply mentry_antisym.
  - intros i Hi. rewrite mmatrix_nth by assumption. unfold mentry. rewrite Nat.eqb_refl. reflexivity.
Qed.

(* ------------------------------------------------------------------ *)
(* instances for the API entry points                                  *)

Corollary isi_distance_multi_perm : forall cy m iv l l',
  (forall a b, isi_distance_bi ROps 0 cy false m iv a b = isi_distance_bi ROps 0 cy false m iv b a) ->
  (forall a b, exists v, isi_distance_bi ROps 0 cy false m iv a b = Ok v) ->
  Permutation l l' ->
  isi_distance_multi ROps 0 cy false m iv l None = isi_distance_multi ROps 0 cy false m iv l' None.
Proof. intros cy m iv l l' Hs Ht Hp. unfold isi_distance_multi. apply distance_multi_perm; auto. Qed.

Corollary isi_distance_matrix_symmetric : forall cy m iv l,
  (forall a b, exists v, isi_distance_bi ROps 0 cy false m iv a b = Ok v) ->
  exists M, isi_distance_matrix ROps 0 cy false m iv l None = Ok M /\ length M = length l /\
    (forall i j, (i < length l)%nat -> (j < length l)%nat ->
       nth j (nth i M []) 0 = nth i (nth j M []) 0) /\
    (forall i, (i < length l)%nat -> nth i (nth i M []) 0 = 0).
Proof. intros cy m iv l Ht. unfold isi_distance_matrix. apply (matrix_gen_symmetric _ 0 l Ht). Qed.

Corollary spike_sync_matrix_symmetric : forall cy mt m iv l,
  (forall a b, exists v, spike_sync_bi ROps 0 cy false mt m iv a b = Ok v) ->
  exists M, spike_sync_matrix ROps 0 cy false mt m iv l None = Ok M /\ length M = length l /\
    (forall i j, (i < length l)%nat -> (j < length l)%nat ->
       nth j (nth i M []) 0 = nth i (nth j M []) 0) /\
    (forall i, (i < length l)%nat -> nth i (nth i M []) 0 = 1).
Proof. intros cy mt m iv l Ht. unfold spike_sync_matrix. apply (matrix_gen_symmetric _ 1 l Ht). Qed.

(* spike_directionality never fails, so this one is unconditional *)
Corollary spike_directionality_matrix_antisymmetric : forall cy nz mt m l,
  exists M, spike_directionality_matrix ROps 0 cy false nz mt m l None = Ok M /\
    length M = length l /\
    (forall i j, (i < length l)%nat -> (j < length l)%nat ->
       nth j (nth i M []) 0 = - nth i (nth j M []) 0) /\
    (forall i, (i < length l)%nat -> nth i (nth i M []) 0 = 0).
Proof.
  intros cy nz mt m l. unfold spike_directionality_matrix.
  apply (matrix_gen_antisymmetric (spike_directionality ROps 0 cy false nz mt m) l).
  intros a b. unfold spike_directionality, prep2. eexists. reflexivity.
Qed.

(* ------------------------------------------------------------------ *)
(* _generic_profile_multi: the divide-and-conquer driver on all trains *)

Lemma in_gpairs {A} (l : list A) a b : In (a, b) (gpairs l) -> In a l /\ In b l.
Proof.
  induction l as [|x r IH]; cbn [gpairs]; [intros []|].
  intros H. apply in_app_or in H. destruct H as [H|H].
  - apply in_map_iff in H. destruct H as (y & E & Hy). inversion E; subst. split; [left|right]; auto.
  - destruct (IH H). split; right; auto.
Qed.

Lemma in_pairs_seq n p : In p (pairs_of (seq 0 n)) -> (fst p < n)%nat /\ (snd p < n)%nat.
Proof.
  rewrite pairs_of_gpairs. destruct p as [i j]. intros H. apply in_gpairs in H.
  destruct H as [Hi Hj]. apply in_seq in Hi. apply in_seq in Hj. cbn [fst snd]. lia.
Qed.

Theorem profile_multi_gen_lsum : forall (P : Type) (padd : P -> P -> res P)
    (bi : @train R -> @train R -> res P) (good : P -> Prop) (l : list (@train R)),
  (2 <= length l)%nat ->
  (forall a b, In a l -> In b l -> exists v, bi a b = Ok v /\ good v) ->
  (forall a b, good a -> good b -> exists c, padd a b = Ok c /\ good c) ->
  (forall a b c ab bc, good a -> good b -> good c ->
     padd a b = Ok ab -> padd b c = Ok bc -> padd ab c = padd a bc) ->
  exists v, good v /\
    lsum padd (fun p => bi (nth_train ROps l (fst p)) (nth_train ROps l (snd p)))
         (pairs_of (seq 0 (length l))) = Ok v /\
    profile_multi_gen ROps 0 padd bi false l None
      = Ok (v, length (pairs_of (seq 0 (length l)))).
Proof.
  intros P padd bi good l H2 Hbi Hcl Has.
  set (pf := fun p : nat * nat => bi (nth_train ROps l (fst p)) (nth_train ROps l (snd p))).
  set (ps := pairs_of (seq 0 (length l))).
  assert (Hpf : forall p, In p ps -> exists v, pf p = Ok v /\ good v).
  { intros p Hp. apply in_pairs_seq in Hp. destruct Hp as [H1 H3].
    apply Hbi; apply nth_In; assumption. }
  assert (Hne : ps <> []).
  { intros E. pose proof (pairs_of_seq_pos (length l) H2) as Hpos. fold ps in Hpos.
    rewrite E in Hpos. cbn in Hpos. lia. }
  destruct (lsum_good P padd pf good ps Hpf Hcl ps (incl_refl ps) Hne) as (v & Ev & Gv).
  exists v. split; [exact Gv|]. split; [exact Ev|].
  unfold profile_multi_gen. cbn [indices_or_all]. rewrite check_indices_seq. cbn [negb].
  fold ps. fold pf.
  rewrite (dc_fold_model P padd pf good ps Hpf Hcl Has ps (incl_refl ps) Hne).
  rewrite Ev. reflexivity.
Qed.

(* non-vacuity: the hypotheses of the DC section hold for the reals under addition *)
Example dc_fold_R : forall (g : nat * nat -> R) ps, ps <> [] ->
  dc (fun a b => Ok (a + b)) (fun p => Ok (g p)) (S (length ps)) ps
  = lsum (fun a b => Ok (a + b)) (fun p => Ok (g p)) ps.
Proof.
  intros g ps Hne.
  apply (dc_fold_model R (fun a b => Ok (a + b)) (fun p => Ok (g p)) (fun _ => True) ps);
    auto using incl_refl.
  - intros p _. eexists; split; [reflexivity|exact I].
  - intros a b _ _. eexists; split; [reflexivity|exact I].
  - intros a b c ab bc _ _ _ E1 E2. inversion E1; inversion E2; subst. f_equal. lra.
Qed.

Print Assumptions dc_fold.
Print Assumptions dc_fold_model.
Print Assumptions dc_never_out_of_fuel.
Print Assumptions lsum_perm.
Print Assumptions distance_multi_mean.
Print Assumptions distance_multi_perm.
Print Assumptions sync_multi_perm.
Print Assumptions matrix_gen_entries.
Print Assumptions matrix_gen_symmetric.
Print Assumptions matrix_gen_antisymmetric.
Print Assumptions spike_directionality_matrix_antisymmetric.
Print Assumptions profile_multi_gen_lsum.
