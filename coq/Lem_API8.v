(* Lem_API8.v — C08, time reversal of the MULTIVARIATE PROFILES of ModelAPI.v:
   the profile of the mirrored trains (t -> ts + te - t) is the mirrored profile.
   rc = false (trains valid on one common recording [ts, te]), every index selection,
   both backends.  R instance.
   A mirror reverses the order of the time axis, so the left-to-right merges pwc_add /
   df_add do not commute with it on arbitrary operands (Lem_API6 treats order-preserving
   maps only).  They do on the well-formed profiles the API produces:
   - df_add on "framed" profiles (edge entries = copies of the neighbouring event, or a
     common default pair when there is no event) is a framed profile again, whose events
     are the merge-sum [add_spec_of] of the events — a symmetric description;
   - pwc_add on well-formed profiles over [ts, te] is [pwc_add_spec] (Lem_Pwc), which is
     symmetric as well.
   The divide-and-conquer fold is handled by a relational lemma [dc_rel]. *)
From Coq Require Import List Bool Arith ZArith Reals Lra Lia Sorted Permutation.
Import ListNotations.
From PS Require Import Num RLemmas Valid ModelKernels ModelFuncs ModelAPI Spec SyncDefs.
From PS Require Import Lem_API Lem_API2 Lem_API3 Lem_API4 Lem_API6.
From PS Require Lem_IsiProps Lem_WF Lem_Transform Lem_Transform2 Lem_Multi Lem_Df Lem_Pwc.
Local Open Scope R_scope.
Import Lem_Transform.

Local Notation trainR := (@train R).
Local Notation kx := Lem_Df.kx.
Local Notation ey := Lem_Df.ey.
Local Notation em := Lem_Df.em.

(* ------------------------------------------------------------------ *)
(* 0. the mirrors of the profiles                                       *)

Definition mirror_pwc (ts te : R) (f : @pwc R) : @pwc R :=
  (rev (map (mir ts te) (fst f)), rev (snd f)).
(* times mirrored, values and multiplicities unchanged, entries reversed *)
Definition mirror_df (ts te : R) (f : list (@dentry R)) : list (@dentry R) :=
  rev (map (map_t (mir ts te)) f).
(* the same with the values negated (spike order) *)
Definition mirror_neg_df (ts te : R) (f : list (@dentry R)) : list (@dentry R) :=
  rev (map (gT ts te Ropp) f).

(* ------------------------------------------------------------------ *)
(* 1. divide and conquer, relationally                                  *)

Definition rrel {P Q : Type} (Rel : P -> Q -> Prop) (r : res P) (r' : res Q) : Prop :=
  match r, r' with
  | Ok a, Ok b => Rel a b
  | Err e, Err e' => e = e'
  | _, _ => False
  end.

Section DCR.
  Context {P : Type} (Rel : P -> P -> Prop) (padd : P -> P -> res P).
  Hypothesis Hadd : forall d1 d1' d2 d2', Rel d1 d1' -> Rel d2 d2' -> rrel Rel (padd d1 d2) (padd d1' d2').

  Lemma dc_rel (pf pf' : nat * nat -> res P) : forall fuel ps,
    (forall p, In p ps -> rrel Rel (pf p) (pf' p)) ->
    rrel Rel (dc padd pf fuel ps) (dc padd pf' fuel ps).
  Proof.
    induction fuel as [|k IH]; intros ps Hpf; [reflexivity|].
    destruct ps as [|p [|q ps]]; [reflexivity| |].
    - cbn [dc]. apply Hpf. left; reflexivity.
    - cbn [dc]. cbv zeta.
      set (hh := Nat.div2 (length (p :: q :: ps))).
      assert (H1 := IH (firstn hh (p :: q :: ps)) (fun x Hx => Hpf x (in_firstn6 x _ _ Hx))).
      assert (H2 := IH (skipn hh (p :: q :: ps)) (fun x Hx => Hpf x (in_skipn6 x _ _ Hx))).
      destruct (dc padd pf k (firstn hh (p :: q :: ps))) as [d1|e1],
               (dc padd pf' k (firstn hh (p :: q :: ps))) as [d1'|e1']; cbn [rrel] in H1; try contradiction.
      2:{ cbn [rbind rrel]. exact H1. }
      destruct (dc padd pf k (skipn hh (p :: q :: ps))) as [d2|e2],
               (dc padd pf' k (skipn hh (p :: q :: ps))) as [d2'|e2']; cbn [rrel] in H2; try contradiction.
      2:{ cbn [rbind rrel]. exact H2. }
      cbn [rbind]. apply Hadd; assumption.
  Qed.

  Definition rel_pn (a b : P * nat) : Prop := Rel (fst a) (fst b) /\ snd a = snd b.

  Lemma profile_multi_gen_rel eps (bi bi' : trainR -> trainR -> res P) (gt : trainR -> trainR) l idx :
    (forall a b, In a l -> In b l -> rrel Rel (bi a b) (bi' (gt a) (gt b))) ->
    rrel rel_pn (profile_multi_gen ROps eps padd bi false l idx)
                (profile_multi_gen ROps eps padd bi' false (map gt l) idx).
  Proof.
    intros Hbi. unfold profile_multi_gen. cbv zeta. rewrite map_length.
    set (ix := indices_or_all (length l) idx).
    destruct (check_indices (length l) ix) eqn:Hc; cbn [negb]; [|reflexivity].
    assert (H := dc_rel
             (fun p => bi (nth_train ROps l (fst p)) (nth_train ROps l (snd p)))
             (fun p => bi' (nth_train ROps (map gt l) (fst p)) (nth_train ROps (map gt l) (snd p)))
             (S (length (pairs_of ix))) (pairs_of ix)).
    match type of H with ?A -> _ => assert (HA : A) end.
    { intros p Hp. apply in_pairs_of in Hp as [H1 H2].
      unfold check_indices in Hc. rewrite forallb_forall in Hc.
      apply Hc in H1. apply Hc in H2. apply Nat.ltb_lt in H1, H2.
      rewrite !nth_train_map by assumption.
      apply Hbi; apply nth_train_In; assumption. }
    specialize (H HA).
    destruct (dc padd _ (S (length (pairs_of ix))) (pairs_of ix)) as [d|e],
             (dc padd _ (S (length (pairs_of ix))) (pairs_of ix)) as [d'|e']; cbn [rrel] in H; try contradiction.
    - cbn [rmap rrel]. split; [exact H | reflexivity].
    - cbn [rmap rrel]. exact H.
  Qed.
End DCR.

(* ------------------------------------------------------------------ *)
(* 2. framed discrete profiles                                          *)

Definition val (e : R * R * R) : R * R := (ey e, em e).
Definition ent (t : R) (v : R * R) : R * R * R := (t, fst v, snd v).
(* value pair of the last / first event, or the default pair when there is no event *)
Definition lv (d : R * R) (I : list (R * R * R)) : R * R :=
  match I with [] => d | e0 :: _ => val (last I e0) end.
Definition hv (d : R * R) (I : list (R * R * R)) : R * R :=
  match I with [] => d | e0 :: _ => val e0 end.
Definition frame2 (ts te : R) (d : R * R) (I : list (R * R * R)) : list (R * R * R) :=
  ent ts (hv d I) :: I ++ [ent te (lv d I)].
Definition padd2 (a b : R * R) : R * R := (fst a + fst b, snd a + snd b).

Lemma framed_frame2 ts te E : framed ROps ts te E = frame2 ts te (1, 1) E.
Proof. destruct E; reflexivity. Qed.

Lemma lv_cons d e t : lv d (e :: t) = lv (val e) t.
Proof.
  destruct t as [|e' t']; [reflexivity|]. unfold lv. f_equal.
  change (last (e :: e' :: t') e) with (last (e' :: t') e). apply last_indep. discriminate.
Qed.

Lemma lv_indep d d' M : M <> [] -> lv d M = lv d' M.
Proof. destruct M; [congruence | reflexivity]. Qed.

Lemma hv_hd d I x : I <> [] -> hv d I = val (hd x I).
Proof. destruct I; [congruence | reflexivity]. Qed.

Lemma lv_last d I x : I <> [] -> lv d I = val (last I x).
Proof.
  destruct I as [|e0 r]; [congruence|]. intros _. unfold lv. f_equal. apply last_indep. discriminate.
Qed.

(* what df_add appends after the merge loop *)
Definition tailf (fl gl : R * R * R) (r1 r2 : list (R * R * R)) : list (R * R * R) :=
  match r1, r2 with
  | _ :: _, _ => r1 ++ [fl]
  | [], _ :: _ => r2 ++ [gl]
  | [], [] => [(d_x fl, nadd ROps (d_y fl) (d_y gl), nadd ROps (d_mp fl) (d_mp gl))]
  end.

Lemma df_add_unfold (f0 fl g0 gl : R * R * R) I1 I2 :
  df_add ROps (f0 :: I1 ++ [fl]) (g0 :: I2 ++ [gl]) =
  if negb (Reqb (kx f0) (kx g0)) then Err AssertionError
  else if negb (Reqb (kx fl) (kx gl)) then Err AssertionError
  else
    let '(out, (r1, r2)) :=
      df_add_loop ROps (length (f0 :: I1 ++ [fl]) + length (g0 :: I2 ++ [gl])) I1 I2 in
    match out ++ tailf fl gl r1 r2 with
    | b0 :: _ => Ok ((kx f0, ey b0, em b0) :: out ++ tailf fl gl r1 r2)
    | [] => Err IndexError
    end.
Proof.
  unfold df_add. rewrite !rev_unit, !removelast_last.
  destruct (df_add_loop ROps _ I1 I2) as [out [r1 r2]]. reflexivity.
Qed.

Lemma good_ne ev m (e : R * R * R) : Lem_Df.good ev m -> In e ev -> m <> [].
Proof.
  intros (_ & HI & _) He C. subst m. apply (proj2 (HI (kx e))). apply in_map; exact He.
Qed.

Lemma loop_body : forall fuel I1 I2 out r1 r2 d1 d2 t,
  (length I1 + length I2 <= fuel)%nat -> ssorted (map kx I1) -> ssorted (map kx I2) ->
  df_add_loop ROps fuel I1 I2 = (out, (r1, r2)) ->
  out ++ tailf (ent t (lv d1 I1)) (ent t (lv d2 I2)) r1 r2
  = (out ++ r1 ++ r2) ++ [ent t (lv (padd2 d1 d2) (out ++ r1 ++ r2))].
Proof.
  induction fuel as [|k IH]; intros I1 I2 out r1 r2 d1 d2 t HL S1 S2 E.
  - destruct I1; [|cbn [length] in HL; lia]. destruct I2; [|cbn [length] in HL; lia].
    cbn in E. inversion E; subst. reflexivity.
  - cbn [df_add_loop] in E.
    destruct I1 as [|e1 t1].
    { destruct I2 as [|e2 t2]; inversion E; subst; reflexivity. }
    destruct I2 as [|e2 t2].
    { inversion E; subst. cbn [app tailf]. rewrite ?app_nil_r. reflexivity. }
    cbn [length] in HL. cbn [map] in S1, S2.
    destruct (ssorted_cons_inv _ _ S1) as [S1' F1]. destruct (ssorted_cons_inv _ _ S2) as [S2' F2].
    cbn [nltb ROps] in E. change (@dentry R) with (R * R * R)%type in *.
    destruct (Rltb (d_x e1) (d_x e2)).
    + destruct (df_add_loop ROps k t1 (e2 :: t2)) as [out' [r1' r2']] eqn:E'.
      inversion E; subst out r1' r2'. change (@dentry R) with (R * R * R)%type in *.
      assert (HL' : (length t1 + length (e2 :: t2) <= k)%nat) by (cbn [length]; lia).
      destruct (Lem_Df.loop_good k t1 (e2 :: t2) out' r1 r2 HL' S1' S2 E') as [_ Hg].
      assert (NE : out' ++ r1 ++ r2 <> []).
      { apply (good_ne _ _ e2 Hg). apply in_or_app. right. left. reflexivity. }
      specialize (IH t1 (e2 :: t2) out' r1 r2 (val e1) d2 t HL' S1' S2 E').
      rewrite (lv_cons d1 e1 t1). cbn [app].
      rewrite (lv_cons (padd2 d1 d2) e1 (out' ++ r1 ++ r2)).
      rewrite (lv_indep (val e1) (padd2 (val e1) d2) _ NE). f_equal. exact IH.
    + destruct (Rltb (d_x e2) (d_x e1)).
      * destruct (df_add_loop ROps k (e1 :: t1) t2) as [out' [r1' r2']] eqn:E'.
        inversion E; subst out r1' r2'. change (@dentry R) with (R * R * R)%type in *.
        assert (HL' : (length (e1 :: t1) + length t2 <= k)%nat) by (cbn [length]; lia).
        destruct (Lem_Df.loop_good k (e1 :: t1) t2 out' r1 r2 HL' S1 S2' E') as [_ Hg].
        assert (NE : out' ++ r1 ++ r2 <> []).
        { apply (good_ne _ _ e1 Hg). left. reflexivity. }
        specialize (IH (e1 :: t1) t2 out' r1 r2 d1 (val e2) t HL' S1 S2' E').
        rewrite (lv_cons d2 e2 t2). cbn [app].
        rewrite (lv_cons (padd2 d1 d2) e2 (out' ++ r1 ++ r2)).
        rewrite (lv_indep (val e2) (padd2 d1 (val e2)) _ NE). f_equal. exact IH.
      * destruct (df_add_loop ROps k t1 t2) as [out' [r1' r2']] eqn:E'.
        inversion E; subst out r1' r2'. change (@dentry R) with (R * R * R)%type in *.
        assert (HL' : (length t1 + length t2 <= k)%nat) by lia.
        specialize (IH t1 t2 out' r1 r2 (val e1) (val e2) t HL' S1' S2' E').
        rewrite (lv_cons d1 e1 t1), (lv_cons d2 e2 t2). cbn [app].
        rewrite lv_cons. f_equal. exact IH.
Qed.

(* df_add of two framed profiles: the frame of the merge-sum of the events *)
Lemma df_add_frame ts te d1 d2 I1 I2 : ssorted (map kx I1) -> ssorted (map kx I2) ->
  df_add ROps (frame2 ts te d1 I1) (frame2 ts te d2 I2)
  = Ok (frame2 ts te (padd2 d1 d2) (Lem_Df.add_spec_of (I1 ++ I2))).
Proof.
  intros S1 S2. unfold frame2. rewrite df_add_unfold.
  change (kx (ent ts (hv d1 I1))) with ts. change (kx (ent ts (hv d2 I2))) with ts.
  change (kx (ent te (lv d1 I1))) with te. change (kx (ent te (lv d2 I2))) with te.
  rewrite !Lem_WF.Reqb_refl. cbn [negb].
  match goal with |- context [df_add_loop ROps ?n I1 I2] =>
    destruct (df_add_loop ROps n I1 I2) as [out [r1 r2]] eqn:E;
    assert (HL : (length I1 + length I2 <= n)%nat) by (cbn [length]; rewrite !app_length; lia)
  end.
  destruct (Lem_Df.loop_good _ _ _ _ _ _ HL S1 S2 E) as [_ Hg]. apply Lem_Df.good_spec in Hg.
  rewrite (loop_body _ _ _ _ _ _ d1 d2 te HL S1 S2 E), Hg.
  destruct (Lem_Df.add_spec_of (I1 ++ I2)) as [|m0 M]; reflexivity.
Qed.

(* ------------------------------------------------------------------ *)
(* 3. the mirror of a framed profile, values through an additive map h  *)

Section DFM.
  Variables ts te : R.
  Variable h : R -> R.
  Hypothesis Hh : forall a b, h (a + b) = h a + h b.

  Local Notation mr := (mir ts te).
  Local Notation G := (gT ts te h).
  Definition h2 (d : R * R) : R * R := (h (fst d), snd d).

  Lemma h_0 : h 0 = 0.
  Proof. pose proof (Hh 0 0) as H. rewrite Rplus_0_r in H. lra. Qed.

  Lemma val_G e : val (G e) = h2 (val e).
  Proof. reflexivity. Qed.
  Lemma G_ent t v : G (ent t v) = ent (mr t) (h2 v).
  Proof. reflexivity. Qed.

  Lemma revG_ne e0 r : rev (map G (e0 :: r)) <> [].
  Proof. cbn [map rev]. intros C. apply app_eq_nil in C as [_ C]. discriminate. Qed.

  Lemma hv_mirror d I : hv (h2 d) (rev (map G I)) = h2 (lv d I).
  Proof.
    destruct I as [|e0 r]; [reflexivity|].
    rewrite (hv_hd _ _ (G e0) (revG_ne e0 r)), hd_rev, last_map', val_G. reflexivity.
  Qed.

  Lemma lv_mirror d I : lv (h2 d) (rev (map G I)) = h2 (hv d I).
  Proof.
    destruct I as [|e0 r]; [reflexivity|].
    rewrite (lv_last _ _ (G e0) (revG_ne e0 r)), last_rev. cbn [map hd]. apply val_G.
  Qed.

  Lemma mirror_frame2 d I :
    rev (map G (frame2 ts te d I)) = frame2 ts te (h2 d) (rev (map G I)).
  Proof.
    unfold frame2. cbn [map rev]. rewrite map_app, rev_app_distr. cbn [map rev app].
    rewrite !G_ent, mir_ts, mir_te, hv_mirror, lv_mirror. reflexivity.
  Qed.

  Lemma map_kx_revG l : map kx (rev (map G l)) = mirror_train ts te (map kx l).
  Proof. unfold mirror_train. rewrite map_rev, !map_map. reflexivity. Qed.

  Lemma ssorted_revG l : ssorted (map kx l) -> ssorted (map kx (rev (map G l))).
  Proof. intros S. rewrite map_kx_revG. apply ssorted_mirror; exact S. Qed.

  Lemma Sg_ey_G t l : Lem_Df.Sg ey (mr t) (map G l) = h (Lem_Df.Sg ey t l).
  Proof.
    induction l as [|a l IH]; cbn [map Lem_Df.Sg]; [symmetry; apply h_0|].
    change (kx (G a)) with (mr (kx a)). rewrite Reqb_mir, IH.
    destruct (Reqb (kx a) t); [|reflexivity].
    change (ey (G a)) with (h (ey a)). symmetry; apply Hh.
  Qed.

  Lemma Sg_em_G t l : Lem_Df.Sg em (mr t) (map G l) = Lem_Df.Sg em t l.
  Proof.
    induction l as [|a l IH]; cbn [map Lem_Df.Sg]; [reflexivity|].
    change (kx (G a)) with (mr (kx a)). rewrite Reqb_mir, IH. reflexivity.
  Qed.

  Lemma good_mirror ev m : Lem_Df.good ev m -> Lem_Df.good (rev (map G ev)) (rev (map G m)).
  Proof.
    intros (HS & HI & HF). split; [|split].
    - apply ssorted_revG; exact HS.
    - intros t. rewrite !map_kx_revG, !In_mirror. apply HI.
    - apply Forall_forall. intros e' He'. apply in_rev, in_map_iff in He' as (e & <- & He).
      rewrite Forall_forall in HF. destruct (HF e He) as [Hy Hm].
      rewrite <- !(Lem_Df.Sg_perm _ _ _ _ (Permutation_rev (map G ev))).
      change (kx (G e)) with (mr (kx e)). rewrite Sg_ey_G, Sg_em_G.
      change (ey (G e)) with (h (ey e)). change (em (G e)) with (em e).
      rewrite Hy, Hm. split; reflexivity.
  Qed.

  Lemma add_spec_mirror I1 I2 :
    Lem_Df.add_spec_of (rev (map G I1) ++ rev (map G I2))
    = rev (map G (Lem_Df.add_spec_of (I1 ++ I2))).
  Proof.
    symmetry. apply Lem_Df.good_spec.
    eapply Lem_Df.good_perm; [|apply good_mirror, Lem_Df.add_spec_of_good].
    rewrite map_app, rev_app_distr. apply Permutation_app_comm.
  Qed.

  Lemma h2_padd2 a b : h2 (padd2 a b) = padd2 (h2 a) (h2 b).
  Proof. unfold h2, padd2. cbn [fst snd]. rewrite Hh. reflexivity. Qed.

  (* the relation kept by the divide-and-conquer sum: same default pair, mirrored events *)
  Definition RelDf (f f' : list (R * R * R)) : Prop :=
    exists d I, ssorted (map kx I) /\ f = frame2 ts te d I /\ f' = frame2 ts te d (rev (map G I)).

  Lemma RelDf_add f f' g g' : RelDf f f' -> RelDf g g' ->
    rrel RelDf (df_add ROps f g) (df_add ROps f' g').
  Proof.
    intros (d1 & I1 & S1 & -> & ->) (d2 & I2 & S2 & -> & ->).
    rewrite (df_add_frame ts te d1 d2 I1 I2 S1 S2).
    rewrite (df_add_frame ts te d1 d2 _ _ (ssorted_revG I1 S1) (ssorted_revG I2 S2)).
    rewrite add_spec_mirror. cbn [rrel].
    exists (padd2 d1 d2), (Lem_Df.add_spec_of (I1 ++ I2)). split; [|split; reflexivity].
    apply Lem_Df.add_spec_of_good.
  Qed.

  Lemma frame2_indep d d' I : I <> [] -> frame2 ts te d I = frame2 ts te d' I.
  Proof. destruct I; [congruence | reflexivity]. Qed.

  (* with at least one event the related profile is the mirror ... *)
  Lemma RelDf_mirror_ne f f' : RelDf f f' -> removelast (tl f) <> [] -> f' = rev (map G f).
  Proof.
    intros (d & I & S & -> & ->) C. rewrite mirror_frame2.
    destruct I as [|e0 r]; [exfalso; apply C; reflexivity|].
    apply frame2_indep, revG_ne.
  Qed.

  (* ... and always when h is the identity *)
  Lemma RelDf_mirror_id f f' : (forall x, h x = x) -> RelDf f f' -> f' = rev (map G f).
  Proof.
    intros C (d & I & S & -> & ->). rewrite mirror_frame2.
    destruct d as [a b]. unfold h2. cbn [fst snd]. rewrite C. reflexivity.
  Qed.

  (* in every case the events (interior entries) are mirrored *)
  Lemma RelDf_interior f f' : RelDf f f' ->
    removelast (tl f') = rev (map G (removelast (tl f)))
    /\ (removelast (tl f) = [] -> f' = f).
  Proof.
    intros (d & I & S & -> & ->). unfold frame2. cbn [tl]. rewrite !removelast_last.
    split; [reflexivity|]. intros ->. reflexivity.
  Qed.
End DFM.

(* ------------------------------------------------------------------ *)
(* 4. the pair profiles of SPIKE-Sync and spike order are framed and mirror *)

Lemma event_entries_sorted v1 v2 vb s1 s2 : ssorted (map kx (event_entries ROps v1 v2 vb s1 s2)).
Proof. rewrite Lem_WF.event_entries_keys. apply Lem_Pwc.sort_unique_sorted. Qed.

Lemma sync_bi_rel eps cy mt m ts te (a b : trainR) : vtrain ts te a -> vtrain ts te b ->
  RelDf ts te (fun x => x) (spike_sync_profile_bi ROps eps cy false mt m a b)
        (spike_sync_profile_bi ROps eps cy false mt m (mirror_tr a) (mirror_tr b)).
Proof.
  intros Va Vb.
  rewrite (Lem_WF.sync_bi_spec eps cy false mt m ts te _ _ (Lem_WF.rc_ok_false eps)
             (vtrain_mirror ts te a Va) (vtrain_mirror ts te b Vb)).
  rewrite (Lem_WF.sync_bi_spec eps cy false mt m ts te a b (Lem_WF.rc_ok_false eps) Va Vb).
  rewrite (spikes_mirror ts te a Va), (spikes_mirror ts te b Vb).
  pose proof Va as (V1 & _ & _). pose proof Vb as (V2 & _ & _).
  rewrite (sync_spec_mirror ts te _ _ mt m V1 V2).
  unfold sync_spec. cbv zeta. rewrite framed_frame2.
  eexists (1, 1), _. split; [apply event_entries_sorted|]. split; [reflexivity|].
  exact (mirror_frame2 ts te (fun x => x) (1, 1) _).
Qed.

Lemma order_bi_rel eps cy mt m ts te (a b : trainR) : vtrain ts te a -> vtrain ts te b ->
  rrel (RelDf ts te Ropp) (order_profile_bi ROps eps cy false mt m a b)
       (order_profile_bi ROps eps cy false mt m (mirror_tr a) (mirror_tr b)).
Proof.
  intros Va Vb.
  rewrite (Lem_WF.order_bi_spec eps cy false mt m ts te _ _ (Lem_WF.rc_ok_false eps)
             (vtrain_mirror ts te a Va) (vtrain_mirror ts te b Vb)).
  rewrite (Lem_WF.order_bi_spec eps cy false mt m ts te a b (Lem_WF.rc_ok_false eps) Va Vb).
  rewrite (spikes_mirror ts te a Va), (spikes_mirror ts te b Vb).
  pose proof Va as ((_ & S1 & _) & _ & _). pose proof Vb as ((_ & S2 & _) & _ & _).
  cbn [rrel]. unfold order_spec. cbv zeta.
  pose proof (order_entries_mirror ts te _ _ mt m S1 S2) as HE. cbv zeta in HE. rewrite HE.
  rewrite !framed_frame2.
  eexists (1, 1), _. split; [apply event_entries_sorted|]. split; reflexivity.
Qed.

(* ------------------------------------------------------------------ *)
(* 5. multivariate SPIKE-Sync profile                                   *)

Theorem sync_profile_multi_mirror : forall eps cy mt m l idx ts te, Forall (vtrain ts te) l ->
  spike_sync_profile_multi ROps eps cy false mt m (map mirror_tr l) idx
  = rmap (mirror_df ts te) (spike_sync_profile_multi ROps eps cy false mt m l idx).
Proof.
  intros eps cy mt m l idx ts te HF. unfold spike_sync_profile_multi.
  match goal with |- rmap fst ?B = rmap _ (rmap fst ?A) =>
    assert (H : rrel (rel_pn (RelDf ts te (fun x => x))) A B) end.
  { apply (profile_multi_gen_rel (RelDf ts te (fun x => x)) (df_add ROps)
             (RelDf_add ts te (fun x => x) (fun _ _ => eq_refl))).
    intros a b Ha Hb. cbn [rrel]. apply sync_bi_rel; eapply Forall_In_v; eassumption. }
  match goal with |- rmap fst ?B = rmap _ (rmap fst ?A) =>
    destruct A as [[p n]|e], B as [[p' n']|e'] end; cbn [rrel] in H; try contradiction.
  - destruct H as [H _]. cbn [fst] in H. cbn [rmap fst]. f_equal.
    exact (RelDf_mirror_id ts te (fun x => x) p p' (fun _ => eq_refl) H).
  - cbn [rmap]. f_equal. symmetry; exact H.
Qed.

(* ------------------------------------------------------------------ *)
(* 6. multivariate spike-order profile: mirrored and negated            *)

(* the two results are framed profiles with the same default pair and mirrored,
   negated events; errors coincide *)
Theorem order_profile_multi_mirror_rel : forall eps cy mt m l idx ts te, Forall (vtrain ts te) l ->
  rrel (RelDf ts te Ropp) (order_profile_multi ROps eps cy false mt m l idx)
       (order_profile_multi ROps eps cy false mt m (map mirror_tr l) idx).
Proof.
  intros eps cy mt m l idx ts te HF. unfold order_profile_multi.
  match goal with |- rrel _ (rmap fst ?A) (rmap fst ?B) =>
    assert (H : rrel (rel_pn (RelDf ts te Ropp)) A B) end.
  { apply (profile_multi_gen_rel (RelDf ts te Ropp) (df_add ROps)
             (RelDf_add ts te Ropp Ropp_plus_distr)).
    intros a b Ha Hb. apply order_bi_rel; eapply Forall_In_v; eassumption. }
  match goal with |- rrel _ (rmap fst ?A) (rmap fst ?B) =>
    destruct A as [[p n]|e], B as [[p' n']|e'] end; cbn [rrel] in H; try contradiction.
  - destruct H as [H _]. exact H.
  - exact H.
Qed.

(* as soon as the summed profile has one event: the whole profile, edges included *)
Theorem order_profile_multi_mirror : forall eps cy mt m l idx ts te P, Forall (vtrain ts te) l ->
  order_profile_multi ROps eps cy false mt m l idx = Ok P -> removelast (tl P) <> [] ->
  order_profile_multi ROps eps cy false mt m (map mirror_tr l) idx = Ok (mirror_neg_df ts te P).
Proof.
  intros eps cy mt m l idx ts te P HF E NE.
  pose proof (order_profile_multi_mirror_rel eps cy mt m l idx ts te HF) as H. rewrite E in H.
  destruct (order_profile_multi ROps eps cy false mt m (map mirror_tr l) idx) as [P'|e];
    cbn [rrel] in H; [|contradiction].
  f_equal. exact (RelDf_mirror_ne ts te Ropp P P' H NE).
Qed.

(* in general (no hypothesis on the events): the events are mirrored and negated; without
   any event the two profiles are EQUAL (edge values +k, not negated) *)
Theorem order_profile_multi_mirror_partial : forall eps cy mt m l idx ts te, Forall (vtrain ts te) l ->
  match order_profile_multi ROps eps cy false mt m l idx,
        order_profile_multi ROps eps cy false mt m (map mirror_tr l) idx with
  | Ok P, Ok P' =>
      removelast (tl P') = rev (map (gT ts te Ropp) (removelast (tl P)))
      /\ (removelast (tl P) <> [] -> P' = mirror_neg_df ts te P)
      /\ (removelast (tl P) = [] -> P' = P)
  | Err e, Err e' => e = e'
  | _, _ => False
  end.
Proof.
  intros eps cy mt m l idx ts te HF.
  pose proof (order_profile_multi_mirror_rel eps cy mt m l idx ts te HF) as H.
  destruct (order_profile_multi ROps eps cy false mt m l idx) as [P|e],
           (order_profile_multi ROps eps cy false mt m (map mirror_tr l) idx) as [P'|e'];
    cbn [rrel] in H; try contradiction; [|exact H].
  destruct (RelDf_interior ts te Ropp P P' H) as [H1 H2].
  split; [exact H1|]. split; [|exact H2].
  intros NE. exact (RelDf_mirror_ne ts te Ropp P P' H NE).
Qed.

(* ------------------------------------------------------------------ *)
(* 7. piecewise constant profiles: pwc_add_spec is mirror-symmetric     *)

Section PWCM.
  Variables ts te : R.
  Local Notation mr := (mir ts te).
  Local Notation mtr := (mirror_train ts te).

  (* a piece (a, b) becomes (mir b, mir a) *)
  Definition sw (q : R * R) : R * R := (mr (snd q), mr (fst q)).

  Lemma pieces_snoc (l : list R) a b : pieces (l ++ [a; b]) = pieces (l ++ [a]) ++ [(a, b)].
  Proof.
    induction l as [|x l IH]; [reflexivity|].
    destruct l as [|y l']; [reflexivity|].
    change ((x :: y :: l') ++ [a; b]) with (x :: y :: (l' ++ [a; b])).
    change ((x :: y :: l') ++ [a]) with (x :: y :: (l' ++ [a])).
    rewrite !Lem_Pwc.pieces_cons2.
    change (y :: l' ++ [a; b]) with ((y :: l') ++ [a; b]). rewrite IH. reflexivity.
  Qed.

  Lemma pieces_mirror (B : list R) : pieces (mtr B) = rev (map sw (pieces B)).
  Proof.
    unfold mirror_train. induction B as [|a B IH]; [reflexivity|].
    destruct B as [|b r]; [reflexivity|].
    rewrite Lem_Pwc.pieces_cons2. cbn [map rev] in *.
    rewrite <- app_assoc. cbn [app]. rewrite pieces_snoc, IH. reflexivity.
  Qed.

  Lemma mid_sw q : mid ROps (sw q) = mr (mid ROps q).
  Proof. destruct q as [a b]. unfold sw. cbn [fst snd]. rewrite !Lem_Pwc.mid_R. unfold mir. lra. Qed.

  Lemma pwc_at_snoc : forall (xs ys : list R) a b y t, length xs = length ys ->
    pwc_at ROps (xs ++ [a; b]) (ys ++ [y]) t
    = match pwc_at ROps (xs ++ [a]) ys t with
      | Some v => Some v
      | None => if Rltb a t && Rltb t b then Some y else None
      end.
  Proof.
    induction xs as [|x xs IH]; intros ys a b y t HL.
    - destruct ys; [|discriminate]. cbn [app]. rewrite Lem_Pwc.pwc_at_cons2.
      destruct (Rltb a t && Rltb t b); reflexivity.
    - destruct ys as [|y0 ys]; [discriminate|]. cbn [length] in HL.
      destruct xs as [|x1 xs'].
      + destruct ys; [|discriminate]. cbn [app]. rewrite !Lem_Pwc.pwc_at_cons2.
        destruct (Rltb x t && Rltb t a); [reflexivity|].
        destruct (Rltb a t && Rltb t b); reflexivity.
      + change ((x :: x1 :: xs') ++ [a; b]) with (x :: x1 :: (xs' ++ [a; b])).
        change ((x :: x1 :: xs') ++ [a]) with (x :: x1 :: (xs' ++ [a])).
        change ((y0 :: ys) ++ [y]) with (y0 :: (ys ++ [y])).
        rewrite !Lem_Pwc.pwc_at_cons2.
        destruct (Rltb x t && Rltb t x1); [reflexivity|].
        change (x1 :: xs' ++ [a; b]) with ((x1 :: xs') ++ [a; b]).
        change (x1 :: xs' ++ [a]) with ((x1 :: xs') ++ [a]).
        apply IH. lia.
  Qed.

  Lemma pwc_at_none_ge (xs : list R) : forall ys t, Forall (fun x => t <= x) xs -> pwc_at ROps xs ys t = None.
  Proof.
    induction xs as [|a xs IH]; intros ys t HF; [reflexivity|].
    destruct xs as [|b r]; [destruct ys; reflexivity|]. destruct ys as [|y ys]; [reflexivity|].
    rewrite Lem_Pwc.pwc_at_cons2. inversion HF as [|? ? Ha HF']; subst.
    destruct (Rltb_spec a t) as [H|_]; [lra|]. cbn [andb]. apply IH; exact HF'.
  Qed.

  Lemma pwc_at_mirror (xs : list R) : forall ys t, ssorted xs -> length xs = S (length ys) ->
    pwc_at ROps (rev (map mr xs)) (rev ys) (mr t) = pwc_at ROps xs ys t.
  Proof.
    induction xs as [|x0 xs IH]; intros ys t S HL; [discriminate|].
    destruct xs as [|x1 r].
    { destruct ys; [reflexivity|discriminate]. }
    destruct ys as [|y0 ys]; [discriminate|]. cbn [length] in HL.
    pose proof (Lem_Pwc.ssorted_tl _ _ S) as S1.
    specialize (IH ys t S1 ltac:(cbn [length]; lia)).
    rewrite Lem_Pwc.pwc_at_cons2.
    change (rev (map mr (x0 :: x1 :: r))) with ((rev (map mr r) ++ [mr x1]) ++ [mr x0]).
    rewrite <- app_assoc. cbn [app rev].
    rewrite pwc_at_snoc by (rewrite !rev_length, map_length; lia).
    change (rev (map mr r) ++ [mr x1]) with (rev (map mr (x1 :: r))). rewrite IH, !Rltb_mir.
    destruct (Rltb_spec x0 t) as [H0|H0]; destruct (Rltb_spec t x1) as [H1|H1]; cbn [andb];
      try (destruct (pwc_at ROps (x1 :: r) ys t); reflexivity).
    rewrite pwc_at_none_ge; [reflexivity|].
    pose proof (Lem_Pwc.ssorted_hd_le _ _ S1) as Hb.
    eapply Forall_impl; [|exact Hb]. cbn. intros z Hz. lra.
  Qed.

  Lemma pwc_add_spec_mirror f g : wf_pwc f -> wf_pwc g ->
    pwc_add_spec ROps (mirror_pwc ts te f) (mirror_pwc ts te g)
    = mirror_pwc ts te (pwc_add_spec ROps f g).
  Proof.
    intros [[Sf _] Lf] [[Sg _] Lg]. rewrite !Lem_Pwc.pwc_add_spec_unfold.
    change (fst (mirror_pwc ts te f)) with (mtr (fst f)).
    change (fst (mirror_pwc ts te g)) with (mtr (fst g)).
    rewrite (su_mirror_gen ts te (fst f ++ fst g) (mtr (fst f) ++ mtr (fst g))).
    2:{ intros x. rewrite !in_app_iff, !In_mirror. tauto. }
    set (B := sort_unique ROps (fst f ++ fst g)).
    change (mirror_pwc ts te (B, map (Lem_Pwc.addval f g) (pieces B)))
      with (mtr B, rev (map (Lem_Pwc.addval f g) (pieces B))).
    f_equal. rewrite pieces_mirror, map_rev, map_map. f_equal.
    apply map_ext. intros q. unfold Lem_Pwc.addval. rewrite mid_sw.
    unfold mirror_pwc. cbn [fst snd]. rewrite !pwc_at_mirror by assumption. reflexivity.
  Qed.

  Lemma good_pwc_mirror f : Lem_WF.good_pwc ts te f -> Lem_WF.good_pwc ts te (mirror_pwc ts te f).
  Proof.
    intros ([[Sf L2] Lf] & F0 & FL). unfold Lem_WF.good_pwc, wf_pwc, wf_x, mirror_pwc. cbn [fst snd].
    rewrite !rev_length, map_length.
    split; [split; [split; [apply (ssorted_mirror ts te); exact Sf | exact L2] | exact Lf]|].
    destruct (fst f) as [|x xs] eqn:Ex; [cbn [length] in L2; lia|].
    rewrite nthF0_hd in *. unfold lastF in *. cbn [n0 ROps hd] in *. split.
    - rewrite hd_rev. rewrite (last_indep (map mr (x :: xs)) 0 (mr 0)) by discriminate.
      rewrite last_map', FL. apply mir_te.
    - rewrite last_rev. cbn [map hd]. rewrite F0. apply mir_ts.
  Qed.

  Definition RelPwc (f f' : @pwc R) : Prop := Lem_WF.good_pwc ts te f /\ f' = mirror_pwc ts te f.

  Lemma RelPwc_add f f' g g' : RelPwc f f' -> RelPwc g g' ->
    rrel RelPwc (pwc_add ROps f g) (pwc_add ROps f' g').
  Proof.
    intros [Gf ->] [Gg ->].
    pose proof (good_pwc_mirror f Gf) as (Wf' & F0' & FL').
    pose proof (good_pwc_mirror g Gg) as (Wg' & G0' & GL').
    destruct (Lem_WF.good_pwc_add ts te f g Gf Gg) as (hh & E & Gh).
    pose proof Gf as (Wf & F0 & FL). pose proof Gg as (Wg & G0 & GL).
    rewrite (Lem_Pwc.pwc_add_eq_spec f g Wf Wg) in E by congruence. injection E as <-.
    rewrite (Lem_Pwc.pwc_add_eq_spec f g Wf Wg) by congruence.
    rewrite (Lem_Pwc.pwc_add_eq_spec _ _ Wf' Wg') by congruence.
    cbn [rrel]. split; [exact Gh|]. apply pwc_add_spec_mirror; assumption.
  Qed.

  Lemma pwc_mul_mirror f c : pwc_mul ROps (mirror_pwc ts te f) c = mirror_pwc ts te (pwc_mul ROps f c).
  Proof. unfold pwc_mul, mirror_pwc. cbn [fst snd]. rewrite map_rev. reflexivity. Qed.
End PWCM.

(* ------------------------------------------------------------------ *)
(* 8. multivariate ISI profile                                          *)

Lemma isi_bi_mirror eps cy m ts te (a b : trainR) : vtrain ts te a -> vtrain ts te b ->
  isi_profile_bi ROps eps cy false m (mirror_tr a) (mirror_tr b)
  = mirror_pwc ts te (isi_profile_bi ROps eps cy false m a b).
Proof.
  intros Va Vb.
  rewrite (isi_bi_py eps cy m ts te _ _ (vtrain_mirror ts te a Va) (vtrain_mirror ts te b Vb)).
  rewrite (isi_bi_py eps cy m ts te a b Va Vb).
  rewrite (sne_mirror ts te a Va), (sne_mirror ts te b Vb).
  rewrite (spikes_non_empty_eff Va), (spikes_non_empty_eff Vb).
  pose proof Va as (V1 & _ & _). pose proof Vb as (V2 & _ & _).
  rewrite (Lem_Transform2.isi_profile_mirror _ _ ts te m V1 V2). reflexivity.
Qed.

Theorem isi_profile_multi_mirror : forall eps cy m l idx ts te, Forall (vtrain ts te) l ->
  isi_profile_multi ROps eps cy false m (map mirror_tr l) idx
  = rmap (mirror_pwc ts te) (isi_profile_multi ROps eps cy false m l idx).
Proof.
  intros eps cy m l idx ts te HF. unfold isi_profile_multi.
  match goal with |- rmap _ ?B = rmap _ (rmap _ ?A) =>
    assert (H : rrel (rel_pn (RelPwc ts te)) A B) end.
  { apply (profile_multi_gen_rel (RelPwc ts te) (pwc_add ROps) (RelPwc_add ts te)).
    intros a b Ha Hb. cbn [rrel].
    assert (Va := Forall_In_v ts te l a HF Ha). assert (Vb := Forall_In_v ts te l b HF Hb).
    split; [apply Lem_WF.isi_profile_bi_wf; auto using Lem_WF.rc_ok_false|].
    apply isi_bi_mirror; assumption. }
  match goal with |- rmap _ ?B = rmap _ (rmap _ ?A) =>
    destruct A as [[p n]|e], B as [[p' n']|e'] end; cbn [rrel] in H; try contradiction.
  - destruct H as [[_ H] Hn]. cbn [fst snd] in H, Hn. subst p' n'. cbn [rmap fst snd]. f_equal.
    apply pwc_mul_mirror.
  - cbn [rmap]. f_equal. symmetry; exact H.
Qed.

(* ------------------------------------------------------------------ *)
(* 9. piecewise linear profiles: left and right limits exchanged        *)

Definition mirror_pwl (ts te : R) (f : @pwl R) : @pwl R :=
  (rev (map (mir ts te) (fst (fst f))), rev (snd f), rev (snd (fst f))).

Section PWLM.
  Variables ts te : R.
  Local Notation mr := (mir ts te).
  Local Notation mtr := (mirror_train ts te).

  Lemma lin_mirror a b ya yb t : a < b -> lin ROps (mr b) (mr a) yb ya (mr t) = lin ROps a b ya yb t.
  Proof. intros H. rewrite !Lem_Pwl.lin_R. unfold mir. field. lra. Qed.

  Lemma nleb_mir a b : nleb ROps (mr a) (mr b) = nleb ROps b a.
  Proof. rewrite !R_nleb, Rltb_mir. reflexivity. Qed.

  Lemma pwl_right_snoc : forall (xs y1 y2 : list R) a b ya yb t,
    length xs = length y1 -> length xs = length y2 ->
    pwl_right ROps (xs ++ [a; b]) (y1 ++ [ya]) (y2 ++ [yb]) t
    = match pwl_right ROps (xs ++ [a]) y1 y2 t with
      | Some v => Some v
      | None => if nleb ROps a t && Rltb t b then Some (lin ROps a b ya yb t) else None
      end.
  Proof.
    induction xs as [|x xs IH]; intros y1 y2 a b ya yb t H1 H2.
    - destruct y1; [|discriminate]. destruct y2; [|discriminate]. cbn [app].
      rewrite Lem_Pwl.pwl_right_cons. destruct (nleb ROps a t && Rltb t b); reflexivity.
    - destruct y1 as [|u y1]; [discriminate|]. destruct y2 as [|w y2]; [discriminate|].
      cbn [length] in H1, H2. destruct xs as [|x1 xs'].
      + destruct y1; [|discriminate]. destruct y2; [|discriminate]. cbn [app].
        rewrite !Lem_Pwl.pwl_right_cons.
        destruct (nleb ROps x t && Rltb t a); [reflexivity|].
        destruct (nleb ROps a t && Rltb t b); reflexivity.
      + change ((x :: x1 :: xs') ++ [a; b]) with (x :: x1 :: (xs' ++ [a; b])).
        change ((x :: x1 :: xs') ++ [a]) with (x :: x1 :: (xs' ++ [a])).
        change ((u :: y1) ++ [ya]) with (u :: (y1 ++ [ya])).
        change ((w :: y2) ++ [yb]) with (w :: (y2 ++ [yb])).
        rewrite !Lem_Pwl.pwl_right_cons.
        destruct (nleb ROps x t && Rltb t x1); [reflexivity|].
        change (x1 :: xs' ++ [a; b]) with ((x1 :: xs') ++ [a; b]).
        change (x1 :: xs' ++ [a]) with ((x1 :: xs') ++ [a]).
        apply IH; lia.
  Qed.

  Lemma pwl_left_snoc : forall (xs y1 y2 : list R) a b ya yb t,
    length xs = length y1 -> length xs = length y2 ->
    pwl_left ROps (xs ++ [a; b]) (y1 ++ [ya]) (y2 ++ [yb]) t
    = match pwl_left ROps (xs ++ [a]) y1 y2 t with
      | Some v => Some v
      | None => if Rltb a t && nleb ROps t b then Some (lin ROps a b ya yb t) else None
      end.
  Proof.
    induction xs as [|x xs IH]; intros y1 y2 a b ya yb t H1 H2.
    - destruct y1; [|discriminate]. destruct y2; [|discriminate]. cbn [app].
      rewrite Lem_Pwl.pwl_left_cons. destruct (Rltb a t && nleb ROps t b); reflexivity.
    - destruct y1 as [|u y1]; [discriminate|]. destruct y2 as [|w y2]; [discriminate|].
      cbn [length] in H1, H2. destruct xs as [|x1 xs'].
      + destruct y1; [|discriminate]. destruct y2; [|discriminate]. cbn [app].
        rewrite !Lem_Pwl.pwl_left_cons.
        destruct (Rltb x t && nleb ROps t a); [reflexivity|].
        destruct (Rltb a t && nleb ROps t b); reflexivity.
      + change ((x :: x1 :: xs') ++ [a; b]) with (x :: x1 :: (xs' ++ [a; b])).
        change ((x :: x1 :: xs') ++ [a]) with (x :: x1 :: (xs' ++ [a])).
        change ((u :: y1) ++ [ya]) with (u :: (y1 ++ [ya])).
        change ((w :: y2) ++ [yb]) with (w :: (y2 ++ [yb])).
        rewrite !Lem_Pwl.pwl_left_cons.
        destruct (Rltb x t && nleb ROps t x1); [reflexivity|].
        change (x1 :: xs' ++ [a; b]) with ((x1 :: xs') ++ [a; b]).
        change (x1 :: xs' ++ [a]) with ((x1 :: xs') ++ [a]).
        apply IH; lia.
  Qed.

  Lemma pwl_right_none_lo : forall (xs y1 y2 : list R) t, (forall x, In x xs -> t < x) ->
    pwl_right ROps xs y1 y2 t = None.
  Proof.
    induction xs as [|x0 xs IH]; intros y1 y2 t H; [reflexivity|].
    destruct xs as [|x1 r]; [reflexivity|].
    destruct y1 as [|ya y1]; [reflexivity|]. destruct y2 as [|yb y2]; [reflexivity|].
    rewrite Lem_Pwl.pwl_right_cons. rewrite (Lem_Pwl.nleb_f x0 t) by (apply H; left; auto).
    cbn [andb]. apply IH. intros; apply H; right; auto.
  Qed.

  Lemma pwl_right_mirror (xs : list R) : forall y1 y2 t, ssorted xs ->
    length xs = S (length y1) -> length y1 = length y2 ->
    pwl_right ROps (rev (map mr xs)) (rev y2) (rev y1) (mr t) = pwl_left ROps xs y1 y2 t.
  Proof.
    induction xs as [|x0 xs IH]; intros y1 y2 t S L1 L2; [discriminate|].
    destruct xs as [|x1 r].
    { destruct y1; [|discriminate]. destruct y2; [reflexivity|discriminate]. }
    destruct y1 as [|a0 y1]; [discriminate|]. destruct y2 as [|b0 y2]; [discriminate|].
    cbn [length] in L1, L2.
    pose proof (Lem_Pwc.ssorted_tl _ _ S) as S1.
    assert (H01 : x0 < x1) by (apply ssorted_cons_inv in S as [_ F]; inversion F; auto).
    specialize (IH y1 y2 t S1 ltac:(cbn [length]; lia) ltac:(lia)).
    rewrite Lem_Pwl.pwl_left_cons.
    change (rev (map mr (x0 :: x1 :: r))) with ((rev (map mr r) ++ [mr x1]) ++ [mr x0]).
    rewrite <- app_assoc. cbn [app rev].
    rewrite pwl_right_snoc by (rewrite !rev_length, ?map_length; lia).
    change (rev (map mr r) ++ [mr x1]) with (rev (map mr (x1 :: r))).
    rewrite IH, nleb_mir, Rltb_mir, lin_mirror by exact H01.
    rewrite (andb_comm (nleb ROps t x1)).
    destruct (Rltb_spec x0 t) as [H0|H0]; cbn [andb];
      [|destruct (pwl_left ROps (x1 :: r) y1 y2 t); reflexivity].
    destruct (nleb ROps t x1) eqn:E1; [|destruct (pwl_left ROps (x1 :: r) y1 y2 t); reflexivity].
    apply nleb_true in E1. rewrite Lem_Pwl.pwl_left_none_lo; [reflexivity|].
    intros x Hx. pose proof (Lem_Pwl.ssorted_head_min _ _ _ S1 Hx). lra.
  Qed.

  Lemma pwl_left_mirror (xs : list R) : forall y1 y2 t, ssorted xs ->
    length xs = S (length y1) -> length y1 = length y2 ->
    pwl_left ROps (rev (map mr xs)) (rev y2) (rev y1) (mr t) = pwl_right ROps xs y1 y2 t.
  Proof.
    induction xs as [|x0 xs IH]; intros y1 y2 t S L1 L2; [discriminate|].
    destruct xs as [|x1 r].
    { destruct y1; [|discriminate]. destruct y2; [reflexivity|discriminate]. }
    destruct y1 as [|a0 y1]; [discriminate|]. destruct y2 as [|b0 y2]; [discriminate|].
    cbn [length] in L1, L2.
    pose proof (Lem_Pwc.ssorted_tl _ _ S) as S1.
    assert (H01 : x0 < x1) by (apply ssorted_cons_inv in S as [_ F]; inversion F; auto).
    specialize (IH y1 y2 t S1 ltac:(cbn [length]; lia) ltac:(lia)).
    rewrite Lem_Pwl.pwl_right_cons.
    change (rev (map mr (x0 :: x1 :: r))) with ((rev (map mr r) ++ [mr x1]) ++ [mr x0]).
    rewrite <- app_assoc. cbn [app rev].
    rewrite pwl_left_snoc by (rewrite !rev_length, ?map_length; lia).
    change (rev (map mr r) ++ [mr x1]) with (rev (map mr (x1 :: r))).
    rewrite IH, nleb_mir, Rltb_mir, lin_mirror by exact H01.
    rewrite (andb_comm (Rltb t x1)).
    destruct (nleb ROps x0 t) eqn:E0; cbn [andb];
      [|destruct (pwl_right ROps (x1 :: r) y1 y2 t); reflexivity].
    destruct (Rltb_spec t x1) as [H1|H1]; [|destruct (pwl_right ROps (x1 :: r) y1 y2 t); reflexivity].
    rewrite pwl_right_none_lo; [reflexivity|].
    intros x Hx. pose proof (Lem_Pwl.ssorted_head_min _ _ _ S1 Hx). lra.
  Qed.

  Lemma pwl_add_spec_mirror f g : wf_pwl f -> wf_pwl g ->
    pwl_add_spec ROps (mirror_pwl ts te f) (mirror_pwl ts te g)
    = mirror_pwl ts te (pwl_add_spec ROps f g).
  Proof.
    destruct f as [[x1 a1] b1], g as [[x2 a2] b2].
    intros ([S1 _] & L11 & L12) ([S2 _] & L21 & L22). cbn [fst snd] in *.
    unfold mirror_pwl, pwl_add_spec. cbn [fst snd].
    change (rev (map mr x1)) with (mtr x1). change (rev (map mr x2)) with (mtr x2).
    rewrite (su_mirror_gen ts te (x1 ++ x2) (mtr x1 ++ mtr x2)).
    2:{ intros x. rewrite !in_app_iff, !In_mirror. tauto. }
    set (B := sort_unique ROps (x1 ++ x2)).
    rewrite (pieces_mirror ts te B), !map_rev, !map_map.
    change (rev (map mr B)) with (mtr B). unfold mirror_train.
    f_equal; [f_equal|]; f_equal; apply map_ext; intros q; unfold sw; cbn [fst snd].
    - rewrite !pwl_right_mirror by assumption. reflexivity.
    - rewrite !pwl_left_mirror by assumption. reflexivity.
  Qed.

  Lemma good_pwl_mirror f : Lem_WF.good_pwl ts te f -> Lem_WF.good_pwl ts te (mirror_pwl ts te f).
  Proof.
    intros (([Sf L2] & Lf & Lg) & F0 & FL).
    unfold Lem_WF.good_pwl, wf_pwl, wf_x, mirror_pwl. cbn [fst snd].
    rewrite !rev_length, map_length.
    split; [split; [split; [apply (ssorted_mirror ts te); exact Sf | exact L2] | split; lia]|].
    destruct (fst (fst f)) as [|x xs] eqn:Ex; [cbn [length] in L2; lia|].
    rewrite nthF0_hd in *. unfold lastF in *. cbn [n0 ROps hd] in *. split.
    - rewrite hd_rev. rewrite (last_indep (map mr (x :: xs)) 0 (mr 0)) by discriminate.
      rewrite last_map', FL. apply mir_te.
    - rewrite last_rev. cbn [map hd]. rewrite F0. apply mir_ts.
  Qed.

  Definition RelPwl (f f' : @pwl R) : Prop := Lem_WF.good_pwl ts te f /\ f' = mirror_pwl ts te f.

  Lemma RelPwl_add f f' g g' : RelPwl f f' -> RelPwl g g' ->
    rrel RelPwl (pwl_add ROps f g) (pwl_add ROps f' g').
  Proof.
    intros [Gf ->] [Gg ->].
    pose proof (good_pwl_mirror f Gf) as (Wf' & F0' & FL').
    pose proof (good_pwl_mirror g Gg) as (Wg' & G0' & GL').
    destruct (Lem_WF.good_pwl_add ts te f g Gf Gg) as (hh & E & Gh).
    pose proof Gf as (Wf & F0 & FL). pose proof Gg as (Wg & G0 & GL).
    rewrite (Lem_Pwl.pwl_add_eq_spec f g Wf Wg) in E by congruence. injection E as <-.
    rewrite (Lem_Pwl.pwl_add_eq_spec f g Wf Wg) by congruence.
    rewrite (Lem_Pwl.pwl_add_eq_spec _ _ Wf' Wg') by congruence.
    cbn [rrel]. split; [exact Gh|]. apply pwl_add_spec_mirror; assumption.
  Qed.

  Lemma pwl_mul_mirror f c : pwl_mul ROps (mirror_pwl ts te f) c = mirror_pwl ts te (pwl_mul ROps f c).
  Proof.
    destruct f as [[xs y1] y2]. unfold pwl_mul, mirror_pwl. cbn [fst snd]. rewrite !map_rev. reflexivity.
  Qed.
End PWLM.

(* ------------------------------------------------------------------ *)
(* 10. multivariate SPIKE profile                                       *)

Lemma spike_bi_mirror eps cy m ri ts te (a b : trainR) : vtrain ts te a -> vtrain ts te b ->
  spike_profile_bi ROps eps cy false m ri (mirror_tr a) (mirror_tr b)
  = mirror_pwl ts te (spike_profile_bi ROps eps cy false m ri a b).
Proof.
  intros Va Vb.
  rewrite (spike_bi_py eps cy m ri ts te _ _ (vtrain_mirror ts te a Va) (vtrain_mirror ts te b Vb)).
  rewrite (spike_bi_py eps cy m ri ts te a b Va Vb).
  rewrite (spikes_mirror ts te a Va), (spikes_mirror ts te b Vb).
  pose proof Va as (V1 & _ & _). pose proof Vb as (V2 & _ & _).
  rewrite (Lem_Transform2.spike_profile_mirror _ _ ts te m ri V1 V2). reflexivity.
Qed.

Theorem spike_profile_multi_mirror : forall eps cy m ri l idx ts te, Forall (vtrain ts te) l ->
  spike_profile_multi ROps eps cy false m ri (map mirror_tr l) idx
  = rmap (mirror_pwl ts te) (spike_profile_multi ROps eps cy false m ri l idx).
Proof.
  intros eps cy m ri l idx ts te HF. unfold spike_profile_multi.
  match goal with |- rmap _ ?B = rmap _ (rmap _ ?A) =>
    assert (H : rrel (rel_pn (RelPwl ts te)) A B) end.
  { apply (profile_multi_gen_rel (RelPwl ts te) (pwl_add ROps) (RelPwl_add ts te)).
    intros a b Ha Hb. cbn [rrel].
    assert (Va := Forall_In_v ts te l a HF Ha). assert (Vb := Forall_In_v ts te l b HF Hb).
    split; [apply Lem_WF.spike_profile_bi_wf; auto using Lem_WF.rc_ok_false|].
    apply spike_bi_mirror; assumption. }
  match goal with |- rmap _ ?B = rmap _ (rmap _ ?A) =>
    destruct A as [[p n]|e], B as [[p' n']|e'] end; cbn [rrel] in H; try contradiction.
  - destruct H as [[_ H] Hn]. cbn [fst snd] in H, Hn. subst p' n'. cbn [rmap fst snd]. f_equal.
    apply pwl_mul_mirror.
  - cbn [rmap]. f_equal. symmetry; exact H.
Qed.

(* ------------------------------------------------------------------ *)
(* 10b. the three additions commute with the mirror on well-formed operands *)

Definition framed_df (ts te : R) (f : list (R * R * R)) : Prop :=
  exists d I, ssorted (map kx I) /\ f = frame2 ts te d I.

Lemma sync_bi_framed eps cy mt m ts te (a b : trainR) : vtrain ts te a -> vtrain ts te b ->
  framed_df ts te (spike_sync_profile_bi ROps eps cy false mt m a b).
Proof.
  intros Va Vb. destruct (sync_bi_rel eps cy mt m ts te a b Va Vb) as (d & I & S & E & _).
  exists d, I. split; assumption.
Qed.

Theorem df_add_mirror ts te f g : framed_df ts te f -> framed_df ts te g ->
  df_add ROps (mirror_df ts te f) (mirror_df ts te g) = rmap (mirror_df ts te) (df_add ROps f g).
Proof.
  intros ([a1 b1] & I1 & S1 & ->) ([a2 b2] & I2 & S2 & ->).
  assert (R1 : RelDf ts te (fun x => x) (frame2 ts te (a1, b1) I1) (mirror_df ts te (frame2 ts te (a1, b1) I1))).
  { exists (a1, b1), I1. split; [exact S1|]. split; [reflexivity|].
    exact (mirror_frame2 ts te (fun x => x) (a1, b1) I1). }
  assert (R2 : RelDf ts te (fun x => x) (frame2 ts te (a2, b2) I2) (mirror_df ts te (frame2 ts te (a2, b2) I2))).
  { exists (a2, b2), I2. split; [exact S2|]. split; [reflexivity|].
    exact (mirror_frame2 ts te (fun x => x) (a2, b2) I2). }
  pose proof (RelDf_add ts te (fun x => x) (fun _ _ => eq_refl) _ _ _ _ R1 R2) as H.
  destruct (df_add ROps (frame2 ts te (a1, b1) I1) (frame2 ts te (a2, b2) I2)) as [r|e],
           (df_add ROps (mirror_df ts te (frame2 ts te (a1, b1) I1))
                        (mirror_df ts te (frame2 ts te (a2, b2) I2))) as [r'|e'];
    cbn [rrel] in H; try contradiction; cbn [rmap]; f_equal.
  - exact (RelDf_mirror_id ts te (fun x => x) r r' (fun _ => eq_refl) H).
  - symmetry; exact H.
Qed.

Theorem pwc_add_mirror ts te f g : Lem_WF.good_pwc ts te f -> Lem_WF.good_pwc ts te g ->
  pwc_add ROps (mirror_pwc ts te f) (mirror_pwc ts te g) = rmap (mirror_pwc ts te) (pwc_add ROps f g).
Proof.
  intros Gf Gg. pose proof (RelPwc_add ts te _ _ _ _ (conj Gf eq_refl) (conj Gg eq_refl)) as H.
  destruct (pwc_add ROps f g) as [r|e],
           (pwc_add ROps (mirror_pwc ts te f) (mirror_pwc ts te g)) as [r'|e'];
    cbn [rrel] in H; try contradiction; cbn [rmap]; f_equal.
  - apply H.
  - symmetry; exact H.
Qed.

Theorem pwl_add_mirror ts te f g : Lem_WF.good_pwl ts te f -> Lem_WF.good_pwl ts te g ->
  pwl_add ROps (mirror_pwl ts te f) (mirror_pwl ts te g) = rmap (mirror_pwl ts te) (pwl_add ROps f g).
Proof.
  intros Gf Gg. pose proof (RelPwl_add ts te _ _ _ _ (conj Gf eq_refl) (conj Gg eq_refl)) as H.
  destruct (pwl_add ROps f g) as [r|e],
           (pwl_add ROps (mirror_pwl ts te f) (mirror_pwl ts te g)) as [r'|e'];
    cbn [rrel] in H; try contradiction; cbn [rmap]; f_equal.
  - apply H.
  - symmetry; exact H.
Qed.

(* ------------------------------------------------------------------ *)
(* 11. all four profiles at once                                        *)

Theorem multi_profiles_mirror : forall eps cy m mt ri l idx ts te, Forall (vtrain ts te) l ->
  isi_profile_multi ROps eps cy false m (map mirror_tr l) idx
    = rmap (mirror_pwc ts te) (isi_profile_multi ROps eps cy false m l idx) /\
  spike_profile_multi ROps eps cy false m ri (map mirror_tr l) idx
    = rmap (mirror_pwl ts te) (spike_profile_multi ROps eps cy false m ri l idx) /\
  spike_sync_profile_multi ROps eps cy false mt m (map mirror_tr l) idx
    = rmap (mirror_df ts te) (spike_sync_profile_multi ROps eps cy false mt m l idx) /\
  (forall P, order_profile_multi ROps eps cy false mt m l idx = Ok P -> removelast (tl P) <> [] ->
     order_profile_multi ROps eps cy false mt m (map mirror_tr l) idx = Ok (mirror_neg_df ts te P)).
Proof.
  intros eps cy m mt ri l idx ts te HF.
  split; [apply (isi_profile_multi_mirror eps cy m l idx ts te HF)|].
  split; [apply (spike_profile_multi_mirror eps cy m ri l idx ts te HF)|].
  split; [apply (sync_profile_multi_mirror eps cy mt m l idx ts te HF)|].
  intros P E NE. apply (order_profile_multi_mirror eps cy mt m l idx ts te P HF E NE).
Qed.

(* ------------------------------------------------------------------ *)
(* 12. the hypothesis "one event" of the order theorem is necessary     *)

Definition ex8_empty : list trainR := [([], 0, 10); ([], 0, 10)].

Lemma ex8_empty_vtrain : Forall (vtrain 0 10) ex8_empty.
Proof.
  assert (V : vtrain 0 10 ([], 0, 10)).
  { unfold vtrain, valid. cbn [tr_spikes tr_start tr_end fst snd].
    repeat split; try lra; constructor. }
  constructor; [exact V | constructor; [exact V | constructor]].
Qed.

Example order_profile_multi_mirror_fails_without_events : forall eps cy mt m,
  order_profile_multi ROps eps cy false mt m ex8_empty None = Ok [(0, 1, 1); (10, 1, 1)] /\
  order_profile_multi ROps eps cy false mt m (map mirror_tr ex8_empty) None = Ok [(0, 1, 1); (10, 1, 1)] /\
  order_profile_multi ROps eps cy false mt m (map mirror_tr ex8_empty) None
    <> rmap (mirror_neg_df 0 10) (order_profile_multi ROps eps cy false mt m ex8_empty None).
Proof.
  intros eps cy mt m.
  assert (V : vtrain 0 10 ([], 0, 10)).
  { pose proof ex8_empty_vtrain as H. inversion H; assumption. }
  assert (E : order_profile_multi ROps eps cy false mt m ex8_empty None = Ok [(0, 1, 1); (10, 1, 1)]).
  { unfold order_profile_multi, profile_multi_gen, ex8_empty.
    cbn [length indices_or_all seq check_indices forallb Nat.ltb Nat.leb andb negb pairs_of map app
         dc rmap fst snd nth_train nth].
    rewrite (Lem_WF.order_bi_spec eps cy false mt m 0 10 _ _ (Lem_WF.rc_ok_false eps) V V).
    reflexivity. }
  assert (E' : order_profile_multi ROps eps cy false mt m (map mirror_tr ex8_empty) None
               = Ok [(0, 1, 1); (10, 1, 1)]).
  { pose proof (order_profile_multi_mirror_partial eps cy mt m ex8_empty None 0 10 ex8_empty_vtrain) as H.
    rewrite E in H.
    destruct (order_profile_multi ROps eps cy false mt m (map mirror_tr ex8_empty) None) as [P'|e];
      [|contradiction].
    destruct H as (_ & _ & H). rewrite (H eq_refl). reflexivity. }
  split; [exact E|]. split; [exact E'|].
  rewrite E, E'. cbn [rmap]. unfold mirror_neg_df, gT, e_t, e_y, e_mp. cbn [map rev app fst snd].
  intros H. injection H as _ H _ _. lra.
Qed.

(* ------------------------------------------------------------------ *)
(* 13. non-vacuity: the three valid trains [ex_l] of Lem_API4 on [0, 10] *)

Example ex8_hypotheses : Forall (vtrain 0 10) ex_l.
Proof. destruct ex_l_hypotheses as (HF & _). exact HF. Qed.

Example ex8_instances :
  isi_profile_multi ROps (1 / 1000000) true false 0 (map mirror_tr ex_l) None
    = rmap (mirror_pwc 0 10) (isi_profile_multi ROps (1 / 1000000) true false 0 ex_l None) /\
  spike_profile_multi ROps (1 / 1000000) false false 0 true (map mirror_tr ex_l) (Some [2; 0; 1]%nat)
    = rmap (mirror_pwl 0 10) (spike_profile_multi ROps (1 / 1000000) false false 0 true ex_l (Some [2; 0; 1]%nat)) /\
  spike_sync_profile_multi ROps (1 / 1000000) true false 0 0 (map mirror_tr ex_l) (Some [2; 0]%nat)
    = rmap (mirror_df 0 10) (spike_sync_profile_multi ROps (1 / 1000000) true false 0 0 ex_l (Some [2; 0]%nat)).
Proof.
  pose proof ex8_hypotheses as HF.
  split; [apply (isi_profile_multi_mirror _ _ _ ex_l None 0 10 HF)|].
  split; [apply (spike_profile_multi_mirror _ _ _ _ ex_l _ 0 10 HF)|].
  apply (sync_profile_multi_mirror _ _ _ _ ex_l _ 0 10 HF).
Qed.

(* the statements on the Q instance: three / five small trains with an empty train, spikes
   on both edges and spike times shared by two trains; idx = None, a pair, a repeated
   index, a selection of two empty trains; both backends; MRTS 0 and 1/5, max_tau 0 and 3/10.
   Columns: ISI, SPIKE-Sync, spike order (mirrored and negated), SPIKE (RI), SPIKE.
   Everything holds except the order column exactly when no selected train has a spike. *)
From Coq Require Import QArith.
Local Close Scope Q_scope.
Local Open Scope R_scope.

Definition q8_mir (ts te x : Q) : Q := Qred (ts + te - x).
Definition q8_pwc ts te (f : list Q * list Q) := (rev (map (q8_mir ts te) (fst f)), rev (snd f)).
Definition q8_pwl ts te (f : list Q * list Q * list Q) :=
  (rev (map (q8_mir ts te) (fst (fst f))), rev (snd f), rev (snd (fst f))).
Definition q8_df ts te (f : list (Q * Q * Q)) :=
  rev (map (fun e => (q8_mir ts te (fst (fst e)), snd (fst e), snd e)) f).
Definition q8_dfneg ts te (f : list (Q * Q * Q)) :=
  rev (map (fun e => (q8_mir ts te (fst (fst e)), Qred (- snd (fst e)), snd e)) f).

Definition q8_l1 : list (list Q * Q * Q) := [([0; 3; 5], 0, 10); ([], 0, 10); ([3; 7], 0, 10)]%Q.
Definition q8_l2 : list (list Q * Q * Q) :=
  [([0; 3; 5], 0, 10); ([], 0, 10); ([3; 7; 10], 0, 10); ([], 0, 10); ([1; 3; 7; 8], 0, 10)]%Q.

Definition q8_checks (l : list (list Q * Q * Q)) (ts te m mt : Q) (idxs : list (option (list nat)))
  : list (list bool) :=
  flat_map (fun idx => map (fun cy : bool =>
  [ q6_eq_pwc (isi_profile_multi QOps qx_eps cy false m (map qx_mirror l) idx)
              (rmap (q8_pwc ts te) (isi_profile_multi QOps qx_eps cy false m l idx));
    q6_eq_df (spike_sync_profile_multi QOps qx_eps cy false mt m (map qx_mirror l) idx)
             (rmap (q8_df ts te) (spike_sync_profile_multi QOps qx_eps cy false mt m l idx));
    q6_eq_df (order_profile_multi QOps qx_eps cy false mt m (map qx_mirror l) idx)
             (rmap (q8_dfneg ts te) (order_profile_multi QOps qx_eps cy false mt m l idx));
    q6_eq_pwl (spike_profile_multi QOps qx_eps cy false m true (map qx_mirror l) idx)
              (rmap (q8_pwl ts te) (spike_profile_multi QOps qx_eps cy false m true l idx));
    q6_eq_pwl (spike_profile_multi QOps qx_eps cy false m false (map qx_mirror l) idx)
              (rmap (q8_pwl ts te) (spike_profile_multi QOps qx_eps cy false m false l idx)) ])
  [true; false]) idxs.

Definition q8_yes := [true; true; true; true; true].
Definition q8_no_order := [true; true; false; true; true].

Example ex8_Q :
  q8_checks q8_l1 0 10 0 0 [None; Some [2; 0]%nat; Some [0; 1; 2; 0]%nat; Some [1; 1]%nat]
    = [q8_yes; q8_yes; q8_yes; q8_yes; q8_yes; q8_yes; q8_no_order; q8_no_order] /\
  q8_checks q8_l1 0 10 (1 # 5) (3 # 10) [None; Some [2; 0]%nat; Some [1; 1]%nat]
    = [q8_yes; q8_yes; q8_yes; q8_yes; q8_no_order; q8_no_order] /\
  q8_checks q8_l2 0 10 0 0 [None; Some [4; 2; 0; 3]%nat; Some [1; 3]%nat; Some [3; 1; 0]%nat]
    = [q8_yes; q8_yes; q8_yes; q8_yes; q8_no_order; q8_no_order; q8_yes; q8_yes] /\
  spike_sync_profile_multi QOps qx_eps true false 0%Q 0%Q q8_l1 None
    = Ok [(0, 0, 2); (0, 0, 2); (3, 2, 4); (5, 0, 2); (7, 0, 2); (10, 0, 2)]%Q /\
  spike_sync_profile_multi QOps qx_eps true false 0%Q 0%Q (map qx_mirror q8_l1) None
    = Ok [(0, 0, 2); (3, 0, 2); (5, 0, 2); (7, 2, 4); (10, 0, 2); (10, 0, 2)]%Q /\
  isi_profile_multi QOps qx_eps true false 0%Q q8_l1 None
    = Ok ([0; 3; 5; 7; 10]%Q, [31 # 60; 19 # 30; 13 # 30; 13 # 30]%Q) /\
  isi_profile_multi QOps qx_eps true false 0%Q (map qx_mirror q8_l1) None
    = Ok ([0; 3; 5; 7; 10]%Q, [13 # 30; 13 # 30; 19 # 30; 31 # 60]%Q) /\
  (* the counterexample for the order profile: two empty trains *)
  order_profile_multi QOps qx_eps true false 0%Q 0%Q q8_l1 (Some [1; 1]%nat) = Ok [(0, 1, 1); (10, 1, 1)]%Q /\
  order_profile_multi QOps qx_eps true false 0%Q 0%Q (map qx_mirror q8_l1) (Some [1; 1]%nat)
    = Ok [(0, 1, 1); (10, 1, 1)]%Q.
Proof. vm_compute. repeat split. Qed.

(* df_add does NOT commute with the mirror on arbitrary well-formed (wf_df) operands: the
   left edge entry of the sum copies its neighbour, the right edge entry is taken from one
   operand.  Here the edge value 5 of [f] is not a copy of the neighbouring event. *)
Example df_add_mirror_needs_framed :
  let f := [(0, 5, 1); (1, 0, 1); (10, 5, 1)]%Q in
  let g := [(0, 1, 1); (10, 1, 1)]%Q in
  df_add QOps (q8_df 0 10 f) (q8_df 0 10 g) = Ok [(0, 0, 1); (9, 0, 1); (10, 5, 1)]%Q /\
  rmap (q8_df 0 10) (df_add QOps f g) = Ok [(0, 5, 1); (9, 0, 1); (10, 0, 1)]%Q.
Proof. vm_compute. split; reflexivity. Qed.

(* ------------------------------------------------------------------ *)
Print Assumptions dc_rel.
Print Assumptions df_add_frame.
Print Assumptions RelDf_add.
Print Assumptions pwc_add_spec_mirror.
Print Assumptions pwl_add_spec_mirror.
Print Assumptions df_add_mirror.
Print Assumptions pwc_add_mirror.
Print Assumptions pwl_add_mirror.
Print Assumptions sync_profile_multi_mirror.
Print Assumptions isi_profile_multi_mirror.
Print Assumptions spike_profile_multi_mirror.
Print Assumptions order_profile_multi_mirror_rel.
Print Assumptions order_profile_multi_mirror.
Print Assumptions order_profile_multi_mirror_partial.
Print Assumptions multi_profiles_mirror.
Print Assumptions order_profile_multi_mirror_fails_without_events.
Print Assumptions ex8_instances.
Print Assumptions ex8_Q.
