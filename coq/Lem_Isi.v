(* Lem_Isi.v — the ISI-profile kernel (three-way merge scan with running
   inter-spike intervals) computes the declarative ISI profile [isi_spec]. *)
From Coq Require Import List Bool Arith ZArith Reals Lra Lia Sorted Permutation.
Import ListNotations.
From PS Require Import Num RLemmas Valid ModelKernels ModelFuncs ModelAPI Spec SyncDefs.
Local Open Scope R_scope.

(* ------------------------------------------------------------------ *)
(* 1. strictly sorted lists, insert_u / sort_unique                    *)

Lemma ssorted_ext : forall l1 l2, ssorted l1 -> ssorted l2 ->
  (forall x, In x l1 <-> In x l2) -> l1 = l2.
Proof.
  induction l1 as [|x1 r1 IH]; intros l2 S1 S2 E.
  - destruct l2 as [|x2 r2]; auto. exfalso. apply (E x2). left; auto.
  - destruct l2 as [|x2 r2].
    + exfalso. apply (E x1). left; auto.
    + apply ssorted_cons_inv in S1 as [S1 F1]. apply ssorted_cons_inv in S2 as [S2 F2].
      rewrite Forall_forall in F1, F2.
      assert (x1 = x2) as ->.
      { assert (A : In x1 (x2 :: r2)) by (apply E; left; auto).
        assert (B : In x2 (x1 :: r1)) by (apply E; left; auto).
        destruct A as [A|A]; auto. destruct B as [B|B]; auto.
        apply F2 in A. apply F1 in B. lra. }
      f_equal. apply IH; auto. intros x; split; intros H.
      * assert (A : In x (x2 :: r2)) by (apply E; right; auto).
        destruct A as [A|A]; auto. subst. apply F1 in H. lra.
      * assert (A : In x (x2 :: r1)) by (apply E; right; auto).
        destruct A as [A|A]; auto. subst. apply F2 in H. lra.
Qed.

Lemma insert_u_in : forall a l x, In x (insert_u ROps a l) <-> x = a \/ In x l.
Proof.
  induction l as [|y r IH]; intros x; cbn [insert_u nltb neqb ROps].
  - cbn. intuition.
  - destruct (Rltb_spec a y) as [H|H].
    + cbn. intuition.
    + destruct (Reqb_spec a y) as [E|E].
      * subst. cbn. intuition.
      * cbn [In]. rewrite IH. intuition.
Qed.

Lemma insert_u_sorted : forall a l, ssorted l -> ssorted (insert_u ROps a l).
Proof.
  induction l as [|y r IH]; intros S; cbn [insert_u nltb neqb ROps].
  - apply ssorted_cons; auto.
  - destruct (Rltb_spec a y) as [H|H].
    + apply ssorted_cons; auto. apply ssorted_cons_inv in S as [S F].
      constructor; auto. eapply Forall_impl; [|apply F]. cbn; intros; lra.
    + destruct (Reqb_spec a y) as [E|E]; auto.
      apply ssorted_cons_inv in S as [S F].
      apply ssorted_cons; auto. rewrite Forall_forall in *. intros x Hx.
      apply insert_u_in in Hx. destruct Hx as [->|Hx]; auto. lra.
Qed.

Lemma sort_unique_in : forall l x, In x (sort_unique ROps l) <-> In x l.
Proof.
  induction l as [|a l IH]; intros x; cbn [sort_unique fold_right]; [tauto|].
  fold (sort_unique ROps l). rewrite insert_u_in, IH. cbn. intuition.
Qed.

Lemma sort_unique_sorted : forall l, ssorted (sort_unique ROps l).
Proof.
  induction l as [|a l IH]; cbn [sort_unique fold_right]; [apply ssorted_nil|].
  apply insert_u_sorted; auto.
Qed.

Lemma ssorted_filter : forall P l, ssorted l -> ssorted (filter P l).
Proof.
  induction l as [|a l IH]; intros S; cbn [filter]; auto.
  apply ssorted_cons_inv in S as [S F]. destruct (P a); auto.
  apply ssorted_cons; auto. rewrite Forall_forall in *. intros x Hx.
  apply filter_In in Hx. apply F; tauto.
Qed.

Lemma filter_all : forall (P : R -> bool) l, (forall x, In x l -> P x = true) -> filter P l = l.
Proof.
  induction l as [|a l IH]; intros H; cbn [filter]; auto.
  rewrite (H a) by (left; auto). f_equal. apply IH. intros; apply H; right; auto.
Qed.

Lemma ssorted_mid : forall l1 a l2, ssorted (l1 ++ a :: l2) ->
  ssorted l1 /\ ssorted l2 /\ (forall x, In x l1 -> x < a) /\ (forall y, In y l2 -> a < y).
Proof.
  intros l1 a l2 S. apply ssorted_app_inv in S as (S1 & S2 & H).
  apply ssorted_cons_inv in S2 as [S2 F]. rewrite Forall_forall in F.
  repeat split; auto. intros x Hx. apply H; auto. left; auto.
Qed.

(* ------------------------------------------------------------------ *)
(* 2. the sorted distinct union of two lists, shaped like the loop      *)

Fixpoint mrg (fuel : nat) (f1 f2 : list R) : list R :=
  match fuel with
  | O => []
  | S k =>
      match f1, f2 with
      | [], [] => []
      | a :: f1', [] => a :: mrg k f1' []
      | [], b :: f2' => b :: mrg k [] f2'
      | a :: f1', b :: f2' =>
          if Rltb a b then a :: mrg k f1' f2
          else if Rltb b a then b :: mrg k f1 f2'
          else a :: mrg k f1' f2'
      end
  end.

Lemma loop_events : forall fuel te p1 f1 nu1 p2 f2 nu2,
  map (@ev_t R) (isi_loop ROps fuel te p1 f1 nu1 p2 f2 nu2) = mrg fuel f1 f2.
Proof.
  induction fuel as [|k IH]; intros; cbn [isi_loop mrg]; auto.
  destruct f1 as [|a f1'], f2 as [|b f2']; auto.
  - cbn [map ev_t fst]. rewrite IH; auto.
  - cbn [map ev_t fst]. rewrite IH; auto.
  - cbn [nltb ROps]. destruct (Rltb a b); [|destruct (Rltb b a)];
      cbn [map ev_t fst]; rewrite IH; auto.
Qed.

Lemma mrg_in : forall fuel f1 f2 x, In x (mrg fuel f1 f2) -> In x f1 \/ In x f2.
Proof.
  induction fuel as [|k IH]; intros f1 f2 x; cbn [mrg]; [intros []|].
  destruct f1 as [|a f1'], f2 as [|b f2'].
  - intros [].
  - intros [->|H]; [right; left; auto|]. apply IH in H. cbn in *; tauto.
  - intros [->|H]; [left; left; auto|]. apply IH in H. cbn in *; tauto.
  - destruct (Rltb a b); [|destruct (Rltb b a)]; (intros [->|H]; [cbn; tauto|]); apply IH in H; cbn in *; tauto.
Qed.

Lemma mrg_in_conv : forall fuel f1 f2 x, (length f1 + length f2 <= fuel)%nat ->
  In x f1 \/ In x f2 -> In x (mrg fuel f1 f2).
Proof.
  induction fuel as [|k IH]; intros f1 f2 x L H.
  - destruct f1, f2; cbn in *; try lia; tauto.
  - cbn [mrg]. destruct f1 as [|a f1'], f2 as [|b f2'].
    + cbn in H; tauto.
    + cbn in L. destruct H as [[]|[->|H]]; [left; auto|right]. apply IH; [cbn; lia|auto].
    + cbn in L. destruct H as [[->|H]|[]]; [left; auto|right]. apply IH; [cbn; lia|auto].
    + cbn in L. destruct (Rltb_spec a b) as [H1|H1]; [|destruct (Rltb_spec b a) as [H2|H2]].
      * destruct H as [[->|H]|H]; [left; auto|right; apply IH; [cbn; lia|auto]..].
      * destruct H as [H|[->|H]]; [right; apply IH; [cbn; lia|auto]|left; auto|right; apply IH; [cbn; lia|auto]].
      * assert (a = b) as -> by lra.
        destruct H as [[->|H]|[->|H]]; [left; auto|right; apply IH; [lia|auto]|left; auto|right; apply IH; [lia|auto]].
Qed.

Lemma mrg_sorted : forall fuel f1 f2, ssorted f1 -> ssorted f2 -> ssorted (mrg fuel f1 f2).
Proof.
  induction fuel as [|k IH]; intros f1 f2 S1 S2; cbn [mrg]; [apply ssorted_nil|].
  destruct f1 as [|a f1'], f2 as [|b f2']; [apply ssorted_nil| | |].
  - pose proof (ssorted_cons_inv _ _ S2) as [S2' F2]. rewrite Forall_forall in F2.
    apply ssorted_cons; auto. rewrite Forall_forall. intros x Hx.
    apply mrg_in in Hx. destruct Hx as [[]|Hx]; auto.
  - pose proof (ssorted_cons_inv _ _ S1) as [S1' F1]. rewrite Forall_forall in F1.
    apply ssorted_cons; auto. rewrite Forall_forall. intros x Hx.
    apply mrg_in in Hx. destruct Hx as [Hx|[]]; auto.
  - pose proof (ssorted_cons_inv _ _ S1) as [S1' F1]. rewrite Forall_forall in F1.
    pose proof (ssorted_cons_inv _ _ S2) as [S2' F2]. rewrite Forall_forall in F2.
    destruct (Rltb_spec a b) as [H1|H1]; [|destruct (Rltb_spec b a) as [H2|H2]];
      (apply ssorted_cons; auto; rewrite Forall_forall; intros x Hx; apply mrg_in in Hx).
    + destruct Hx as [Hx|[<-|Hx]]; auto. apply F2 in Hx; lra.
    + destruct Hx as [[<-|Hx]|Hx]; auto. apply F1 in Hx; lra.
    + destruct Hx as [Hx|Hx]; auto. apply F2 in Hx; lra.
Qed.

(* ------------------------------------------------------------------ *)
(* 3. one train: the running nu is the ISI length around the cursor     *)

Definition lo (p : list R) (t : R) : Prop := match p with a :: _ => a <= t | [] => True end.
Definition hi (f : list R) (t : R) : Prop := match f with y :: _ => t < y | [] => True end.

Lemma prev_rev : forall p f acc t, Forall (fun x => x <= t) p ->
  prev_of ROps t (rev p ++ f) acc = prev_of ROps t f (match p with a :: _ => Some a | [] => acc end).
Proof.
  induction p as [|a p IH]; intros f acc t H; cbn [rev app]; auto.
  inversion H as [|? ? Ha Hp]; subst. rewrite <- app_assoc. cbn [app]. rewrite IH by auto.
  cbn [prev_of]. assert (E : nleb ROps a t = true) by (apply nleb_true; auto).
  rewrite E. reflexivity.
Qed.

Lemma prev_hi : forall f acc t, hi f t -> prev_of ROps t f acc = acc.
Proof.
  intros [|y f] acc t H; cbn [prev_of]; auto. cbn [hi] in H.
  assert (E : nleb ROps y t = false) by (apply nleb_false; auto). rewrite E; auto.
Qed.

Lemma next_rev : forall p f t, Forall (fun x => x <= t) p ->
  next_of ROps t (rev p ++ f) = next_of ROps t f.
Proof.
  induction p as [|a p IH]; intros f t H; cbn [rev app]; auto.
  inversion H as [|? ? Ha Hp]; subst. rewrite <- app_assoc. cbn [app]. rewrite IH by auto.
  cbn [next_of nltb ROps]. destruct (Rltb_spec t a); auto; lra.
Qed.

Lemma next_hi : forall f t, hi f t ->
  next_of ROps t f = match f with y :: _ => Some y | [] => None end.
Proof.
  intros [|y f] t H; cbn [next_of nltb ROps]; auto. cbn [hi] in H.
  destruct (Rltb_spec t y); auto; lra.
Qed.

Lemma past_le : forall p f t, ssorted (rev p ++ f) -> lo p t -> Forall (fun x => x <= t) p.
Proof.
  intros [|a p] f t S L; [constructor|]. cbn [lo] in L. cbn [rev] in S.
  rewrite <- app_assoc in S. cbn [app] in S. apply ssorted_mid in S as (_ & _ & H & _).
  constructor; auto. rewrite Forall_forall. intros x Hx. apply in_rev in Hx. apply H in Hx. lra.
Qed.

Lemma filter_lt_last : forall l a, ssorted (l ++ [a]) ->
  filter (fun x => nltb ROps x a) (l ++ [a]) = l.
Proof.
  intros l a S. apply ssorted_mid in S as (_ & _ & H & _).
  rewrite filter_app. cbn [filter nltb ROps]. destruct (Rltb_spec a a); [lra|].
  rewrite app_nil_r. apply filter_all. intros x Hx. apply Rltb_true. auto.
Qed.

Section OneTrain.
  Variables ts te : R.

  Definition nu_ok (p f : list R) (nu : R) : Prop :=
    forall t, lo p t -> hi f t -> isi_len_at ROps ts te (rev p ++ f) t = nu.

  Lemma isi_len_at_cursor : forall p f t, ssorted (rev p ++ f) -> lo p t -> hi f t ->
    isi_len_at ROps ts te (rev p ++ f) t =
    match p, f with
    | a :: _, y :: _ => y - a
    | [], y :: f' => match f' with y2 :: _ => Rmax (y - ts) (y2 - y) | [] => y - ts end
    | a :: p', [] => match p' with p0 :: _ => Rmax (te - a) (a - p0) | [] => te - a end
    | [], [] => 0
    end.
  Proof.
    intros p f t S L H. pose proof (past_le _ _ _ S L) as P.
    unfold isi_len_at. rewrite prev_rev, next_rev by auto. rewrite prev_hi, next_hi by auto.
    destruct p as [|a p'], f as [|y f']; auto.
    - (* before the first spike *)
      unfold after. cbn [rev app next_of nltb ROps]. destruct (Rltb_spec y y); [lra|].
      destruct f' as [|y2 f'']; [reflexivity|].
      cbn [next_of nltb ROps]. cbn [rev app] in S.
      apply ssorted_cons_inv in S as [_ F]. inversion F; subst.
      destruct (Rltb_spec y y2); [|lra]. rops. reflexivity.
    - (* after the last spike *)
      unfold before. rewrite app_nil_r in *. cbn [rev] in *. rewrite filter_lt_last by auto.
      replace (rev p') with (rev p' ++ []) by apply app_nil_r.
      assert (P' : Forall (fun x => x <= a) p').
      { apply ssorted_mid in S as (_ & _ & HH & _). rewrite Forall_forall. intros x Hx.
        apply in_rev in Hx. apply HH in Hx. lra. }
      rewrite prev_rev by auto. cbn [prev_of].
      destruct p' as [|p0 p'']; [reflexivity|]. rops. reflexivity.
  Qed.

  Lemma nu_after_ok : forall a p f, ssorted (rev (a :: p) ++ f) ->
    nu_ok (a :: p) f (nu_after ROps te (a :: p) f).
  Proof.
    intros a p f S t L H. rewrite isi_len_at_cursor by auto.
    unfold nu_after. destruct p as [|p0 p'], f as [|y f']; try reflexivity. rops. reflexivity.
  Qed.

  Lemma nu_init_ok : forall y f', ssorted (y :: f') ->
    nu_ok [] (y :: f') (match f' with x1 :: _ => nmax ROps (y - ts) (x1 - y) | [] => y - ts end).
  Proof.
    intros y f' S t L H. rewrite isi_len_at_cursor by auto.
    destruct f' as [|x1 f'']; [reflexivity|]. rops. reflexivity.
  Qed.
End OneTrain.

(* ------------------------------------------------------------------ *)
(* 4. the merge loop                                                    *)

Lemma pieces_cons2 : forall (c a : R) l, pieces (c :: a :: l) = (c, a) :: pieces (a :: l).
Proof. reflexivity. Qed.

Lemma mid_between : forall c a, c < a -> c < mid ROps (c, a) < a.
Proof. intros c a H. unfold mid. rewrite R_n2. cbn [fst snd nadd ndiv ROps]. lra. Qed.

Set Implicit Arguments.
Section Loop.
  Variables ts te m : R.
  Variables u1 u2 : list R.

  (* per-train invariant at "current time" c *)
  Definition tinv (u : list R) (c : R) (p f : list R) (nu : R) : Prop :=
    u = rev p ++ f /\ ssorted u /\ Forall (fun x => c < x <= te) f /\ lo p c /\ nu_ok ts te p f nu.

  Lemma tinv_hd : forall u c p a f nu, tinv u c p (a :: f) nu -> c < a <= te.
  Proof. intros u c p a f nu (_ & _ & F & _). inversion F; auto. Qed.

  Lemma tinv_adv : forall u c p a f nu, tinv u c p (a :: f) nu ->
    tinv u a (a :: p) f (nu_after ROps te (a :: p) f).
  Proof.
    intros u c p a f nu (E & S & F & L & N).
    assert (E' : u = rev (a :: p) ++ f) by (cbn [rev]; rewrite <- app_assoc; exact E).
    split; [exact E'|]. split; [exact S|]. split; [|split].
    - rewrite E in S. apply ssorted_mid in S as (_ & _ & _ & H).
      inversion F as [|? ? _ F']; subst. rewrite Forall_forall in *. intros x Hx.
      split; [apply H; auto|apply F'; auto].
    - cbn [lo]. lra.
    - apply nu_after_ok. rewrite <- E'. exact S.
  Qed.

  Lemma tinv_keep : forall u c p f nu a, tinv u c p f nu -> c <= a -> hi f a -> tinv u a p f nu.
  Proof.
    intros u c p f nu a (E & S & F & L & N) Hc Hh.
    split; [exact E|]. split; [exact S|]. split; [|split; [|exact N]].
    - destruct f as [|y f']; [constructor|]. cbn [hi] in Hh.
      rewrite E in S. apply ssorted_mid in S as (_ & _ & _ & H).
      inversion F as [|? ? Fy F']; subst. constructor; [lra|].
      rewrite Forall_forall in *. intros x Hx. specialize (H x Hx). specialize (F' x Hx). lra.
    - destruct p; cbn [lo] in *; auto; lra.
  Qed.

  Lemma tinv_val : forall u c p f nu t, tinv u c p f nu -> c < t -> hi f t ->
    isi_len_at ROps ts te u t = nu.
  Proof.
    intros u c p f nu t (E & S & F & L & N) Hc Hh. rewrite E. apply N; auto.
    destruct p; cbn [lo] in *; auto; lra.
  Qed.

  Lemma tinv_te_nil : forall u p f nu, tinv u te p f nu -> f = [].
  Proof. intros u p [|y f] nu (_ & _ & F & _); auto. inversion F; subst. lra. Qed.

  Definition gval (pc : R * R) : R :=
    isi_ratio ROps m (isi_len_at ROps ts te u1 (mid ROps pc)) (isi_len_at ROps ts te u2 (mid ROps pc)).
  Definition rat (e : R * R * R) : R := isi_ratio ROps m (snd (fst e)) (snd e).

  (* breakpoints after c, given the remaining event times E *)
  Definition tl_bs (c : R) (E : list R) : list R :=
    if Rltb c te then filter (fun x => Rltb x te) E ++ [te] else [].

  Lemma gval_ok : forall c a p1 f1 nu1 p2 f2 nu2,
    tinv u1 c p1 f1 nu1 -> tinv u2 c p2 f2 nu2 -> c < a ->
    (forall t, t < a -> hi f1 t) -> (forall t, t < a -> hi f2 t) ->
    gval (c, a) = isi_ratio ROps m nu1 nu2.
  Proof.
    intros c a p1 f1 nu1 p2 f2 nu2 T1 T2 Hca H1 H2. unfold gval.
    pose proof (mid_between c a Hca) as [Ha Hb].
    rewrite (tinv_val T1) by auto. rewrite (tinv_val T2) by auto. reflexivity.
  Qed.

  Lemma close_nil : forall c p1 nu1 p2 nu2,
    tinv u1 c p1 [] nu1 -> tinv u2 c p2 [] nu2 -> c <= te ->
    close_profile ROps te [c] [isi_ratio ROps m nu1 nu2] =
    (c :: tl_bs c [], map gval (pieces (c :: tl_bs c []))).
  Proof.
    intros c p1 nu1 p2 nu2 T1 T2 Hc. unfold close_profile, tl_bs. cbn [last neqb ROps filter app].
    destruct (Reqb_spec c te) as [E|E].
    - subst. destruct (Rltb_spec te te); [lra|]. reflexivity.
    - destruct (Rltb_spec c te); [|lra]. cbn [pieces map app].
      rewrite (gval_ok (a:=te) T1 T2) by (cbn [hi]; auto). reflexivity.
  Qed.

  Lemma close_step : forall c a v v' E' V',
    c < a -> a <= te -> (a = te -> E' = []) -> gval (c, a) = v ->
    close_profile ROps te (a :: E') (v' :: V') =
      (a :: tl_bs a E', map gval (pieces (a :: tl_bs a E'))) ->
    close_profile ROps te (c :: a :: E') (v :: v' :: V') =
      (c :: tl_bs c (a :: E'), map gval (pieces (c :: tl_bs c (a :: E')))).
  Proof.
    intros c a v v' E' V' Hca Hate Hnil Hv IH.
    assert (T : tl_bs c (a :: E') = a :: tl_bs a E').
    { unfold tl_bs. destruct (Rltb_spec c te); [|lra]. cbn [filter].
      destruct (Rltb_spec a te) as [H|H]; [reflexivity|].
      rewrite Hnil by lra. assert (a = te) as -> by lra. reflexivity. }
    rewrite T. rewrite pieces_cons2. cbn [map]. rewrite Hv.
    unfold close_profile in *.
    change (last (c :: a :: E') te) with (last (a :: E') te).
    change (removelast (v :: v' :: V')) with (v :: removelast (v' :: V')).
    destruct (neqb ROps (last (a :: E') te) te); cbn [app] in *; congruence.
  Qed.

  Definition loop_goal (fuel : nat) (c : R) p1 f1 nu1 p2 f2 nu2 : Prop :=
    let evs := isi_loop ROps fuel te p1 f1 nu1 p2 f2 nu2 in
    close_profile ROps te (c :: map (@ev_t R) evs) (isi_ratio ROps m nu1 nu2 :: map rat evs) =
    (c :: tl_bs c (map (@ev_t R) evs), map gval (pieces (c :: tl_bs c (map (@ev_t R) evs)))).

  Lemma loop_nil : forall k p1 nu1 p2 nu2, isi_loop ROps k te p1 [] nu1 p2 [] nu2 = [].
  Proof. destruct k; reflexivity. Qed.

  Lemma loop_step : forall k c a p1 f1 nu1 p2 f2 nu2 p1' f1' nu1' p2' f2' nu2',
    (forall c p1 f1 nu1 p2 f2 nu2, tinv u1 c p1 f1 nu1 -> tinv u2 c p2 f2 nu2 -> c <= te ->
       (length f1 + length f2 <= k)%nat -> loop_goal k c p1 f1 nu1 p2 f2 nu2) ->
    tinv u1 c p1 f1 nu1 -> tinv u2 c p2 f2 nu2 ->
    tinv u1 a p1' f1' nu1' -> tinv u2 a p2' f2' nu2' ->
    c < a <= te -> (forall t, t < a -> hi f1 t) -> (forall t, t < a -> hi f2 t) ->
    (length f1' + length f2' <= k)%nat ->
    let evs := isi_loop ROps k te p1' f1' nu1' p2' f2' nu2' in
    close_profile ROps te (c :: a :: map (@ev_t R) evs)
       (isi_ratio ROps m nu1 nu2 :: isi_ratio ROps m nu1' nu2' :: map rat evs) =
    (c :: tl_bs c (a :: map (@ev_t R) evs), map gval (pieces (c :: tl_bs c (a :: map (@ev_t R) evs)))).
  Proof.
    intros k c a p1 f1 nu1 p2 f2 nu2 p1' f1' nu1' p2' f2' nu2' IH T1 T2 T1' T2' [Hca Hate] H1 H2 L evs.
    apply close_step; auto.
    - intros ->. unfold evs. rewrite (tinv_te_nil T1'), (tinv_te_nil T2'), loop_nil. reflexivity.
    - eapply gval_ok; eauto.
    - apply (IH a p1' f1' nu1' p2' f2' nu2'); auto.
  Qed.

  Lemma loop_spec : forall fuel c p1 f1 nu1 p2 f2 nu2,
    tinv u1 c p1 f1 nu1 -> tinv u2 c p2 f2 nu2 -> c <= te ->
    (length f1 + length f2 <= fuel)%nat -> loop_goal fuel c p1 f1 nu1 p2 f2 nu2.
  Proof.
    induction fuel as [|k IH]; intros c p1 f1 nu1 p2 f2 nu2 T1 T2 Hc L.
    - destruct f1, f2; cbn [length] in L; try lia. unfold loop_goal. cbn [isi_loop map].
      eapply close_nil; eauto.
    - unfold loop_goal. cbn [isi_loop].
      destruct f1 as [|a f1'], f2 as [|b f2'].
      + cbn [map]. eapply close_nil; eauto.
      + pose proof (tinv_hd T2) as Hb. cbn [map ev_t rat fst snd]. fold rat.
        eapply (loop_step (a:=b) IH T1 T2); auto.
        * apply (tinv_keep (a:=b) T1); [lra|exact I].
        * apply (tinv_adv T2).
        * intros; exact I.
        * cbn [length] in *. lia.
      + pose proof (tinv_hd T1) as Ha. cbn [map ev_t rat fst snd]. fold rat.
        eapply (loop_step (a:=a) IH T1 T2); auto.
        * apply (tinv_adv T1).
        * apply (tinv_keep (a:=a) T2); [lra|exact I].
        * intros; exact I.
        * cbn [length] in *. lia.
      + pose proof (tinv_hd T1) as Ha. pose proof (tinv_hd T2) as Hb. cbn [nltb ROps].
        destruct (Rltb_spec a b) as [H1|H1]; [|destruct (Rltb_spec b a) as [H2|H2]];
          cbn [map ev_t rat fst snd]; fold rat.
        * eapply (loop_step (a:=a) IH T1 T2); auto.
          -- apply (tinv_adv T1).
          -- apply (tinv_keep (a:=a) T2); [lra|exact H1].
          -- intros t Ht; cbn [hi]; lra.
          -- cbn [length] in *. lia.
        * eapply (loop_step (a:=b) IH T1 T2); auto.
          -- apply (tinv_keep (a:=b) T1); [lra|exact H2].
          -- apply (tinv_adv T2).
          -- intros t Ht; cbn [hi]; lra.
          -- cbn [length] in *. lia.
        * assert (a = b) by lra. subst b.
          eapply (loop_step (a:=a) IH T1 T2); auto.
          -- apply (tinv_adv T1).
          -- apply (tinv_adv T2).
          -- cbn [length] in *. lia.
  Qed.
End Loop.

(* ------------------------------------------------------------------ *)
(* 5. start state, and the main theorem                                 *)

Lemma eff_valid : forall ts te s, valid ts te s -> valid ts te (eff ts te s).
Proof.
  intros ts te [|x r] V; [|exact V]. destruct V as (H & _ & _). cbn [eff].
  split; [exact H|]. split.
  - apply ssorted_cons; [apply ssorted_cons; [apply ssorted_nil|constructor]|]. repeat constructor; auto.
  - repeat constructor; lra.
Qed.

Lemma eff_nonempty : forall (ts te : R) s, eff ts te s <> [].
Proof. intros ts te [|x r]; cbn [eff]; discriminate. Qed.

Lemma eff_in : forall (ts te : R) s x, In x s -> In x (eff ts te s).
Proof. intros ts te [|y r] x H; [destruct H|exact H]. Qed.

Lemma eff_in_inside : forall (ts te : R) s x, In x (eff ts te s) -> ts < x -> x < te -> In x s.
Proof.
  intros ts te [|y r] x H H1 H2; [|exact H]. cbn in H. destruct H as [H|[H|[]]]; lra.
Qed.

Lemma init_ok : forall ts te u, valid ts te u -> u <> [] ->
  forall p f nu, isi_init ROps ts te u = (p, f, nu) ->
  tinv ts te u ts p f nu /\ (forall x, In x f <-> In x u /\ ts < x) /\
  (length f <= length u)%nat /\ ssorted f.
Proof.
  intros ts te [|x0 r] (Hte & S & B) Hne p f nu E; [congruence|].
  pose proof (ssorted_cons_inv _ _ S) as [Sr Fr]. rewrite Forall_forall in Fr.
  inversion B as [|? ? B0 Br]; subst. rewrite Forall_forall in Br.
  unfold isi_init in E. cbn [nltb ROps] in E. destruct (Rltb_spec ts x0) as [H|H].
  - injection E as <- <- <-. split; [|split; [|split]]; auto.
    + split; [reflexivity|]. split; [exact S|]. split; [|split; [exact I|]].
      * constructor; [lra|]. rewrite Forall_forall. intros x Hx.
        specialize (Fr x Hx). specialize (Br x Hx). lra.
      * apply nu_init_ok. exact S.
    + intros x; split; [|tauto]. intros Hx; split; auto.
      destruct Hx as [<-|Hx]; auto. specialize (Fr x Hx). lra.
  - assert (x0 = ts) by lra. subst x0.
    injection E as <- <- <-. split; [|split; [|split]]; auto.
    + split; [reflexivity|]. split; [exact S|]. split; [|split].
      * rewrite Forall_forall. intros x Hx. specialize (Fr x Hx). specialize (Br x Hx). lra.
      * cbn [lo]. lra.
      * replace (match r with [] => nsub ROps te ts | x1 :: _ => nsub ROps x1 ts end)
          with (nu_after ROps te [ts] r) by (destruct r; reflexivity).
        apply nu_after_ok. exact S.
    + intros x; split.
      * intros Hx; split; [right; auto|]. apply Fr; auto.
      * intros [[<-|Hx] Ht]; auto. lra.
    + cbn [length]. lia.
Qed.

Theorem isi_profile_spec : forall s1 s2 ts te m,
  valid ts te s1 -> valid ts te s2 ->
  isi_profile_py ROps (eff ts te s1) (eff ts te s2) ts te m = isi_spec ROps s1 s2 ts te m.
Proof.
  intros s1 s2 ts te m V1 V2.
  assert (Hte : ts < te) by (destruct V1; auto).
  pose proof (eff_valid V1) as W1. pose proof (eff_valid V2) as W2.
  unfold isi_spec. cbv zeta.
  set (u1 := eff ts te s1) in *. set (u2 := eff ts te s2) in *.
  unfold isi_profile_py, isi_profile_gen, isi_scan.
  destruct (isi_init ROps ts te u1) as [[p1 f1] nu1] eqn:I1.
  destruct (isi_init ROps ts te u2) as [[p2 f2] nu2] eqn:I2.
  destruct (init_ok W1 (@eff_nonempty ts te s1) I1) as (T1 & M1 & L1 & S1).
  destruct (init_ok W2 (@eff_nonempty ts te s2) I2) as (T2 & M2 & L2 & S2).
  assert (Hc : ts <= te) by lra.
  assert (L : (length f1 + length f2 <= length u1 + length u2)%nat) by lia.
  pose proof (loop_spec m T1 T2 Hc L) as H. unfold loop_goal in H. cbv zeta in H.
  unfold rat in H. rewrite H. clear H.
  assert (Bk : ts :: tl_bs te ts (map (@ev_t R)
                 (isi_loop ROps (length u1 + length u2) te p1 f1 nu1 p2 f2 nu2))
               = breaks ROps ts te s1 s2).
  { unfold tl_bs, breaks. destruct (Rltb_spec ts te); [|lra]. f_equal. f_equal.
    rewrite loop_events. apply ssorted_ext.
    - apply ssorted_filter. apply mrg_sorted; auto.
    - apply sort_unique_sorted.
    - intros x. rewrite filter_In, sort_unique_in, filter_In, in_app_iff.
      cbn [nltb ROps]. rewrite andb_true_iff, !Rltb_true. split.
      + intros [Hm Ht]. apply mrg_in in Hm. destruct Hm as [Hm|Hm].
        * apply M1 in Hm as [Hu Hs]. split; [left|split; auto]. eapply eff_in_inside; eauto.
        * apply M2 in Hm as [Hu Hs]. split; [right|split; auto]. eapply eff_in_inside; eauto.
      + intros [Hin [Hs Ht]]. split; auto. apply mrg_in_conv; auto.
        destruct Hin as [Hin|Hin]; [left; apply M1|right; apply M2]; split; auto; apply eff_in; auto. }
  rewrite Bk. f_equal.
Qed.

Corollary isi_profile_breakpoints : forall s1 s2 ts te m,
  valid ts te s1 -> valid ts te s2 ->
  fst (isi_profile_py ROps (eff ts te s1) (eff ts te s2) ts te m) = breaks ROps ts te s1 s2.
Proof. intros. rewrite isi_profile_spec by auto. reflexivity. Qed.

(* every ISI length read inside the recording is positive, so the divisor
   max v1 v2 m of every profile value is positive *)
Lemma split_at : forall (u : list R) t, exists p f,
  u = rev p ++ f /\ Forall (fun x => x <= t) p /\ hi f t.
Proof.
  induction u as [|x r IH]; intros t.
  - exists [], []. repeat split; constructor.
  - destruct (Rlt_dec t x) as [H|H].
    + exists [], (x :: r). repeat split; auto.
    + destruct (IH t) as (p & f & E & P & Hh). exists (p ++ [x]), f. split; [|split; auto].
      * rewrite rev_app_distr. cbn [rev app]. rewrite E. reflexivity.
      * apply Forall_app; split; auto. constructor; [lra|constructor].
Qed.

Lemma isi_len_at_pos_gen : forall ts te u t, valid ts te u -> u <> [] -> ts < t < te ->
  0 < isi_len_at ROps ts te u t.
Proof.
  intros ts te u t (Hte & S & B) Hne [Ht1 Ht2].
  destruct (split_at u t) as (p & f & E & P & Hh). subst u.
  assert (L : lo p t) by (destruct p; [exact I|inversion P; auto]).
  rewrite isi_len_at_cursor by auto.
  destruct p as [|a p'], f as [|y f'].
  - exfalso; apply Hne; reflexivity.
  - cbn [hi] in Hh. destruct f' as [|y2 f'']; [lra|].
    apply Rlt_le_trans with (y - ts); [lra|apply Rmax_l].
  - cbn [lo] in L. destruct p' as [|p0 p'']; [lra|].
    apply Rlt_le_trans with (te - a); [lra|apply Rmax_l].
  - cbn [lo hi] in *. lra.
Qed.

Corollary isi_len_at_pos : forall ts te u t, valid ts te u -> u <> [] -> ts < t < te ->
  ~ In t u -> 0 < isi_len_at ROps ts te u t.
Proof. intros; apply isi_len_at_pos_gen; auto. Qed.

Print Assumptions isi_profile_spec.
Print Assumptions isi_profile_breakpoints.
Print Assumptions isi_len_at_pos.
